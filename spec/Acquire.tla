------------------------------- MODULE Acquire -------------------------------
(***************************************************************************)
(* C18, part (ii) -- acquisition functions compute what they define.        *)
(* For a regressor state (GpExact.tla, squared-exponential kernel) and a    *)
(* query point q with predictive mean mu, variance v, incumbent ymax:       *)
(*   UCB(q)    = mu + kappa sqrt(v)                                         *)
(*   MaxVar(q) = v                                                          *)
(*   EI(q)     = E[max(f - ymax, 0)] = (mu - ymax) Phi(z) + sqrt(v) phi(z), *)
(*               z = (mu - ymax)/sqrt(v)     (the closed form of the        *)
(*               expectation under N(mu, v); textbook identity)             *)
(* and their spatial gradients from the derivative predictions of C16:      *)
(*   grad UCB = dmu + kappa dv / (2 sqrt(v))                                *)
(*   grad EI  = Phi(z) dmu + phi(z) dv / (2 sqrt(v))                        *)
(*   grad ln EI = grad EI / EI                                              *)
(* Values are SymLin records over PRODUCT atoms (evaluated generically by   *)
(* the harness):  Phi(p, v) = standard normal cdf at p/sqrt(v),             *)
(* phi(p, v) the pdf there, sqrt(v), isqrt(v) = 1/sqrt(v), ln2.            *)
(***************************************************************************)
EXTENDS GpExact
Prod(a, b) == <<"prod", a, b>>
APhi(p, v) == <<"Phi", p, v>>
Aphi(p, v) == <<"phi", p, v>>
Ymax(pb) == LET S == {pb.y[i] : i \in 1..Len(pb.y)} IN CHOOSE m \in S : \A t \in S : t <= m
UCB(mu, v, kappa) == SAdd(SRat(mu), SAtom(RInt(kappa), <<"sqrt", v>>))
EI(mu, v, ymax) == LET p == RSub(mu, RInt(ymax)) IN SAdd(SAtom(p, APhi(p, v)), SAtom(ROne, Prod(<<"sqrt", v>>, Aphi(p, v))))
\* a spatial derivative given as  slope + c ln2  (dmu) or  c ln2  (dv): records [r0, r1]
\* grad UCB = dmu + kappa/2 * dv * isqrt(v)
GradUCB(dmu, dv, v, kappa) == SAdd(SAdd(SRat(dmu.r0), SAtom(dmu.r1, <<"ln2">>)),
                                   SAtom(RMul(<<kappa, 2>>, dv.r1), Prod(<<"ln2">>, <<"isqrt", v>>)))
\* grad EI = Phi dmu + 1/2 phi isqrt(v) dv
GradEI(dmu, dv, mu, v, ymax) == LET p == RSub(mu, RInt(ymax)) IN
    SAdd(SAdd(SAtom(dmu.r0, APhi(p, v)), SAtom(dmu.r1, Prod(<<"ln2">>, APhi(p, v)))),
         SAtom(RMul(<<1, 2>>, dv.r1), Prod(<<"ln2">>, Prod(Aphi(p, v), <<"isqrt", v>>))))
=============================================================================
