---- MODULE ReadoutTrace ----
(* C14, code -> spec: every recorded get_interval call must satisfy IntervalOK *)
EXTENDS Readout, TLCExt, Json, IOUtils
Log == ndJsonDeserialize(IOEnv.TRACE_FILE)
VARIABLES l, okv
vars == <<l, okv>>
Ev == Log[l]
TraceInit == TLCSet(1, 1) /\ l = 1 /\ okv = TRUE
\* a failing call is reported by index (one line each) instead of as an invariant violation, so that ALL of them are found in one pass
Call == LET ok == IntervalOK(Ev.n, Ev.burn, Ev.thin, Ev.f8, Ev.m, Ev.rank, Ev.ids, Ev.pids, Ev.ndim)
        IN okv' = ok /\ (IF ok THEN TRUE ELSE PrintT(<<"BAD", l>>))
TraceNext == l <= Len(Log) /\ l' = l + 1 /\ Call
TraceSpec == TraceInit /\ [][TraceNext]_vars
Holds == okv
Progress == TLCSet(1, IF l > TLCGet(1) THEN l ELSE TLCGet(1))
TraceAccepted == IF TLCGet(1) = Len(Log) + 1 THEN TRUE ELSE PrintT(<<"REJECTED at line", TLCGet(1)>>) /\ FALSE
====
