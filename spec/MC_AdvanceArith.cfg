INIT Init
NEXT Next
CONSTANTS MaxN = 700 MaxInterval = 14
INVARIANT PTEqualAdvance
INVARIANT PTSwapCount
INVARIANT ChainEqualAdvance
CHECK_DEADLOCK FALSE
