------------------------------ MODULE LeapTrace ------------------------------
(* C07, code -> spec on off-lattice inputs: each event is one real orbit integrated forward, flipped,   *)
(* integrated again (reversibility error, relative, in units of 1e-12) and re-integrated with half the   *)
(* step size (energy-error ratio).                                                                       *)
EXTENDS Integers, Sequences, TLC, TLCExt, Json, IOUtils
Log == ndJsonDeserialize(IOEnv.TRACE_FILE)
VARIABLES l, rev, ratio
vars == <<l, rev, ratio>>
Ev == Log[l]
TraceInit == TLCSet(1, 1) /\ l = 1 /\ rev = 0 /\ ratio = TRUE
Orbit == Ev.ev = "Orbit" /\ rev' = Ev.rev_err_e12 /\ ratio' = Ev.ratio_ok
TraceNext == l <= Len(Log) /\ l' = l + 1 /\ Orbit
TraceSpec == TraceInit /\ [][TraceNext]_vars
ReversibleOffLattice == rev <= 1000                  \* 1e-9 relative
SecondOrder == ratio                                  \* |dH| at eps/2 <= 0.45 |dH| at eps (unbounded orbits)
Progress == TLCSet(1, IF l > TLCGet(1) THEN l ELSE TLCGet(1))
TraceAccepted == IF TLCGet(1) = Len(Log) + 1 THEN TRUE ELSE PrintT(<<"REJECTED at line", TLCGet(1)>>) /\ FALSE
=============================================================================
