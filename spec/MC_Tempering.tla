---------------------------- MODULE MC_Tempering ----------------------------
EXTENDS Tempering, Json
MCProg == << <<"steps", 2>>, <<"swap">>, <<"steps", 1>>, <<"swap">>, <<"return">>, <<"shutdown">> >>
MCBeta == <<4, 2, 1>>
MCUDraw == << <<0, 1, 2>>, <<3, 0, 1>> >>
MCFree == <<>>
MCFixed == << {<<1, 2>>}, {<<2, 3>>} >>
\* terminal states are printed; with fixed pairing and draws there must be exactly one (ScheduleIndependence)
Terminal == (Done /\ \A w \in W : wst[w] = "dead") => PrintT(ToJson([chains |-> chain, returned |-> returned]))
=============================================================================
