------------------------------ MODULE AcquireSM ------------------------------
(***************************************************************************)
(* C18, part (i) -- GpOptimiser as a state machine.  Data are sequences     *)
(* (x ids, integer y values); the incumbent is the maximum of y; the        *)
(* caller's arrays are separate objects which no operation may change.      *)
(*   Propose(opt)   : returns a point inside the search box; no state change*)
(*   Add(y)         : data' = data o <<new>>, incumbent' = max, the next    *)
(*                    model is fitted to data' (its size is |data'|)        *)
(***************************************************************************)
EXTENDS Integers, Sequences, FiniteSets, TLC
CONSTANTS YInit,       \* initial y data (sequence of integers)
          YNew,        \* offered new y values
          Opts,        \* optimisers offered to propose
          MaxOps
VARIABLES ys, fitted, hist
vars == <<ys, fitted, hist>>
MaxOf(s) == LET S == {s[i] : i \in 1..Len(s)} IN CHOOSE m \in S : \A t \in S : t <= m
Init == ys = YInit /\ fitted = Len(YInit) /\ hist = <<>>
Propose(o) == Len(hist) < MaxOps /\ hist' = Append(hist, <<"propose", o, 0>>) /\ UNCHANGED <<ys, fitted>>
Add(y) == /\ Len(hist) < MaxOps /\ ys' = Append(ys, y) /\ fitted' = Len(ys) + 1
          /\ hist' = Append(hist, <<"add", "", y>>)
Next == (\E o \in Opts : Propose(o)) \/ (\E y \in YNew : Add(y))
Spec == Init /\ [][Next]_vars
Incumbent == MaxOf(ys)
ModelSeesAllData == fitted = Len(ys)
=============================================================================
