"""C15 -- advancing a sampler adds exactly the requested number of samples.

MC   : Advance.tla (every call sequence over m in {0,1,7,99,100,101,250} and take_step), AdvanceArith.tla (grouped-loop
       arithmetic for all n), Pool.tla (PoolEqualsSerial over every interleaving, completion under fairness),
       RunForGen.tla (enumerates budgets and per-step cost schedules from microseconds to minutes).
S->C : every Advance.tla call sequence executed on Gibbs / Metropolis / PCA / HMC / ensemble with a counting wrapper;
       every RunForGen schedule driven through a fake clock into the real run_for.
C->S : the resulting clock-read / step traces validated by RunFor.tla (ExitOnlyAfterBudget, NoStepAfterBudget,
       StarvationFree, whole steps); real ChainPool vs the same chains advanced serially with identical generator
       states, under injected delays.
"""
import copy
import json
import os
import time as _time
import numpy as np

from harness.core import Check, run_tlc, must_pass, seed, MachineryError, scratch
from harness.c03 import GaussPost


def _mk_chain(kind, sd, display=False):
    from inference.mcmc.gibbs import GibbsChain, MetropolisChain
    from inference.mcmc import PcaChain, HamiltonianChain, EnsembleSampler
    post = GaussPost(2)
    start = np.array([0.5, -0.25])
    if kind == "ensemble":
        w = np.array([[0.5, -0.25], [1.0, 0.5], [-1.0, 2.0], [0.2, 0.1]])
        ch = EnsembleSampler(posterior=post, starting_positions=w, display_progress=display)
    elif kind == "hmc":
        ch = HamiltonianChain(posterior=post, grad=post.grad, start=start, epsilon=0.3, display_progress=display)
        ch.steps = 3
    elif kind == "pca":
        ch = PcaChain(posterior=post, start=start, widths=np.array([0.5, 0.5]), display_progress=display)
    else:
        cls = GibbsChain if kind == "gibbs" else MetropolisChain
        ch = cls(posterior=post, start=start, widths=np.array([0.5, 0.5]), display_progress=display)
    ch.rng = np.random.default_rng(sd)
    for j, p in enumerate(getattr(ch, "params", []) or []):
        p.rng = np.random.default_rng(sd * 31 + j + 1)
    return ch


def advance_part(ck, tier):
    import io, contextlib
    for kind, walkers, len0 in (("gibbs", 1, 1), ("metropolis", 1, 1), ("pca", 1, 1), ("hmc", 1, 1), ("ensemble", 4, 0)):
        maxcalls = 2 if tier == "quick" else 3
        mset = "MCM" if kind != "ensemble" else "{0, 1, 3, 12}"
        cfg = ("SPECIFICATION Spec\nCONSTANTS MSet <- %s\n Walkers = %d Len0 = %d MaxCalls = %d\nINVARIANT LenAgree\n"
               "INVARIANT ExactlyRequested\nINVARIANT Export\nCHECK_DEADLOCK FALSE\n" % ("MCM" if kind != "ensemble" else "MCE", walkers, len0, maxcalls))
        mod = ("---- MODULE MC_Advance ----\nEXTENDS Advance, Json\nMCM == {0, 1, 7, 99, 100, 101, 201, 250, 351}\nMCE == {0, 1, 3, 12}\n"
               "Export == Len(calls) = MaxCalls => PrintT(ToJson([calls |-> calls, len |-> clen]))\n====\n")
        r = run_tlc("MC_Advance", cfg_text=cfg, extra_files={"MC_Advance.tla": mod}, workers=4)
        if r.violated:
            ck.violation("spec: Advance " + ",".join(r.violated), {"violated": r.violated}, site="spec")
        must_pass(r, "MC_Advance")
        ck.tlc(r, "advance_" + kind)
        import tempfile
        for bi, b in enumerate(r.printed):
            for display in ((False, True) if tier == "thorough" or kind in ("gibbs", "ensemble") else (False,)):
                ch = _mk_chain(kind, 5 + seed(), display=display)
                count = {"n": 0}

                def wrap(c_):
                    if kind != "ensemble":
                        orig = c_.take_step

                        def counted(orig=orig):
                            count["n"] += 1
                            orig()
                        c_.take_step = counted
                wrap(ch)
                # every fifth call sequence is interrupted by a save / load after its first call: the lengths go on agreeing
                reload_after_first = (bi % 5 == 2 and len(b["calls"]) >= 2)
                err = None
                try:
                    with contextlib.redirect_stdout(io.StringIO()):
                        for ci_, m in enumerate(b["calls"]):
                            if m == -1:
                                ch.take_step()
                            else:
                                ch.advance(m)
                            if reload_after_first and ci_ == 0:
                                with tempfile.TemporaryDirectory() as d_:
                                    ch.save(d_ + "/c.npz")
                                    post_ = GaussPost(2)
                                    ch = type(ch).load(d_ + "/c.npz", posterior=post_, **({"grad": post_.grad} if kind == "hmc" else {}))
                                if kind == "hmc":
                                    ch.steps = 3
                                wrap(ch)
                                # the reported length of the reloaded sampler equals what it stores, before anything else is done with it
                                if not (kind == "ensemble" and ch.sample is None):
                                    ns_, np_ = len(ch.get_sample(burn=0)), len(ch.get_probabilities(burn=0))
                                    if not (ns_ == np_ == ch.chain_length):
                                        ck.violation("LenAgree right after load: stored samples = stored probabilities = chain_length",
                                                     {"class": type(ch).__name__, "samples": ns_, "probs": np_, "chain_length": int(ch.chain_length)},
                                                     site=f"{type(ch).__name__}.load")
                except Exception as ex:
                    err = repr(ex)
                ident = {"class": type(ch).__name__, "calls": ["take_step" if m == -1 else f"advance({m})" for m in b["calls"]],
                         "display_progress": display, "saved_and_reloaded_after_first_call": reload_after_first}
                ck.case(("adv", kind, tuple(b["calls"]), display))
                site = f"{type(ch).__name__}.advance"
                if err:
                    ck.violation("advance raised", {**ident, "error": err}, site=site)
                    continue
                if kind == "ensemble" and ch.chain_length == 0 and ch.sample is None:
                    ns = npb = 0
                else:
                    ns, npb = len(ch.get_sample(burn=0)), len(ch.get_probabilities(burn=0))
                if not (ns == npb == ch.chain_length == b["len"]):
                    ck.violation("ExactlyRequested / LenAgree: stored samples = stored probabilities = chain_length = requested",
                                 {**ident, "samples": ns, "probs": npb, "chain_length": int(ch.chain_length), "spec": b["len"]}, site=site)
                if kind != "ensemble" and count["n"] != b["len"] - len0:
                    ck.violation("number of take_step calls = requested steps", {**ident, "steps": count["n"], "spec": b["len"] - len0}, site=site)
        ck.sample({"part": "advance", "class": kind, "calls": r.printed[len(r.printed) // 2]["calls"], "spec_len": r.printed[len(r.printed) // 2]["len"]})


class FakeClock:
    def __init__(self, events):
        self.t = 1000.0           # seconds, arbitrary origin
        self.ev = events
        self.t0 = None
        self.idle = 0
        self.deadline = None

    def read_loop(self):
        if self.t0 is None:
            self.t0 = self.t
        self.t += 2e-6                       # reading the clock takes time too
        self.idle += 1
        if self.idle > 40 and self.deadline is not None and self.t < self.deadline:
            # the loop is only polling the clock: let the (simulated) wall clock run out instead of spinning here for ever;
            # the 40 idle reads are in the trace and RunFor.tla judges them
            self.t = self.deadline + 1e-3
        self.ev.append({"ev": "Clock", "t": int(round((self.t - self.t0) * 1e6))})
        return self.t

    def read_other(self):
        return self.t


def runfor_part(ck, tier):
    import io, contextlib
    import inference.mcmc.base as base
    import inference.mcmc.utilities as util
    from inference.mcmc.base import MarkovChain

    class TickChain(MarkovChain):
        """minimal chain: the real MarkovChain.run_for / advance drive it; a step only counts"""
        def __init__(self, display):
            from inference.mcmc.utilities import ChainProgressPrinter
            self.chain_length = 1
            self.n_parameters = 1
            self.ProgressPrinter = ChainProgressPrinter(display=display, leading_msg="tick")

        def take_step(self):
            self.chain_length += 1

        def get_parameter(self, index, burn=1, thin=1):
            return np.zeros(0)

        def get_probabilities(self, burn=1, thin=1):
            return np.zeros(0)

        def get_sample(self, burn=1, thin=1):
            return np.zeros((0, 1))

    maxlen = 2 if tier == "quick" else 3
    r = run_tlc("RunForGen", cfg_text=("INIT Init\nNEXT Next\nCONSTANTS Classes = {1, 2, 3, 4, 5} MaxLen = %d Budgets = {0, 1, 300}\n"
                                       "CHECK_DEADLOCK FALSE\n" % maxlen), workers=1)
    must_pass(r, "RunForGen")
    ck.tlc(r, "runfor_schedules")
    events = []
    runs = []
    real_base, real_util = base.time, util.time
    try:
        for b in r.printed:
            budget_s = b["budget"] * 0.3
            costs = [c * 1e-6 for c in b["costs"]]
            if budget_s / costs[-1] > 6e4 or budget_s / max(costs) > 3e5:
                continue                      # very many no-op steps: skipped for run time only (0.3 s budgets cover the fast regime)
            for kind in (("tick", "gibbs") if (costs[-1] > 1.0 and len(costs) <= 2) else ("tick",)):
                for display in (False, True):
                    ev = []
                    clock = FakeClock(ev)
                    clock.deadline = clock.t + budget_s
                    base.time = clock.read_loop
                    util.time = clock.read_other
                    ch = TickChain(display) if kind == "tick" else _mk_chain("gibbs", 3, display=display)
                    # every other run of the cheap chain starts from a chain that already has a history
                    history = 4000 if (kind == "tick" and len(runs) % 2 == 1) else 0
                    if history:
                        base.time, util.time = real_base, real_util                 # the history is not part of the timed run
                        with contextlib.redirect_stdout(io.StringIO()):
                            ch.advance(history)
                        base.time, util.time = clock.read_loop, clock.read_other
                    orig = ch.take_step
                    state = {"j": 0}

                    def stepped(orig=orig, state=state, clock=clock, ev=ev, costs=costs):
                        orig()
                        clock.t += costs[min(state["j"], len(costs) - 1)]
                        clock.idle = 0
                        state["j"] += 1
                        if ev and ev[-1]["ev"] == "Steps":
                            ev[-1]["n"] += 1             # consecutive steps between two clock reads are one event
                        else:
                            ev.append({"ev": "Steps", "n": 1})
                    ch.take_step = stepped
                    before = ch.chain_length
                    ev.append({"ev": "Begin", "budget": int(round(budget_s * 1e6)), "uniform": bool(len(set(costs)) == 1),
                               "cmax": int(round(max(costs) * 1e6)), "history": history})
                    err = None
                    wall = _time.time()
                    try:
                        # the same budget expressed through each of the three arguments, and through all of them at once
                        style = len(runs) % 4
                        kw = [dict(minutes=budget_s / 60.0), dict(hours=budget_s / 3600.0), dict(days=budget_s / 86400.0),
                              dict(minutes=budget_s / 180.0, hours=budget_s / 10800.0, days=budget_s / 259200.0)][style]
                        with contextlib.redirect_stdout(io.StringIO()):
                            ch.run_for(**kw)
                    except Exception as ex:
                        err = repr(ex)
                    ev.append({"ev": "End", "added": int(ch.chain_length - before)})
                    ident = {"class": type(ch).__name__, "budget_s": budget_s, "run_for_arguments": kw, "step_costs_s": costs, "display_progress": display, "steps_before_the_timed_run": history}
                    ck.case(("runfor", kind, b["budget"], tuple(b["costs"]), display))
                    if err:
                        ck.violation("run_for raised", {**ident, "error": err}, site="MarkovChain.run_for")
                        continue
                    runs.append((len(events), ident))
                    events += ev
    finally:
        base.time, util.time = real_base, real_util
    d = scratch("c15rf_")
    path = os.path.join(d, "trace.ndjson")
    with open(path, "w") as fh:
        for e in events:
            fh.write(json.dumps(e) + "\n")
    rt = run_tlc("RunFor", workers=1, env={"TRACE_FILE": path}, timeout=900)
    if rt.error and "REJECTED" not in rt.stdout:
        raise MachineryError("RunFor trace: " + rt.error)
    ck.tlc(rt, "runfor_traces")
    ck.traces += len(runs)
    ck.count("runfor_traces", "events", len(events))
    rej = [x for x in rt.raw_printed if "REJECTED" in x]
    if rt.violated or rej:
        # attribute: replay the invariants run by run for the report (projection only: counts idle reads per run)
        for start, ident in runs:
            idle = worst = 0
            deadline = None
            over = False
            bad = None
            j = start
            budget = events[start]["budget"]
            uni, cmax, last = events[start].get("uniform", False), events[start].get("cmax", 0), 0
            for e in events[start + 1:]:
                if e["ev"] == "Begin":
                    break
                if e["ev"] == "Clock":
                    last = e["t"]
                    if deadline is None:
                        deadline = e["t"] + budget
                        over = over or budget == 0
                    else:
                        if e["t"] >= deadline:
                            over = True
                        else:
                            idle += 1
                            worst = max(worst, idle)
                elif e["ev"] == "Steps":
                    if over:
                        bad = "NoStepAfterBudget"
                    idle = 0
                elif e["ev"] == "End":
                    if not over:
                        bad = "ExitOnlyAfterBudget"
                    elif uni and (last - deadline - cmax) // 2 > max(20 * cmax, 1000000):
                        bad = "OverrunBounded (returned %.1f s after the deadline; every step costs %.4f s)" % ((last - deadline) / 1e6, cmax / 1e6)
            if worst > 6:
                bad = "StarvationFree"
            if bad:
                ck.violation(bad + ": a timed run keeps taking whole steps until its time budget is used up, then stops",
                             {**ident, "max_consecutive_idle_clock_reads": worst}, site="MarkovChain.run_for")
        if not ck.violations and not ck.known_hits:
            raise MachineryError("RunFor.tla rejected the traces but no run could be blamed: %s %s" % (rt.violated, rej))
    if runs:
        ck.sample({"part": "run_for", **runs[len(runs) // 2][1]})


class SlowPost(GaussPost):
    def __init__(self, n, delay):
        super().__init__(n)
        self.delay = delay

    def __call__(self, x):
        if self.delay:
            _time.sleep(self.delay)
        return super().__call__(x)


def pool_part(ck, tier):
    import io, contextlib
    from inference.mcmc import ChainPool, GibbsChain, HamiltonianChain
    r = run_tlc("MC_Pool")
    if r.violated:
        ck.violation("spec: Pool " + ",".join(r.violated), {"violated": r.violated}, site="spec")
    must_pass(r, "MC_Pool")
    ck.tlc(r, "pool_model")
    sizes = (1, 3) if tier == "quick" else (1, 2, 3, 4)
    for size in sizes:
        for sched in ("none", "first_slow", "last_slow"):
            for display in (False, True) if sched == "none" else (False,):
                delays = [0.0] * size
                if sched == "first_slow":
                    delays[0] = 0.002
                if sched == "last_slow":
                    delays[-1] = 0.002

                def build():
                    chains = []
                    for k in range(size):
                        post = SlowPost(2, delays[k])
                        ch = GibbsChain(posterior=post, start=np.array([0.1 * k, 1.0 - 0.2 * k]), widths=np.array([0.5, 0.4]),
                                        display_progress=display)
                        if sched != "none":
                            # limits in force: the bounded / non-negative proposal paths draw from the parameter's own generator too
                            ch.set_boundaries(0, (-2.0, 3.0))
                            ch.set_non_negative(1, True)
                        ch.rng = np.random.default_rng(100 + k)
                        for j, p in enumerate(ch.params):
                            p.rng = np.random.default_rng(1000 + 10 * k + j)
                        chains.append(ch)
                    return chains
                n = 23
                serial = build()
                np.random.seed(12345)                        # the process-global generator is NOT part of a chain's state
                with contextlib.redirect_stdout(io.StringIO()):
                    for ch in serial:
                        ch.advance(n)
                np.random.seed(54321)
                pooled_in = build()
                ident = {"pool_size": size, "schedule": sched, "n": n, "display_progress": display}
                ck.case(("pool", size, sched, display))
                pool = None
                try:
                    with contextlib.redirect_stdout(io.StringIO()):      # workers are forked here and inherit the redirection
                        pool = ChainPool(pooled_in)
                        pool.advance(n)
                    out = pool.chains
                except Exception as ex:
                    ck.violation("ChainPool.advance raised", {**ident, "error": repr(ex)}, site="ChainPool.advance")
                    continue
                finally:
                    if pool is not None:
                        pool.pool.terminate()
                        pool.pool.join()
                for k in range(size):
                    a, b = out[k], serial[k]
                    same = (np.array_equal(a.get_sample(burn=0), b.get_sample(burn=0))
                            and np.array_equal(a.get_probabilities(burn=0), b.get_probabilities(burn=0))
                            and a.chain_length == b.chain_length == n + 1)
                    if not same:
                        ck.violation("PoolEqualsSerial: chain k of the pool = chain k advanced alone with the same generator state",
                                     {**ident, "chain": k, "pool_len": int(a.chain_length), "serial_len": int(b.chain_length)},
                                     site="ChainPool.advance")
    ck.sample({"part": "pool", "sizes": list(sizes), "schedules": ["none", "first_slow", "last_slow"]})


def tempering_part(ck, tier):
    """ParallelTempering.advance(n, swap_interval) advances every chain by exactly n steps: fewer steps than one exchange interval,
    more than 50 exchange cycles with a remainder, and the default interval"""
    from harness import c08
    a = dict(temps=[1, 4], starts=[[-3], [4]], kind="gibbs", display=False, seed=seed() + 41, delays=[0.0, 0.0], jitter=0,
             prog=[["advance", 7, 10], ["return"], ["advance", 161, 3], ["return"], ["advance", 23, 5], ["return"],
                   ["advance", 250, 5], ["return"], ["advance", 101, 2], ["return"], ["advance", 200, 2], ["return"], ["shutdown"]])       # exactly 50 cycles (+ 1 step), 100 cycles
    sc = c08.run_scenario(a)
    ck.case(("pt-advance",))
    if sc["hung"] or sc["result"] is None or sc["result"]["error"]:
        ck.violation("ParallelTempering run failed", {"error": (sc["result"] or {}).get("error"), "stdout": sc["stdout"][-300:]}, site="ParallelTempering.advance")
        return
    want = [1 + 7, 1 + 7 + 161, 1 + 7 + 161 + 23, 192 + 250, 442 + 101, 543 + 200]
    got = [[c["n"] for c in ret] for ret in sc["result"]["returned"]]
    lens = [[len(c["sample"]) for c in ret] for ret in sc["result"]["returned"]]
    if got != [[w, w] for w in want] or lens != got:
        ck.violation("ParallelTempering.advance(n, swap_interval) appends exactly n samples to every chain (reported length = stored samples)",
                     {"calls": ["advance(7, 10)", "advance(161, 3)", "advance(23, 5)", "advance(250, 5)", "advance(101, 2)", "advance(200, 2)"], "want_lengths": want, "reported_lengths": got, "stored_samples": lens},
                     site="ParallelTempering.advance")


def tempering_runfor_part(ck, tier):
    """ParallelTempering.run_for(minutes, hours): returns only after the budget (hours * 60 + minutes) * 60 s has been used up, and soon after"""
    import io, contextlib
    import inference.mcmc.parallel as par
    from inference.mcmc import GibbsChain
    from harness.c03 import GaussPost
    real = par.time
    for minutes, hours in ((0.05, 0.0), (0.0, 1.0 / 600.0), (0.05, 1.0 / 600.0), (0.02, 1.0 / 300.0)):
        budget = (hours * 60.0 + minutes) * 60.0
        clock = {"t": 5000.0, "reads": 0}

        def fake():
            clock["t"] += 0.25                   # every look at the clock takes a quarter of a second
            clock["reads"] += 1
            return clock["t"]
        ck.case(("pt-runfor", minutes, hours))
        pt = None
        try:
            ch = GibbsChain(posterior=GaussPost(2), start=np.array([0.1, 0.2]), widths=np.array([0.5, 0.5]), display_progress=False)
            with contextlib.redirect_stdout(io.StringIO()):
                pt = par.ParallelTempering([ch])
                par.time = fake
                t_begin = clock["t"]
                pt.run_for(minutes=minutes, hours=hours, swap_interval=2)
                elapsed = clock["t"] - t_begin
        except Exception as ex:
            ck.violation("ParallelTempering.run_for raised", {"minutes": minutes, "hours": hours, "error": repr(ex)[:200]}, site="ParallelTempering.run_for")
            continue
        finally:
            par.time = real
            if pt is not None:
                try:
                    with contextlib.redirect_stdout(io.StringIO()):
                        pt.shutdown()
                except Exception:
                    pass
        if not (budget <= elapsed <= budget + 3.0):
            ck.violation("a timed tempering run returns only after its budget (hours * 60 + minutes) * 60 s is used up, and then stops",
                         {"minutes": minutes, "hours": hours, "budget_s": budget, "elapsed_on_the_simulated_clock_s": elapsed}, site="ParallelTempering.run_for")


def tempering_runfor_trace_part(ck, tier):
    """ParallelTempering.run_for with SLOW exchange cycles (0.4 s to 7 s each on the master's simulated clock, every look at the clock 0.25 s):
    the clock reads and step batches of the real call, judged by RunFor.tla like those of MarkovChain.run_for (no step after a read at or
    past the deadline, return only after one, the chains grew by the steps taken, never more than R reads in a row without a step while
    the budget is not used up -- 'keeps taking whole steps ... however slow a step is')"""
    import io, contextlib
    import inference.mcmc.parallel as par
    from inference.mcmc import GibbsChain
    from harness.c03 import GaussPost
    real = par.time
    events, runs = [], []
    scen = [(0.2, 0.4, 3), (0.2, 2.5, 2), (0.25, 7.0, 5), (0.1, 1.9, 1)] + ([(0.5, 3.1, 4), (0.3, 0.9, 2), (0.4, 12.5, 3)] if tier == "thorough" else [])
    for minutes, cost, si in scen:
        budget = minutes * 60.0
        ev = [{"ev": "Begin", "budget": int(round(budget * 1e6)), "uniform": True, "cmax": int(round(cost * 1e6)), "history": 0}]
        clock = {"t": 5000.0}

        def fake(clock=clock, ev=ev):
            clock["t"] += 0.25
            ev.append({"ev": "Clock", "t": int(round((clock["t"] - 5000.0) * 1e6))})
            return clock["t"]
        ck.case(("pt-runfor-slow", minutes, cost, si))
        ident = {"call": "ParallelTempering.run_for(minutes=%g, swap_interval=%d)" % (minutes, si), "simulated_seconds_per_exchange_cycle": cost,
                 "simulated_seconds_per_clock_read": 0.25}
        pt, err, added = None, None, -1
        try:
            chains = [GibbsChain(posterior=GaussPost(2), start=np.array([0.1 * (i + 1), 0.2]), widths=np.array([0.5, 0.5]), temperature=T,
                                 display_progress=False) for i, T in enumerate((1.0, 3.0))]
            with contextlib.redirect_stdout(io.StringIO()):
                pt = par.ParallelTempering(chains)
                real_take = pt.take_steps

                def take(nn, real_take=real_take, clock=clock, ev=ev, cost=cost):
                    real_take(nn)
                    clock["t"] += cost
                    if ev[-1]["ev"] == "Steps":
                        ev[-1]["n"] += nn
                    else:
                        ev.append({"ev": "Steps", "n": nn})
                pt.take_steps = take
                par.time = fake
                try:
                    pt.run_for(minutes=minutes, swap_interval=si)
                finally:
                    par.time = real
                got = pt.return_chains()
                added = int(got[0].chain_length) - 1
                if len({int(c.chain_length) for c in got}) != 1:
                    err = "the chains of one tempering run have different lengths: %r" % [int(c.chain_length) for c in got]
        except Exception as ex:
            err = repr(ex)[:200]
        finally:
            par.time = real
            if pt is not None:
                try:
                    with contextlib.redirect_stdout(io.StringIO()):
                        pt.shutdown()
                except Exception:
                    pass
        if err:
            ck.violation("ParallelTempering.run_for raised / chains of unequal length", {**ident, "error": err}, site="ParallelTempering.run_for")
            continue
        ev.append({"ev": "End", "added": added})
        runs.append((len(events), len(events) + len(ev), ident))
        events += ev
    if not runs:
        return
    d = scratch("c15ptrf_")
    path = os.path.join(d, "trace.ndjson")
    with open(path, "w") as fh:
        for e in events:
            fh.write(json.dumps(e) + "\n")
    rt = run_tlc("RunFor", workers=1, env={"TRACE_FILE": path}, timeout=600)
    if rt.error and "REJECTED" not in rt.stdout:
        raise MachineryError("RunFor trace (tempering): " + rt.error)
    ck.tlc(rt, "runfor_traces_tempering")
    ck.traces += len(runs)
    ck.count("runfor_traces_tempering", "events", len(events))
    if rt.violated or any("REJECTED" in x for x in rt.raw_printed):
        blamed = False
        for s0, e0, ident in runs:
            idle = worst = steps = 0
            deadline, over, bad = None, False, None
            for e in events[s0 + 1:e0]:
                if e["ev"] == "Clock":
                    if deadline is None:
                        deadline = e["t"] + events[s0]["budget"]
                    elif e["t"] >= deadline:
                        over = True
                    else:
                        idle += 1
                        worst = max(worst, idle)
                elif e["ev"] == "Steps":
                    if over:
                        bad = "NoStepAfterBudget"
                    idle = 0
                    steps += e["n"]
                elif e["ev"] == "End":
                    if not over:
                        bad = "ExitOnlyAfterBudget"
                    elif e["added"] != steps:
                        bad = "the chains grew by %d, the steps taken are %d" % (e["added"], steps)
            if worst > 6:
                bad = "StarvationFree"
            if bad:
                blamed = True
                ck.violation(bad + ": a timed tempering run keeps taking whole steps until its time budget is used up, however slow a step is, then stops",
                             {**ident, "max_consecutive_idle_clock_reads": worst, "steps_taken": steps}, site="ParallelTempering.run_for")
        if not blamed:
            ck.violation("RunFor.tla rejects the clock-read / step trace of a timed tempering run (overrun bound)", {"tlc": str(rt.violated)[:200]},
                         site="ParallelTempering.run_for")


def run(tier):
    ck = Check("C15", tier)
    ck.rule = ("one case per (sampler class, TLC call sequence, display flag), per (budget, cost schedule, chain, display flag) timed run, "
               "per (pool size, delay schedule); all distinct")
    ck.assumptions = ["run_for is observed through its own clock reads (fake clock advanced by the scheduled cost of each step)",
                      "schedules needing more than ~60 000 steps are skipped for run time (the 0.3 s budget covers 20 microsecond steps)"]
    advance_part(ck, tier)
    r = run_tlc("MC_AdvanceArith")
    if r.violated:
        ck.violation("spec: AdvanceArith", {"violated": r.violated}, site="spec")
    must_pass(r, "MC_AdvanceArith")
    from harness.core import run_apalache
    ra = run_apalache("APA_AdvanceArith")          # the same identities for EVERY n >= 0 (swap intervals 1..40), SMT over unbounded integers
    ck.parts["advance_arith_unbounded"] = {"tool": "apalache-mc 0.58 (symbolic, unbounded integers)", "cmd": ra["cmd"], "outcome": ra["outcome"],
                                           "wall_s": ra["wall_s"], "covers": "all n >= 0; swap_interval 1..40; chain granularity 100"}
    if not ra["ok"]:
        ck.violation("spec: AdvanceArith (unbounded, Apalache)", {"outcome": ra["outcome"]}, site="spec")
    ck.tlc(r, "advance_arith")
    runfor_part(ck, tier)
    pool_part(ck, tier)
    tempering_part(ck, tier)
    tempering_runfor_part(ck, tier)
    tempering_runfor_trace_part(ck, tier)
    from harness import repotests
    repotests.run_part(ck, "C15")          # traces of the repository's own MCMC tests, judged by TestRunTrace.tla
    return ck.finish()
