"""Real ParallelTempering / ChainPool runs under traced pipes (used by C08, C03, C15).

Run as a module in a child interpreter:  python -m harness.pt <args.json>  -> writes <out>/events.ndjson, <out>/result.json
so that a hang (worker never terminating) is a timeout of the child, not of the check.
"""
import json
import os
import random
import sys
import time

import numpy as np

from harness.mcmc_kit import TablePost, RecordingGen, freeze_adaptation, LN2, to_lattice

WLO, WHI = -8, 10
MBITS = 9
_LOGDIR = None


def _emit(proc, rec):
    if _LOGDIR is None:
        return                       # (the untraced prelude run)
    rec = dict(rec)
    rec["p"] = proc
    with open(os.path.join(_LOGDIR, f"ev_{proc}.ndjson"), "a") as fh:
        fh.write(json.dumps(rec) + "\n")


def etable(offset=0):
    # multi-well energy (multiples of 4) so that chains started apart carry different energies; `offset` (a multiple of 4) shifts the whole
    # log-density by -ln2 * offset per coordinate (log-densities of large magnitude)
    return [4 * min(abs(v + 3), abs(v - 4) + 1, 6) + offset for v in range(WLO, WHI + 1)]


class DelayPost(TablePost):
    def __init__(self, *a, delay=0.0, jitter=0, **kw):
        super().__init__(*a, **kw)
        self.delay = delay
        self.jitter = jitter
        self.count = 0

    def __call__(self, x):
        self.count += 1
        if self.delay:
            d = self.delay * (1 + (self.count * 7919 % 5)) if self.jitter else self.delay
            time.sleep(d)
        return super().__call__(x)


_POS_MODE = "lattice"        # "floor": positions are projected to the integer cell that determines their energy (Hamiltonian chains)


def _proj_pos(x):
    if _POS_MODE == "floor":
        return [int(np.floor(t)) for t in np.atleast_1d(x)]
    v = to_lattice(x)
    return v if v is not None else [float(t) for t in np.atleast_1d(x)]


def _proj_tp4(p):
    v = to_lattice(-float(p) / LN2 * 4, tol=1e-6)
    return v[0] if v is not None else None


def make_logged(base):
    class Logged(base):
        _wid = None

        def take_step(self):
            super().take_step()
            _emit(f"W{self._wid}", {"ev": "step", "n": int(self.chain_length), "pos": _proj_pos(self.get_last()),
                                    "tp4": _proj_tp4(self.probs[-1])})
    Logged.__name__ = "Logged" + base.__name__
    Logged.__qualname__ = Logged.__name__
    return Logged


from inference.mcmc.gibbs import GibbsChain
from inference.mcmc.pca import PcaChain
from inference.mcmc.hmc import HamiltonianChain

LoggedGibbsChain = make_logged(GibbsChain)
LoggedPcaChain = make_logged(PcaChain)
LoggedHamiltonianChain = make_logged(HamiltonianChain)


class FloorPost(DelayPost):
    """piecewise-constant posterior: the energy of a point is that of the integer cell it lies in; zero gradient (free flight)"""

    def energy(self, x):
        return super().energy(np.floor(np.atleast_1d(np.asarray(x, dtype=float))))

    def grad(self, x):
        return np.zeros(np.atleast_1d(x).size)


class TConn:
    """Connection wrapper logging a projection of every message, with per-process sequence numbers"""

    def __init__(self, conn, side, w):
        self.conn, self.side, self.w = conn, side, w

    def _proc(self):
        return "M" if self.side == "M" else f"W{self.w}"

    def send(self, obj):
        rec = {"ev": "send", "w": self.w}
        if isinstance(obj, dict):
            rec["task"] = obj["task"]
            if obj["task"] == "advance":
                rec["n"] = int(obj["advance_count"])
            if obj["task"] == "update_position":
                rec["pos"] = _proj_pos(obj["position"])
                e = to_lattice(-float(obj["probability"]) / LN2, tol=1e-6)
                rec["e"] = e[0] if e else None
        elif isinstance(obj, str):
            rec["reply"] = obj
        elif isinstance(obj, tuple):
            rec["reply"] = "position"
            rec["pos"] = _proj_pos(obj[0])
            rec["tp4"] = _proj_tp4(obj[1])
        else:
            rec["reply"] = "chain"
            rec["n"] = int(obj.chain_length)
        _emit(self._proc(), rec)          # logged before the message becomes visible to the other side
        self.conn.send(obj)

    def recv(self):
        obj = self.conn.recv()
        rec = {"ev": "recv", "w": self.w}
        if isinstance(obj, dict):
            rec["task"] = obj["task"]
            if obj["task"] == "advance":
                rec["n"] = int(obj["advance_count"])
            if obj["task"] == "update_position":
                rec["pos"] = _proj_pos(obj["position"])
                e = to_lattice(-float(obj["probability"]) / LN2, tol=1e-6)
                rec["e"] = e[0] if e else None
        elif isinstance(obj, str):
            rec["reply"] = obj
        elif isinstance(obj, tuple):
            rec["reply"] = "position"
            rec["pos"] = _proj_pos(obj[0])
            rec["tp4"] = _proj_tp4(obj[1])
            if self.side == "M":
                _ROUND["tp4"][self.w] = rec["tp4"]          # (what the master knows about chain w in this round: used by the "threshold" draws)
        else:
            rec["reply"] = "chain"
            rec["n"] = int(obj.chain_length)
        _emit(self._proc(), rec)
        return obj

    def poll(self, timeout=0.0):
        return self.conn.poll(timeout=timeout)

    def __getattr__(self, name):
        if name in ("conn", "side", "w") or name.startswith("__"):
            raise AttributeError(name)
        return getattr(self.conn, name)


_ROUND = {"tp4": {}, "pairs": [], "beta4": []}


class MasterRng:
    def __init__(self, seed, force=None):
        self.g = np.random.default_rng(seed)
        self.force = force          # None | "accept" | "reject" | "edge": override the quantised draw

    def random(self, size=None):
        i = int(self.g.integers(0, 2 ** MBITS))
        if self.force == "accept":
            i = 0
        elif self.force == "reject":
            i = 2 ** MBITS - 1
        elif self.force == "edge":
            # just below / just above 2^-k: the decision then changes with any error in the exponent of the exchange rule
            k = int(self.g.integers(1, min(MBITS, 12) + 1))
            i = 2 ** (MBITS - k) - int(self.g.integers(0, 2))
        elif self.force == "threshold" and _ROUND["pairs"]:
            # the draw sits exactly ON the acceptance threshold of the pair it decides (the last lattice value that exchanges, or the first that
            # does not, alternately): any error in the exponent of the exchange rule -- temperatures of the wrong chains, energies -- flips it
            a, b = _ROUND["pairs"].pop(0)
            b4, tp4 = _ROUND["beta4"], _ROUND["tp4"]
            if tp4.get(a) is not None and tp4.get(b) is not None:
                x = ((b4[a - 1] - b4[b - 1]) * (tp4[a] // b4[a - 1] - tp4[b] // b4[b - 1])) // 4
                if -MBITS <= x < 0:
                    self.flip = not getattr(self, "flip", False)
                    i = 2 ** (MBITS + x) - 1 + (1 if self.flip else 0)
        _emit("M", {"ev": "draw", "i": i})
        return (2 * i + 1) / 2.0 ** (MBITS + 1)

    def shuffle(self, x):
        self.g.shuffle(x)


def build_chains(a):
    global _POS_MODE
    chains = []
    starts = a["starts"]
    if a.get("kind") == "hmc":
        _POS_MODE = "floor"
        for w, T in enumerate(a["temps"]):
            post = FloorPost(etable(a.get("eoffset", 0)), WLO, outside=400 + a.get("eoffset", 0), delay=a["delays"][w] if a.get("delays") else 0.0, jitter=a.get("jitter", 0))
            st = np.array(starts[w], dtype=float) + 0.25
            n = len(st)
            ch = LoggedHamiltonianChain(posterior=post, grad=post.grad, start=st, epsilon=0.7, temperature=float(T),
                                        bounds=(np.full(n, float(WLO)), np.full(n, WHI + 0.9)), display_progress=a.get("display", True))
            ch.steps = 3
            ch._wid = w + 1
            ch.rng = RecordingGen(a["seed"] * 1000 + w, [], who="chain")
            ch.ES.chk_int = 10 ** 9
            chains.append(ch)
        return chains
    for w, T in enumerate(a["temps"]):
        post = DelayPost(etable(a.get("eoffset", 0)), WLO, outside=400 + a.get("eoffset", 0), delay=a["delays"][w] if a.get("delays") else 0.0,
                         jitter=a.get("jitter", 0))
        st = np.array(starts[w], dtype=float)
        kind = a.get("kind", "gibbs")
        kw = dict(posterior=post, start=st, widths=np.ones(len(st)), temperature=float(T), display_progress=a.get("display", True))
        cls = LoggedGibbsChain if kind == "gibbs" else LoggedPcaChain
        ch = cls(**kw)
        ch._wid = w + 1
        ch.rng = RecordingGen(a["seed"] * 1000 + w, [], who="chain", quantise=(1.5, 4), m_bits=8)
        for j, p in enumerate(ch.params):
            p.rng = RecordingGen(a["seed"] * 1000 + 100 + 10 * w + j, [], who=f"p{j}", quantise=(1.5, 4), m_bits=8)
        freeze_adaptation(ch)
        chains.append(ch)
    return chains


def run(a):
    global _LOGDIR
    import inference.mcmc.parallel as par
    _LOGDIR = a["out"]
    counter = {"w": 0}
    real_pipe = par.Pipe

    def traced_pipe(*args, **kw):
        x, y = real_pipe(*args, **kw)
        counter["w"] += 1
        return TConn(x, "M", counter["w"]), TConn(y, "W", counter["w"])

    if a.get("prelude"):
        # an EARLIER tempering run in the same interpreter (built, stepped, exchanged, shut down) before the observed one is even built: the
        # observed run must not know about it.  Not traced: its pipes are the library's own.
        a0 = dict(a, temps=list(a["temps"][:2]), starts=[list(x) for x in a["starts"][:2]], delays=[0.0, 0.0])
        random.seed(a["seed"] + 1)
        _LOGDIR = None               # forked workers inherit it: nothing of the prelude is logged
        pt0 = par.ParallelTempering(build_chains(a0))
        pt0.take_steps(2)
        pt0.swap()
        pt0.shutdown()
        _LOGDIR = a["out"]
    par.Pipe = traced_pipe
    random.seed(a["seed"])
    chains = build_chains(a)
    init = [{"pos": _proj_pos(c.get_last()), "tp4": _proj_tp4(c.probs[-1])} for c in chains]
    result = {"init": init, "returned": [], "alive_after_shutdown": None, "error": None}
    pt = par.ParallelTempering(chains)
    pt.rng = MasterRng(a["seed"] + 17, a.get("force"))
    _ROUND["beta4"] = [int(round(4 / t)) for t in a["temps"]]
    real_pairs = pt.tight_pairs

    def traced_pairs():
        pairs = real_pairs()                 # the pairs the master proposes in this round, in the order it goes through them
        _emit("M", {"ev": "pairs", "pairs": [[int(i) + 1, int(j) + 1] for i, j in pairs]})
        _ROUND["pairs"] = [(int(i) + 1, int(j) + 1) for i, j in pairs]
        return pairs
    pt.tight_pairs = traced_pairs

    def swapstats():
        # the master's exchange book-keeping as the diagnostics read it: every ordered pair a # b (1-based).  Only logged when the
        # scenario asks for it (./check bookkeeping, selftest): the listed properties say nothing about these statistics.
        if not a.get("stats"):
            return
        n = pt.N_chains
        _emit("M", {"ev": "swapstats",
                    "att": [[i + 1, j + 1, int(pt.attempted_swaps[i, j])] for i in range(n) for j in range(n) if i != j],
                    "suc": [[i + 1, j + 1, int(pt.successful_swaps[i, j])] for i in range(n) for j in range(n) if i != j]})
    try:
        for cmd in a["prog"]:
            if cmd[0] == "steps":
                pt.take_steps(cmd[1])
            elif cmd[0] == "swap":
                pt.swap()
                swapstats()
            elif cmd[0] == "advance":
                pt.advance(cmd[1], swap_interval=cmd[2])
                swapstats()
            elif cmd[0] == "return":
                got = pt.return_chains()
                result["returned"].append([{
                    "n": int(c.chain_length),
                    "sample": [_proj_pos(r) for r in c.get_sample(burn=0)],
                    "tp4": [_proj_tp4(p) for p in c.get_probabilities(burn=0)],
                    "T": float(1.0 / c.inv_temp)} for c in got])
            elif cmd[0] == "shutdown":
                pt.shutdown()
                time.sleep(0.05)
                result["alive_after_shutdown"] = [bool(p.is_alive()) for p in pt.processes]
    except Exception as ex:
        result["error"] = repr(ex)
        try:
            pt.shutdown_evt.set()
            for p in pt.processes:
                p.join(timeout=2)
                if p.is_alive():
                    p.terminate()
        except Exception:
            pass
    with open(os.path.join(a["out"], "result.json"), "w") as fh:
        json.dump(result, fh)


if __name__ == "__main__":
    with open(sys.argv[1]) as fh:
        run(json.load(fh))
