---- MODULE MC_InvertExact ----
EXTENDS InvertExact, Json
Pre(s, d) == [i \in 1..d |-> s[i]]
Se1(d) == [k |-> "se", ja |-> 0, m |-> Pre(<<1, 1>>, d)]
Rq1(d) == [k |-> "rq", ja |-> 0, kk |-> 1, c |-> Pre(<<<<1, 1>>, <<1, 1>>>>, d)]
CONSTANT Deep        \* FALSE: the quick family; TRUE (thorough tier): more positions, model matrices and a second data vector
Pos2 == { << <<0>>, <<1>> >>, << <<0, 1>>, <<1, 0>> >> } \cup (IF Deep THEN { << <<0, 0>>, <<1, 1>> >> } ELSE {})
Pos3 == { << <<0>>, <<1>>, <<2>> >> }
As2 == { << <<1, 2>> >>, << <<1, 0>>, <<1, 1>> >>, << <<1, 2>>, <<2, 4>> >>, << <<1, 0>>, <<0, 1>>, <<1, 1>> >> }      \* under-, exactly (one rank-deficient), over-determined
As2Deep == { << <<2, 1>> >>, << <<1, -1>>, <<0, 1>> >>, << <<0, 1>>, <<1, 0>>, <<1, -1>> >> }
As3 == { << <<1, 0, 1>>, <<0, 1, -1>> >>, << <<1, 1, 1>> >> }
Ys == <<1, -2, 3>>
YSets == {Ys} \cup (IF Deep THEN { <<0, 3, -1>> } ELSE {})
S2s(n) == { Pre(<<<<1, 4>>, <<1, 4>>, <<1, 4>>>>, n), Pre(<<<<1, 1>>, <<1, 4>>, <<1, 1>>>>, n) }
Means(d) == { [k |-> "const", th |-> <<2>>], [k |-> "lin", th |-> Pre(<<1, 2, -1>>, 1 + d)] }
VARIABLES pb, cx, out
Rep == 256
ScaleLog2 == 0 - 12
Init == /\ \/ \E ps \in Pos2, A \in As2 \cup (IF Deep THEN As2Deep ELSE {}) :
                   \E kn \in {Se1(Len(ps[1])), Rq1(Len(ps[1]))}, mf \in Means(Len(ps[1])), s2 \in S2s(Len(A)), yy \in YSets :
                 pb = [pos |-> ps, A |-> A, y |-> Pre(yy, Len(A)), s2 |-> s2, kern |-> kn, mean |-> mf]
           \/ \E ps \in Pos3, A \in As3 : \E kn \in {Se1(1), Rq1(1)}, mf \in Means(1), s2 \in S2s(Len(A)) :
                 pb = [pos |-> ps, A |-> A, y |-> Pre(Ys, Len(A)), s2 |-> s2, kern |-> kn, mean |-> mf]
        /\ cx = InvContext(pb) /\ out = 0
Next == /\ out = 0 /\ out' = 1 /\ UNCHANGED <<pb, cx>>
        /\ PrintT(ToJson([pb |-> pb, mean |-> PostMean(cx), cov |-> PostCov(cx), prior |-> cx.K, evidence |-> Evidence(cx),
                          \* Rep copies of the problem placed so far apart that the prior covariance between copies is zero: the joint
                          \* problem is block diagonal, its evidence is Rep times the evidence of one copy (hundreds of data points)
                          rep |-> Rep, evidence_rep |-> SScale(RInt(Rep), Evidence(cx)),
                          \* the same in other units: data, errors, prior mean and prior amplitude all multiplied by 2^ScaleLog2 multiply
                          \* A K A' + S by 4^ScaleLog2, so each of the Rep * n data points adds -ScaleLog2 ln2 to the evidence
                          scale_log2 |-> ScaleLog2,
                          evidence_rep_scaled |-> SAdd(SScale(RInt(Rep), Evidence(cx)), SAtom(RInt((0 - ScaleLog2) * Rep * Len(pb.A)), <<"ln2">>)),
                          gmean |-> EvidenceGradMean(cx, pb), gcov |-> EvidenceGradCov(cx, pb)]))
Symmetric == CovOK(cx)
PsdSmall == Len(pb.pos) = 2 => (PSD2(PostCov(cx)) /\ PSD2(RMatSub(cx.K, PostCov(cx))))
====
