---- MODULE TestRunTrace ----
(* Code -> spec on the maintainers' own inputs: records written by harness/recorder.py while the repository's MCMC tests run
   (every advance and every read-out call of every sampler the tests construct).  Each record is judged against the clauses of
   C15 (advance adds exactly what was requested, the three lengths agree), C03 (stored log-probabilities belong to the stored
   samples), C04 (stored samples inside the limits in force) and C14 (burn / thin read-outs return rows burn, burn+thin, ...). *)
EXTENDS Integers, Sequences, TLC, TLCExt, Json, IOUtils
Log == ndJsonDeserialize(IOEnv.TRACE_FILE)
VARIABLES l
Ev == Log[l]
Has(r, f) == f \in DOMAIN r
\* ---- C15
LensAgree(s) == s.samples = s.probs /\ s.samples = s.length
ExactlyRequested == Ev.after.samples = Ev.before.samples + Ev.m * Ev.after.walkers
\* ---- C03: distance between the stored value and the re-evaluated one, in units of 1e-12 of its magnitude
ProbsBelong == Has(Ev.after, "pd") => \A j \in 1..Len(Ev.after.pd) : Ev.after.pd[j][2] <= 1000
\* ---- C04: excess over the limits in ulps at the scale of the limits
InsideLimits == Has(Ev.after, "ex") => Ev.after.ex <= 4
\* ---- C14
RECURSIVE Sel(_, _, _)
Sel(i, n, t) == IF i >= n THEN <<>> ELSE <<i>> \o Sel(i + t, n, t)
RowsSelected == Ev.ids = Sel(Ev.burn, Ev.n, Ev.thin)
Shape == Ev.ndim = (IF Ev.call = "get_sample" THEN 2 ELSE 1)
Clauses == IF Ev.ev = "Advance"
           THEN << <<"C15 ExactlyRequested", ExactlyRequested>>, <<"C15 LenAgree", LensAgree(Ev.before) /\ LensAgree(Ev.after)>>,
                   <<"C03 ProbsBelong", ProbsBelong>>, <<"C04 InsideLimits", InsideLimits>> >>
           ELSE << <<"C14 RowsSelected", RowsSelected>>, <<"C14 Shape", Shape>> >>
Failing == {c \in 1..Len(Clauses) : ~Clauses[c][2]}
Judge == IF Failing = {} THEN TRUE ELSE PrintT(ToJson([bad |-> l, clauses |-> {Clauses[c][1] : c \in Failing}]))
TraceInit == TLCSet(1, 1) /\ l = 1
TraceNext == l <= Len(Log) /\ l' = l + 1 /\ Judge
TraceSpec == TraceInit /\ [][TraceNext]_l
Progress == TLCSet(1, IF l > TLCGet(1) THEN l ELSE TLCGet(1))
TraceAccepted == IF TLCGet(1) = Len(Log) + 1 THEN TRUE ELSE PrintT(<<"REJECTED at line", TLCGet(1)>>) /\ FALSE
====
