------------------------------ MODULE Ensemble ------------------------------
(***************************************************************************)
(* C01 / C03 / C04 / C15 -- the affine-invariant ensemble sampler           *)
(* (Goodman & Weare stretch move) in exact dyadic arithmetic.               *)
(*                                                                         *)
(* Positions are integers in units of 1/D (D a power of two).  With         *)
(* alpha = 2 the stretch factor is z(u) = (1+u)^2 / 2, a dyadic rational    *)
(* for dyadic u; the proposal for walker i with partner j is                *)
(*        Y = x_j + z (x_i - x_j)                                           *)
(* (then reflected into the bounds), accepted with probability              *)
(*        min(1, z^(n-1) pi(Y)/pi(x_i)).                                    *)
(* The posterior is piecewise constant, logp(x) = -ln2 * E(x) with integer  *)
(* E, so the acceptance threshold is an exact rational.                     *)
(* Stretch involution (what "walker roles swapped" breaks):                 *)
(*        Stretch(Stretch(x_i, x_j, z), x_j, 1/z) = x_i.                    *)
(***************************************************************************)
EXTENDS LimitMaps
CONSTANTS EConfigs,     \* set of records [id, n, w, mode, blo, bhi, start, xl, xw, zs]  (zs: offered stretch draws for this alpha)  (start: tuple of w walker tuples, in lattice units)
          D,            \* positions are integers / D
          Thresholds,   \* energy of a coordinate v (in units): 4 * #{th \in Thresholds : v >= th}
          ZSet,         \* offered stretch draws: set of <<uz_num, uz_den>> with z = (1+uz)^2/2
          UASet,        \* offered acceptance-draw indices (mid-point lattice, 2^M points)
          M,
          MaxAttW,      \* attempts per walker before the sampler gives up (max_attempts)
          MaxIter       \* iterations per behaviour

RECURSIVE Pow2(_)
Pow2(k) == IF k = 0 THEN 1 ELSE 2 * Pow2(k - 1)
RECURSIVE IPow(_, _)
IPow(b, k) == IF k = 0 THEN 1 ELSE b * IPow(b, k - 1)
\* inverse CDF of g(z) ~ 1/sqrt(z) on [1/alpha, alpha]:  z = 1/2 (xl + xw u)^2 with xl = sqrt(2/alpha), xw = sqrt(2 alpha) - xl
\* (rational for alpha = 2: xl = 1, xw = 1;  alpha = 8: xl = 1/2, xw = 7/2).  For u = a/b:
RECURSIVE GcdE(_, _)
GcdE(a, b) == IF b = 0 THEN a ELSE GcdE(b, a % b)
ZOf(c, uz) == LET sn == c.xl[1] * c.xw[2] * uz[2] + c.xw[1] * uz[1] * c.xl[2]
                  sd == c.xl[2] * c.xw[2] * uz[2]
                  n == sn * sn  d == 2 * sd * sd  g == GcdE(n, d)
              IN <<n \div g, d \div g>>
E1(v) == 4 * Cardinality({th \in Thresholds : v >= th * D})
Energy(c, x) == IF c.n = 1 THEN E1(x[1]) ELSE E1(x[1]) + E1(x[2])
Post(c, t) == IF c.mode = "box" THEN Reflect(c.blo * D, c.bhi * D, t) ELSE t
\* stretch of xi about xj; defined only when the result stays on the 1/D lattice
Exact(xi, xj, z) == \A d \in 1..Len(xi) : (z[1] * (xi[d] - xj[d])) % z[2] = 0
Stretch(xi, xj, z) == [d \in 1..Len(xi) |-> xj[d] + (z[1] * (xi[d] - xj[d])) \div z[2]]
\* accept iff u_a <= z^(n-1) * 2^-dE with u_a = (2i+1)/2^(M+1); Tie: equality (excluded from exploration: float rounding decides)
Clamp(e) == IF e > 11 THEN 11 ELSE e            \* |dE| >= 12 is decided without these products (keeps them inside 32 bits)
Lhs(c, z, dE, ui) == (2 * ui + 1) * IPow(z[2], c.n - 1) * (IF dE > 0 THEN Pow2(Clamp(dE)) ELSE 1)
Rhs(c, z, dE) == IPow(z[1], c.n - 1) * Pow2(M + 1) * (IF dE < 0 THEN Pow2(Clamp(-dE)) ELSE 1)
Decidable(c, z, dE, ui) == dE >= 12 \/ dE <= -12 \/ Lhs(c, z, dE, ui) # Rhs(c, z, dE)
AcceptW(c, z, dE, ui) == IF dE >= 12 THEN FALSE ELSE IF dE <= -12 THEN TRUE ELSE Lhs(c, z, dE, ui) < Rhs(c, z, dE)

VARIABLES ec, pos, wp, iw, natt, iter, rows, rowp, draws, evals, nretry, nstay, props,
          fails, curfail      \* diagnostics: fails[k] = walkers that gave up in iteration k (failed_updates); curfail = so far in this iteration
evars == <<ec, pos, wp, iw, natt, iter, rows, rowp, draws, evals, nretry, nstay, props, fails, curfail>>
Scale(s) == [i \in 1..Len(s) |-> [d \in 1..Len(s[i]) |-> s[i][d] * D]]
EInit == /\ ec \in EConfigs
         /\ pos = Scale(ec.start) /\ wp = [i \in 1..ec.w |-> Energy(ec, Scale(ec.start)[i])]
         /\ iw = 1 /\ natt = 0 /\ iter = 0 /\ rows = <<>> /\ rowp = <<>> /\ draws = <<>> /\ evals = <<>>
         /\ nretry = 0 /\ nstay = 0 /\ props = <<>> /\ fails = <<>> /\ curfail = 0

\* partner as coded: j = (jraw + i) mod w on 0-based indices, jraw in 1..w-1
Partner(i, jraw) == ((jraw + (i - 1)) % ec.w) + 1
NextWalker == /\ iw' = iw + 1 /\ natt' = 0
WAttempt(jraw, uz, ui) ==
    /\ iter < MaxIter /\ iw <= ec.w
    /\ LET j == Partner(iw, jraw)  z == ZOf(ec, uz) IN
       /\ Exact(pos[iw], pos[j], z)
       /\ LET y == [d \in 1..ec.n |-> Post(ec, Stretch(pos[iw], pos[j], z)[d])]
              dE == Energy(ec, y) - wp[iw]
          IN /\ Decidable(ec, z, dE, ui)
             /\ evals' = Append(evals, y)
             /\ draws' = Append(draws, <<jraw, uz, ui>>)
             /\ IF AcceptW(ec, z, dE, ui)
                THEN /\ pos' = [pos EXCEPT ![iw] = y] /\ wp' = [wp EXCEPT ![iw] = Energy(ec, y)]
                     /\ props' = Append(props, natt + 1)
                     /\ NextWalker /\ UNCHANGED <<nretry, nstay, curfail>>
                ELSE /\ UNCHANGED <<pos, wp>>
                     /\ \/ /\ nstay = 0 /\ nretry' = nretry + 1 /\ UNCHANGED nstay                       \* RejectRetry (as built)
                           /\ IF natt + 1 >= MaxAttW THEN NextWalker /\ props' = Append(props, MaxAttW) /\ curfail' = curfail + 1  \* gives up: walker stays
                              ELSE natt' = natt + 1 /\ UNCHANGED <<iw, props, curfail>>
                        \/ /\ nretry = 0 /\ MaxAttW > 1 /\ nstay' = nstay + 1 /\ UNCHANGED nretry        \* RejectStay (textbook)
                           /\ NextWalker /\ props' = Append(props, natt + 1) /\ UNCHANGED curfail
    /\ UNCHANGED <<ec, iter, rows, rowp, fails>>
\* end of an iteration: every walker's position and log-probability is stored (copied)
EndIter == /\ iw = ec.w + 1 /\ iter < MaxIter
           /\ rows' = rows \o pos /\ rowp' = rowp \o wp
           /\ iter' = iter + 1 /\ iw' = 1 /\ natt' = 0
           /\ fails' = Append(fails, curfail) /\ curfail' = 0
           /\ UNCHANGED <<ec, pos, wp, draws, evals, nretry, nstay, props>>
ENext == EndIter \/ \E jraw \in 1..(ec.w - 1), uz \in (ZSet \cap ec.zs), ui \in UASet : WAttempt(jraw, uz, ui)
ESpec == EInit /\ [][ENext]_evars

\* ---------------------------------------------------------------- properties
WalkerProbsBelong == \A i \in 1..ec.w : wp[i] = Energy(ec, pos[i])                           \* C03
RowsBelong == /\ Len(rows) = Len(rowp) /\ Len(rows) = iter * ec.w                           \* C03 / C15
              /\ \A k \in 1..Len(rows) : rowp[k] = Energy(ec, rows[k])
InsideBox(x) == ec.mode = "box" => \A d \in 1..ec.n : x[d] >= ec.blo * D /\ x[d] <= ec.bhi * D
EInside == (\A i \in 1..ec.w : InsideBox(pos[i])) /\ (\A k \in 1..Len(evals) : InsideBox(evals[k]))    \* C04
\* stretch involution on every pair of current walkers and every offered z (free configs)
Involution == ec.mode = "free" =>
    \A i, j \in 1..ec.w : i # j => \A uz \in (ZSet \cap ec.zs) :
        LET z == ZOf(ec, uz) IN Exact(pos[i], pos[j], z) =>
            LET y == Stretch(pos[i], pos[j], z) IN
              /\ Stretch(y, pos[j], <<z[2], z[1]>>) = pos[i]
              /\ \A d \in 1..ec.n : (y[d] - pos[j][d]) * z[2] = z[1] * (pos[i][d] - pos[j][d])   \* on the line through x_j, ratio z
\* diagnostics (beyond the listed properties): one attempt counter per finished walker update, each within 1..max_attempts; one failure
\* count per finished iteration, never more than the walkers; as built (every rejection retried) the attempt counters account for
\* every draw made, and a walker is counted as failed exactly when its counter is max_attempts and its last attempt was rejected
RECURSIVE SumSeq(_, _)
SumSeq(q, n) == IF n = 0 THEN 0 ELSE SumSeq(q, n - 1) + q[n]
Counters == /\ Len(props) = iter * ec.w + (iw - 1)
            /\ \A k \in 1..Len(props) : props[k] \in 1..MaxAttW
            /\ Len(fails) = iter /\ \A k \in 1..Len(fails) : fails[k] \in 0..ec.w
            /\ curfail <= iw - 1
            /\ (nstay = 0 => Len(draws) = SumSeq(props, Len(props)) + natt)
            /\ SumSeq(fails, Len(fails)) + curfail <= Cardinality({k \in 1..Len(props) : props[k] = MaxAttW})
AtIterEnd == iw = 1 /\ natt = 0 /\ iter > 0
=============================================================================
