"""Construction of real inference.gp objects from the kernel / mean descriptions that the TLA+ reference modules print."""
import math
import numpy as np

LN2 = math.log(2.0)


def fr(q):
    return q[0] / q[1]


def build_kernel(kd, d, n):
    """returns (kernel object, theta list) for description kd in `d` dimensions and `n` data points"""
    from inference.gp.covariance import (SquaredExponential, RationalQuadratic, WhiteNoise, HeteroscedasticNoise, ChangePoint,
                                         CompositeCovariance)
    k = kd["k"]
    if k == "se":
        # a^2 = 2^ja; 1/(2 L_i^2) = m_i ln2
        return SquaredExponential(), [0.5 * kd["ja"] * LN2] + [-0.5 * math.log(2.0 * m * LN2) for m in kd["m"]]
    if k == "rq":
        # c_i = 1/(2 L_i^2)
        return RationalQuadratic(), [0.5 * kd["ja"] * LN2, math.log(kd["kk"])] + [0.5 * math.log(1.0 / (2.0 * fr(c))) for c in kd["c"]]
    if k == "wn":
        return WhiteNoise(), [0.5 * kd["j"] * LN2]
    if k == "hn":
        return HeteroscedasticNoise(), [0.5 * j * LN2 for j in kd["js"]]
    if k == "sum":
        parts = [build_kernel(p, d, n) for p in kd["parts"]]
        obj = parts[0][0]
        for p in parts[1:]:
            obj = obj + p[0]
        theta = [t for p in parts for t in p[1]]
        return obj, theta
    if k == "cp":
        parts = [build_kernel(p, d, n) for p in kd["parts"]]
        obj = ChangePoint(kernels=[p[0] for p in parts], axis=kd["axis"] - 1)
        theta = [t for p in parts for t in p[1]]
        for c in kd["cs"]:
            theta += [float(c), 1.0 / LN2]
        return obj, theta
    raise ValueError(k)


def build_mean(md):
    from inference.gp.mean import ConstantMean, LinearMean, QuadraticMean
    cls = {"const": ConstantMean, "lin": LinearMean, "quad": QuadraticMean}[md["k"]]
    return cls(), [float(t) for t in md["th"]]


def rmat(m):
    return np.array([[fr(v) for v in row] for row in m], dtype=float)


def rvec(v):
    return np.array([fr(x) for x in v], dtype=float)
