#!/venv/bin/python
"""Apply a BENIGN (property-preserving) change to a scratch worktree of /repo and run the given checks against it.

usage: tools/benigntest.py <dir-with-patch.diff-and-meta.json> <name> <Cxx> [<Cyy> ...]
Copies the change to /verif/benign/<name>/ and records, per check, the exit status: anything but 0 is a false alarm (exit 1) or a
machinery failure (exit 2) of the check on code for which the property still holds.
"""
import json, os, shutil, subprocess, sys, time

src, name, pids = sys.argv[1], sys.argv[2], sys.argv[3:]
dst = os.path.join("/verif/benign", name)
os.makedirs(dst, exist_ok=True)
for f in ("patch.diff", "meta.json"):
    if os.path.abspath(src) != os.path.abspath(dst):
        shutil.copy(os.path.join(src, f), dst)
tree = "/tmp/benignrepo_%d" % os.getpid()
subprocess.run(f"git -C /repo worktree add -q --detach {tree} HEAD", shell=True, check=True)
res = {"ran_at_repo_commit": subprocess.run("git -C /repo rev-parse --short HEAD", shell=True, capture_output=True, text=True).stdout.strip(),
       "checks": {}}
try:
    ap = subprocess.run(f"git -C {tree} apply {dst}/patch.diff || git -C {tree} apply --3way {dst}/patch.diff", shell=True)
    res["patch_applies"] = ap.returncode == 0
    if ap.returncode == 0:
        for pid in pids:
            t0 = time.time()
            c = subprocess.run(f"cd /verif && VERIF_REPO={tree} VERIF_EVID_SUFFIX=.seedtest ./check {pid}", shell=True, capture_output=True, text=True)
            lines = [l.strip()[:300] for l in (c.stdout + c.stderr).splitlines() if l.startswith("  [") or l.startswith("MACHINERY")]
            res["checks"][pid] = {"exit": c.returncode, "wall_s": round(time.time() - t0, 1), "summary": lines[:5]}
finally:
    subprocess.run(f"git -C /repo worktree remove --force {tree}", shell=True)
mp = os.path.join(dst, "meta.json")
meta = json.load(open(mp))
meta.setdefault("runs", []).append(res)
json.dump(meta, open(mp, "w"), indent=1)
bad = {p: c for p, c in res["checks"].items() if c["exit"] != 0}
print(name, "OK" if not bad and res.get("patch_applies") else json.dumps({"patch_applies": res.get("patch_applies"), "bad": bad})[:1500])
