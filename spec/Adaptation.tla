----------------------------- MODULE Adaptation -----------------------------
(* Beyond the listed properties: the proposal-width adaptation of one Gibbs / Metropolis / PCA parameter (inference.mcmc.gibbs.Parameter)   *)
(* and the step-size adaptation of the Hamiltonian chain (EpsilonSelector), as built.                                                     *)
(*                                                                                                                                      *)
(* One ATTEMPT of a step is: a proposal is drawn (the try counter goes up; beyond MaxTries every further proposal of the same step cuts   *)
(* the width to a quarter), the acceptance probability p of the proposal is submitted (running sums num, avg += p, var += max(p(1-p),     *)
(* VarFloor)), and when num reaches the assessment interval chk the rate is assessed: with mu = avg/num and std = sqrt(var)/num,          *)
(*     on target   (|mu - Target| < 2 std, i.e. (avg - Target num)^2 < 4 var):  chk grows to floor(Growth chk / 10) * 10, sums are kept   *)
(*     off target: the width is multiplied by clamp((ln Target / ln mu)^Rate) (left symbolic: the harness evaluates it from mu), and the  *)
(*                 sums are reset.                                                                                                      *)
(* An accepted attempt appends a sample and resets the try counter.  The Hamiltonian selector has no try counter (UseTries = FALSE).      *)
(*                                                                                                                                      *)
(* The module is explored by simulation; every behaviour is exported as its list of attempts and replayed into the real objects, whose    *)
(* observable state (num, avg, var, chk_int, try_count, number of samples, number and kind of adjustments) must agree after every attempt. *)
EXTENDS Rational, TLC, Json
CONSTANTS Target,        \* rational <<n, d>>
          Chk0, Growth,  \* initial assessment interval; growth factor (rational)
          VarFloor,      \* rational: 0 for the Gibbs parameter, 3/100 for the Hamiltonian selector
          PSet,          \* offered acceptance probabilities (rationals in [0, 1])
          MaxTries, UseTries, MaxAttempts
VARIABLES num, avg, var, chk, tries, nsamp, adj, trace
vars == <<num, avg, var, chk, tries, nsamp, adj, trace>>
Init == num = 0 /\ avg = RZero /\ var = RZero /\ chk = Chk0 /\ tries = 0 /\ nsamp = 0 /\ adj = <<>> /\ trace = <<>>
RMax(a, b) == IF RLess(a, b) THEN b ELSE a
Sq(r) == RMul(r, r)
\* (avg - Target num)^2 < 4 var
OnTarget(n, a, v) == RLess(Sq(RSub(a, RMul(Target, RInt(n)))), RMul(RInt(4), v))
\* exact ties of the strict comparisons are left to floating-point rounding: not explored
\* (a margin of one part in a thousand, far above the rounding of the implementation's floating-point sums)
Tie(n, a, v) == LET l == Sq(RSub(a, RMul(Target, RInt(n))))  r == RMul(RInt(4), v)  d == RSub(l, r)
                IN RLeq(RMul(RInt(1000), IF RLess(d, RZero) THEN RNeg(d) ELSE d), r)
Grow(c) == LET g == RMul(Growth, RInt(c)) IN ((g[1] \div g[2]) \div 10) * 10          \* int(growth * chk * 0.1) * 10
Attempt(p, acc) ==
    /\ Len(trace) < MaxAttempts
    /\ (acc = TRUE => RLess(RZero, p)) /\ (p = ROne => acc = TRUE)
    /\ LET t1 == tries + 1
           cut == UseTries /\ t1 > MaxTries                       \* width cut to a quarter, sums reset, BEFORE the submission
           n0 == IF cut THEN 0 ELSE num   a0 == IF cut THEN RZero ELSE avg   v0 == IF cut THEN RZero ELSE var
           n1 == n0 + 1   a1 == RAdd(a0, p)   v1 == RAdd(v0, RMax(RMul(p, RSub(ROne, p)), VarFloor))
           assess == n1 >= chk
           on == OnTarget(n1, a1, v1)
       IN /\ (assess => ~Tie(n1, a1, v1))
          /\ num' = IF assess /\ ~on THEN 0 ELSE n1
          /\ avg' = IF assess /\ ~on THEN RZero ELSE a1
          /\ var' = IF assess /\ ~on THEN RZero ELSE v1
          /\ chk' = IF assess /\ on THEN Grow(chk) ELSE chk
          /\ adj' = (IF cut THEN Append(adj, [kind |-> "tries", at |-> nsamp]) ELSE adj)
                    \o (IF assess /\ ~on THEN << [kind |-> "rate", at |-> nsamp, mu |-> RDiv(a1, RInt(n1))] >> ELSE <<>>)
          /\ tries' = IF acc THEN 0 ELSE t1
          /\ nsamp' = IF acc THEN nsamp + 1 ELSE nsamp
          /\ trace' = Append(trace, [p |-> p, acc |-> acc, num |-> num', avg |-> avg', var |-> var', chk |-> chk', tries |-> tries',
                                     nsamp |-> nsamp', nadj |-> Len(adj')])
Next == \E p \in PSet, acc \in BOOLEAN : Attempt(p, acc)
Spec == Init /\ [][Next]_vars
\* ---- properties of the adaptation itself
SumsConsistent == num >= 0 /\ RLeq(RZero, avg) /\ RLeq(avg, RInt(num)) /\ RLeq(RZero, var)      \* avg is a sum of num probabilities
IntervalNeverShrinks == [][chk' >= chk \/ chk' = 0]_vars                                          \* (floor(Growth chk / 10) * 10 >= chk for chk >= 20)
AssessedInTime == num < chk \/ chk = 0 \/ num = 0 \/ OnTarget(num, avg, var)                      \* sums at or beyond the interval only while on target
Export == Len(trace) = MaxAttempts => PrintT(ToJson([trace |-> trace, adj |-> adj]))
=============================================================================
