----------------------------- MODULE RegionGroups -----------------------------
(* Beyond the listed properties: the region look-up of the kernel-density estimator (inference.pdf.kde.BinaryTree.region_groups and     *)
(* unique_index_groups).  The range [Lo, Lo + W * 2^Layers] is divided into 2^Layers regions of width W (integers here, so that the edges *)
(* are exact); a value belongs to the region whose half-open interval (edge_k, edge_k+1] contains it, values at or below the lower limit  *)
(* to the first region and values above the upper limit to the last.  The result is the ascending list of the regions that occur and,     *)
(* for each, the set of positions of the values that fall into it.                                                                      *)
EXTENDS Integers, Sequences, FiniteSets, TLC, Json
CONSTANTS Layers, Lo, W, ValSet, MaxLen
NReg == 2 ^ Layers
Hi == Lo + W * NReg
Region(v) == IF v <= Lo THEN 0 ELSE IF v > Hi THEN NReg - 1 ELSE ((v - Lo + W - 1) \div W) - 1      \* ceil((v - Lo) / W) - 1
Occurring(vals) == {Region(vals[i]) : i \in 1..Len(vals)}
Group(vals, r) == {i \in 1..Len(vals) : Region(vals[i]) = r}
\* ---- laws of the look-up
InRange(vals) == \A i \in 1..Len(vals) : Region(vals[i]) \in 0..(NReg - 1)
Contains(vals) == \A i \in 1..Len(vals) : LET r == Region(vals[i]) IN
                     (vals[i] > Lo /\ vals[i] <= Hi) => (vals[i] > Lo + W * r /\ vals[i] <= Lo + W * (r + 1))
Partition(vals) == /\ UNION {Group(vals, r) : r \in Occurring(vals)} = 1..Len(vals)
                   /\ \A r, s \in Occurring(vals) : r # s => Group(vals, r) \cap Group(vals, s) = {}
Monotone(vals) == \A i, j \in 1..Len(vals) : vals[i] <= vals[j] => Region(vals[i]) <= Region(vals[j])
VARIABLES vals, out
Init == vals \in UNION {[1..n -> ValSet] : n \in 1..MaxLen} /\ out = 0
Next == out = 0 /\ out' = 1 /\ UNCHANGED vals
        /\ PrintT(ToJson([vals |-> vals, regions |-> {[r |-> r, idx |-> Group(vals, r)] : r \in Occurring(vals)}]))
Laws == InRange(vals) /\ Contains(vals) /\ Partition(vals) /\ Monotone(vals)
=============================================================================
