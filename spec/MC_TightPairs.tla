---- MODULE MC_TightPairs ----
EXTENDS TightPairs, Json
Export == phase = "done" => PrintT(ToJson([n |-> nc, picks |-> picks, lpairs |-> lpairs, left |-> left, pairs |-> sample]))
====
