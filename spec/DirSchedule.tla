----------------------------- MODULE DirSchedule -----------------------------
(* Beyond the listed properties: the schedule on which PcaChain re-estimates its principal directions, as built.  The chain starts with   *)
(* length 1; an update happens when the length reaches next; then last = length, interval = floor(interval * GrowN / GrowD) and          *)
(* next = last + interval.  The covariance blending weight used at an update is nu = min(2 * interval / last, 1/2) with the interval and   *)
(* last BEFORE they are replaced (first update: plain covariance).                                                                      *)
EXTENDS Integers, Sequences, TLC, Json
CONSTANTS Interval0, GrowN, GrowD, MaxLen
VARIABLES clen, last, interval, next, updates
vars == <<clen, last, interval, next, updates>>
Init == clen = 1 /\ last = 0 /\ interval = Interval0 /\ next = Interval0 /\ updates = <<>>
Step == /\ clen < MaxLen
        /\ clen' = clen + 1
        /\ IF clen' = next
           THEN /\ updates' = Append(updates, [at |-> clen', interval_before |-> interval, last_before |-> last])
                /\ last' = clen' /\ interval' = (interval * GrowN) \div GrowD /\ next' = clen' + (interval * GrowN) \div GrowD
           ELSE UNCHANGED <<last, interval, next, updates>>
Spec == Init /\ [][Step]_vars
\* the next update is always ahead of the chain (an update is never skipped), and updates thin out
NeverSkipped == next > clen \/ clen = MaxLen
Ordered == \A k \in 1..(Len(updates) - 1) : updates[k + 1].at - updates[k].at = (updates[k].interval_before * GrowN) \div GrowD
Export == clen = MaxLen => PrintT(ToJson([updates |-> updates, next |-> next, interval |-> interval, last |-> last]))
=============================================================================
