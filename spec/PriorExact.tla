------------------------------ MODULE PriorExact ------------------------------
(***************************************************************************)
(* C06 -- priors are normalised, sample from themselves, and compose by     *)
(* index.                                                                   *)
(*                                                                         *)
(* A LAYOUT is a sequence of components [type, vars] where vars is the      *)
(* ORDERED list of parameter indices (1-based here, 0-based in the code)    *)
(* the component acts on.  The hyper-parameters of a component are listed   *)
(* in the same order as its vars and are a function of the VARIABLE index,  *)
(* with pairwise distinct values, so that any mis-routed entry changes the  *)
(* result:                                                                  *)
(*   Gaussian    mean_v = v,  sigma_v = 2^(v-2)                             *)
(*   Exponential beta_v = 2^(v-1)                                           *)
(*   Uniform     lower_v = -v, upper_v = v + 2                              *)
(***************************************************************************)
EXTENDS SymLin, FiniteSets, TLC
Half == <<1, 2>>
Mean(v) == RInt(v)
SigmaE(v) == v - 2                      \* sigma = 2^(v-2)
BetaE(v) == v - 1                       \* beta  = 2^(v-1)
Lower(v) == RInt(-v)
Upper(v) == RInt(v + 2)
\* ---- one coordinate v of a component of the given type, at value t (rational) ----
InSupport(type, v, t) == CASE type = "G" -> TRUE
                           [] type = "E" -> RLeq(RZero, t)
                           [] type = "U" -> RLeq(Lower(v), t) /\ RLeq(t, Upper(v))
LogDensity1(type, v, t) ==
    CASE type = "G" -> LET z == RMul(RSub(Mean(v), t), RPow2(-SigmaE(v))) IN
                       SAdd(SAdd(SRat(RMul(RNeg(Half), RMul(z, z))), SAtom(RAdd(RInt(-SigmaE(v)), RNeg(Half)), <<"ln2">>)),
                            SAtom(RNeg(Half), <<"lnpi">>))
      [] type = "E" -> SAdd(SRat(RNeg(RMul(t, RPow2(-BetaE(v))))), SAtom(RInt(-BetaE(v)), <<"ln2">>))      \* -t/beta - ln beta
      [] type = "U" -> SLn(RNeg(ROne), RSub(Upper(v), Lower(v)))                                            \* -ln(upper - lower)
Grad1(type, v, t) == CASE type = "G" -> RMul(RSub(Mean(v), t), RPow2(-2 * SigmaE(v)))
                       [] type = "E" -> RNeg(RPow2(-BetaE(v)))
                       [] type = "U" -> RZero
\* advertised bounds = support;  None is encoded as "none"
Bounds1(type, v) == CASE type = "G" -> <<"none", "none">>
                      [] type = "E" -> <<RZero, "none">>
                      [] type = "U" -> <<Lower(v), Upper(v)>>
\* a draw of the component for coordinate v, as a function of what the generator is asked for:
\*   normal(loc, scale) -> loc + scale/2;  exponential(scale) -> scale/4;  uniform(low, high) -> low + 3(high - low)/4
Draw1(type, v) == CASE type = "G" -> RAdd(Mean(v), RMul(Half, RPow2(SigmaE(v))))
                    [] type = "E" -> RMul(<<1, 4>>, RPow2(BetaE(v)))
                    [] type = "U" -> RAdd(Lower(v), RMul(<<3, 4>>, RSub(Upper(v), Lower(v))))
\* what the generator must be asked for (parameter identity with the density): kind and per-coordinate parameters
Request(c) == [kind |-> (CASE c.type = "G" -> "normal" [] c.type = "E" -> "exponential" [] c.type = "U" -> "uniform"),
               p1 |-> [k \in 1..Len(c.vars) |-> CASE c.type = "G" -> Mean(c.vars[k]) [] c.type = "E" -> RPow2(BetaE(c.vars[k]))
                                                      [] c.type = "U" -> Lower(c.vars[k])],
               p2 |-> [k \in 1..Len(c.vars) |-> CASE c.type = "G" -> RPow2(SigmaE(c.vars[k])) [] c.type = "E" -> RZero
                                                      [] c.type = "U" -> Upper(c.vars[k])]]
\* ---- joint prior over a layout ----
CompOf(layout, v) == CHOOSE k \in 1..Len(layout) : \E i \in 1..Len(layout[k].vars) : layout[k].vars[i] = v
TypeOf(layout, v) == layout[CompOf(layout, v)].type
NVars(layout) == Cardinality(UNION {{layout[k].vars[i] : i \in 1..Len(layout[k].vars)} : k \in 1..Len(layout)})
Inside(layout, theta) == \A v \in 1..NVars(layout) : InSupport(TypeOf(layout, v), v, theta[v])
JointValue(layout, theta) == SSum([v \in 1..NVars(layout) |-> LogDensity1(TypeOf(layout, v), v, theta[v])], NVars(layout))
JointGrad(layout, theta) == [v \in 1..NVars(layout) |-> Grad1(TypeOf(layout, v), v, theta[v])]
JointBounds(layout) == [v \in 1..NVars(layout) |-> Bounds1(TypeOf(layout, v), v)]
JointDraw(layout) == [v \in 1..NVars(layout) |-> Draw1(TypeOf(layout, v), v)]
\* a layout is well-formed: every variable 1..n in exactly one component
WellFormed(layout) == LET n == NVars(layout) IN
    /\ \A v \in 1..n : Cardinality({k \in 1..Len(layout) : \E i \in 1..Len(layout[k].vars) : layout[k].vars[i] = v}) = 1
    /\ \A k \in 1..Len(layout) : \A i, j \in 1..Len(layout[k].vars) : i # j => layout[k].vars[i] # layout[k].vars[j]
\* initial guesses: the first n of the draws ordered by increasing cost (ranks: 1 = cheapest; ties excluded by the driver)
GuessOK(ranks, n, returned) == /\ Len(returned) = n
                               /\ \A k \in 1..n : ranks[returned[k]] = k
=============================================================================
