------------------------------ MODULE LikeExact ------------------------------
(***************************************************************************)
(* C05 -- the three likelihood classes as the normalised densities they are *)
(* named after, written from the definitions of those densities:            *)
(*   Gaussian  log N(y; f, s)   = -1/2 z^2 - ln s - 1/2 ln(2 pi)            *)
(*   Cauchy    log C(y; f, g)   = -ln(pi g) - ln(1 + z^2)                   *)
(*   logistic  log L(y; f, s)   = -z - 2 ln(1 + e^-z) - ln s,               *)
(*             s = sigma sqrt(3)/pi  (so that the standard deviation is     *)
(*             sigma)                                                       *)
(* with z = (y - f)/scale, summed over data; gradients by the chain rule    *)
(* through the Jacobian of a linear forward model f = J theta.              *)
(*                                                                         *)
(* Family: scales 2^j; Gaussian/Cauchy residuals y - f = r (rational);      *)
(* logistic residuals y - f = s ln q with q rational or q = 2^e (|e| up to  *)
(* 600: residuals of hundreds of sigma).                                    *)
(***************************************************************************)
EXTENDS SymLin, FiniteSets, TLC
\* one datum: [j |-> scale exponent, r |-> <<n,d>> residual (gauss/cauchy), q |-> <<"rat",n,d>> | <<"pow2",e>> (logistic)]
Half == <<1, 2>>
GaussTerm(dt) == LET z == RMul(dt.r, RPow2(-dt.j)) IN
    SAdd(SAdd(SRat(RMul(RNeg(Half), RMul(z, z))), SAtom(RAdd(RInt(-dt.j), RNeg(Half)), <<"ln2">>)), SAtom(RNeg(Half), <<"lnpi">>))
GaussDf(dt) == RMul(dt.r, RPow2(-2 * dt.j))                                  \* d/df = (y - f)/sigma^2
CauchyTerm(dt) == LET z == RMul(dt.r, RPow2(-dt.j)) IN
    SAdd(SAdd(SAtom(RNeg(ROne), <<"lnpi">>), SAtom(RInt(-dt.j), <<"ln2">>)), SLn(RNeg(ROne), RAdd(ROne, RMul(z, z))))
CauchyDf(dt) == LET z == RMul(dt.r, RPow2(-dt.j)) IN RDiv(RMul(RInt(2), RMul(z, RPow2(-dt.j))), RAdd(ROne, RMul(z, z)))   \* 2z/(g(1+z^2))
\* logistic with z = ln q:  ln q - 2 ln(1+q) - j ln2
LogisticTerm(dt) == IF dt.q[1] = "rat"
    THEN LET q == <<dt.q[2], dt.q[3]>> IN SAdd(SAdd(SLn(ROne, q), SLn(RInt(-2), RAdd(ROne, q))), SAtom(RInt(-dt.j), <<"ln2">>))
    ELSE SAdd(SAdd(SAtom(RInt(dt.q[2]), <<"ln2">>), SAtom(RInt(-2), <<"ln1p2", dt.q[2]>>)), SAtom(RInt(-dt.j), <<"ln2">>))
\* d/df = ((q - 1)/(q + 1)) / s
LogisticDf(dt) == IF dt.q[1] = "rat"
    THEN LET q == <<dt.q[2], dt.q[3]>> IN SRat(RMul(RDiv(RSub(q, ROne), RAdd(q, ROne)), RPow2(-dt.j)))
    ELSE SAtom(RPow2(-dt.j), <<"r2p", dt.q[2]>>)
Term(kind, dt) == CASE kind = "gauss" -> GaussTerm(dt) [] kind = "cauchy" -> CauchyTerm(dt) [] kind = "logistic" -> LogisticTerm(dt)
Df(kind, dt) == CASE kind = "gauss" -> SRat(GaussDf(dt)) [] kind = "cauchy" -> SRat(CauchyDf(dt)) [] kind = "logistic" -> LogisticDf(dt)
\* value and gradient for a data set `data` (sequence of datum records) and integer Jacobian J (Len(data) x p)
Value(kind, data) == SSum([i \in 1..Len(data) |-> Term(kind, data[i])], Len(data))
Gradient(kind, data, J) == [a \in 1..Len(J[1]) |-> SSum([i \in 1..Len(data) |-> SScale(RInt(J[i][a]), Df(kind, data[i]))], Len(data))]
Cost(kind, data) == SNeg(Value(kind, data))
CostGradient(kind, data, J) == [a \in 1..Len(J[1]) |-> SNeg(Gradient(kind, data, J)[a])]
=============================================================================
