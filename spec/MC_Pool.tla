---- MODULE MC_Pool ----
EXTENDS Pool
====
