"""Generates /verif/MANIFEST.json from the table below (python -m harness.manifest)."""
import json
import os

VERIF = os.path.dirname(os.path.dirname(os.path.abspath(__file__)))

BASELINE_OFF = ("cd /repo && env -u INFERENCE_TOOLS_VERIF /venv/bin/python -m pytest -ra -q -p no:cacheprovider "
                "--timeout=900 --continue-on-collection-errors")

# pid -> (technique, level text, level note, design ref)
CLAIMED = {
    "C04": {
        "technique": "TLA+ limit state machine + map laws model-checked by TLC; every TLC history/box replayed into the real "
                     "samplers; observed proposal maps checked by TLC (ObservedFoldLaws); bounded-sampler traces validated by LimitsTrace.tla",
        "text": "Exhaustive over every call order of set_boundaries/remove/set_non_negative up to length 3 (quick) / 5 (thorough) "
                "and every box/overshoot of the reflection maps on a lattice at many dyadic scales; every enumerated case is executed "
                "on the real code and compared with the TLC state. Bounded PCA/HMC/ensemble runs with overshooting proposals are "
                "trace-validated (every posterior/gradient evaluation and every sample inside the limits up to 4 ulp).",
        "note": "Trusted: TLC, numpy exactness on dyadic lattices, the ulp projection. Histories longer than 5 calls and non-lattice "
                "Gibbs boundaries are covered only through the random-bounds traces.",
        "ref": "DESIGN.md section 3 C04",
    },
    "C01": {
        "technique": "TLA+ step machines (Samplers, Ensemble, HmcStep) model-checked by TLC; detailed-balance / proposal-symmetry / "
                     "irreducibility identities evaluated by TLC on the kernel table tabulated from the real samplers; every TLC "
                     "behaviour replayed into the real samplers with scripted draws",
        "text": "Exhaustive on integer/dyadic lattices (exact Metropolis ratios): every single-step behaviour of Metropolis/Gibbs/PCA "
                "under every decision-relevant draw, seeded multi-step walks, ensemble stretch moves and HMC attempts are executed on "
                "the real code and every evaluated point, sample, stored probability and decision compared with the TLC state; the "
                "MH identities are decided by TLC on the implementation's own one-attempt kernel.",
        "note": "Trusted: TLC; lattice posteriors (off-lattice only exp() differs); stretch-density and HMC volume lemmas; adaptation "
                "frozen (tuning is a free parameter). The retry-until-accept loops are a recorded known finding (F1).",
        "ref": "DESIGN.md section 3 C01",
    },
    "C03": {
        "technique": "ProbsBelong/LenAgree/ArgMax invariants in the TLA+ step machines, Tempering and Ownership models checked by TLC; "
                     "multi-step TLC behaviours replayed into all samplers; real tempering runs trace-validated by PTTrace.tla",
        "text": "Every multi-step behaviour is replayed with the complete (sample, probability) history compared, mode() checked against "
                "the TLC arg-max set; every interleaving of two samplers built from shared arrays (Ownership.tla) is replayed on all "
                "five sampler classes; exchanged points are checked in every state of real multi-process runs and at every index of "
                "the returned chains; HamiltonianChain with 0-3 leap-frog steps per proposal is stepped with the invariants evaluated "
                "after every step.",
        "note": "Trusted: TLC, lattice posteriors, fork start method. replace_last alone (without the probability update the worker "
                "performs) is outside the property.",
        "ref": "DESIGN.md section 3 C03",
    },
    "C05": {
        "technique": "LikeExact.tla: exact symbolic (rational + ln/ln(1+2^e) atoms) reference for the three log-densities and gradients, "
                     "enumerated by TLC; every case replayed into the real likelihood classes",
        "text": "TLC enumerates data sets of 1..2 (quick) / 1..3 (thorough) data with scales 2^j, rational, ln q and 2^+-600 ln 2 "
                "residuals (hundreds of sigma) and integer Jacobian rows; __call__, gradient, cost and cost_gradient of the real classes "
                "must agree with the printed exact values to 1e-9 of the sum of |terms|: every normalising constant, sign, factor and "
                "the chain rule are decided on the whole family.",
        "note": "Trusted: TLC, math.log/log1p/tanh at exact arguments. Sub-normal or overflowing scales are not decided.",
        "ref": "DESIGN.md section 3 C05",
    },
    "C06": {
        "technique": "PriorExact.tla: exact prior log-densities, gradients, supports, generator requests and JointPrior index routing; "
                     "TLC enumerates every layout; each is built with the real classes (module generator replaced by a recording stand-in)",
        "text": "Every assignment of up to 3 (quick) / 4 (thorough) parameter indices to up to 3 components, every type assignment, "
                "component order and index order, with probe vectors inside and outside the support: value, cost, gradient entries, "
                "bounds, sampled coordinates and the distribution parameters requested from the generator are compared with TLC; "
                "Posterior = likelihood + prior exactly; initial guesses validated by PriorTrace.tla.",
        "note": "Trusted: TLC, numpy generators producing the requested distributions. Gradient entries of coordinates outside their "
                "own support are not compared (undefined).",
        "ref": "DESIGN.md section 3 C06",
    },
    "C20": {
        "technique": "PiecewiseLinear.tla: exact cell masses and within-cell inverse CDF, tables enumerated by TLC and replayed into "
                     "piecewise_linear_sample with a scripted generator; get_conditionals / conditional_sample call traces validated by CondTrace.tla",
        "text": "Every table of 1..2 (quick) / 1..3 (thorough) cells over uniform and non-uniform dyadic grids with entries 0..2/3 (zeros "
                "included) plus a |delta| < 1e-5 table: the probabilities handed to choice() must be the exact cell masses and every "
                "(cell, u) must give TLC's sample. For random Gaussian posteriors (independent / correlated, scales 1e-3..1e3, four bound "
                "regimes) every posterior evaluation must be inside the bounds and on the scanned axis, the grid ascending, inside and "
                "covering the 1% region, the density proportional to exp(logp), normalised and within 5e-3 of the true truncated-Gaussian "
                "conditional; samples inside the bounds.",
        "note": "Trusted: TLC; the projection computes the true conditional of a Gaussian in closed form. Accuracy outside the well-resolved "
                "regime named by the property is not decided.",
        "ref": "DESIGN.md section 3 C20",
    },
    "C07": {
        "technique": "Leapfrog.tla state machine in exact dyadic arithmetic model-checked by TLC (reversibility, Jacobian determinant, "
                     "exact shadow-energy conservation, mass consistency); every exact orbit replayed bit-exactly into run_leapfrog / "
                     "sample_momentum / hamiltonian; finite_diff call traces validated by FdTrace.tla",
        "text": "All orbits of a family of quadratic potentials x masses (scalar/vector/matrix) x temperatures x step sizes x boxes are "
                "enumerated; the real integrator must reproduce every gradient-evaluation point, end point and energy exactly and "
                "return to the start after forward-flip-forward; off-lattice random orbits are checked to 1e-9 and for the 4x energy "
                "error ratio; finite-difference gradients are trace-validated including zero-valued coordinates.",
        "note": "Trusted: TLC; quadratic potentials only for the exact identities (Stormer-Verlet order for other potentials is a lemma). "
                "Known finding F24: walls + non-diagonal inverse mass are not reversible.",
        "ref": "DESIGN.md section 3 C07",
    },
    "C09": {
        "technique": "Lifecycle.tla field/phase model checked by TLC (RoundTrip, ContinuationEqual, Save enabled in every phase); every TLC "
                     "operation history replayed on every sampler class / option set with a generic field-by-field comparison",
        "text": "Every history over {step 1/50/101, save, load, continue} up to 3 (quick) / 4 (thorough) operations containing a load is run "
                "on 11 sampler configurations (Gibbs with limits and temperature, Metropolis, PCA with/without bounds, HMC with scalar / "
                "vector / matrix mass, bounds, finite-difference gradient, ensemble with/without bounds): the clone must hold every field of "
                "the original, give identical read-outs, support the plotting calls, and continue identically after generator states are copied.",
        "note": "Trusted: TLC, numpy savez/load. File-format compatibility across library versions is not decided.",
        "ref": "DESIGN.md section 3 C09",
    },
    "C10": {
        "technique": "KernelExact.tla: kernels, compositions, data-covariance builder, hyper-parameter gradients and mean functions as exact "
                     "rational/symbolic operators enumerated by TLC; every case replayed into the real covariance / mean classes",
        "text": "4 point sets (1-D, 2-D) x 12 kernel compositions (SE, RQ, +white, +heteroscedastic noise, sums of 2-4, change-points with "
                "2 and 3 kernels alone and inside sums) x 3 mean functions: __call__, build_covariance, covariance_and_gradients (every "
                "gradient matrix), labels / n_params / bounds concatenation, build_mean, mean __call__ and mean_and_gradients must agree "
                "with the exact values; symmetry and PSD checked exactly where 32-bit rationals allow and numerically on the implementation.",
        "note": "Trusted: TLC, math.log at exact arguments. 4-kernel change-points and sums inside change-points are not in the exact family "
                "(32-bit denominators); PSD for near-coincident points (jitter adequacy) is not decided.",
        "ref": "DESIGN.md section 3 C10",
    },
    "C02": {
        "technique": "GpExact.tla: exact rational GP posterior (adjugate inverses) on the KernelExact families, enumerated by TLC with "
                     "symmetry / variance-range / order-independence / LOO-shortcut invariants; every problem replayed into GpRegressor",
        "text": "204 problems (1-3 data points, 1-D/2-D, SE/RQ/+noise kernels, constant/linear/quadratic means, zero/uniform/per-point/full "
                "error covariance) x up to 5 call variants (y_err vs y_cov, arrays vs lists, reversed training order): __call__, "
                "build_posterior and build_posterior(mean_only) must equal the printed rationals to 1e-9 and stay within [0, prior].",
        "note": "Trusted: TLC. Conditioning off the rational families and the automatic hyper-parameter search (C11) are not decided here.",
        "ref": "DESIGN.md section 3 C02",
    },
    "C11": {
        "technique": "GpExact.tla scores (LML, LOO by actual deletion, gradients as exact SymLin values) replayed into the regressor; "
                     "Select.tla selection state machine model-checked; selection runs validated by SelectTrace.tla",
        "text": "marginal_likelihood, marginal_likelihood_gradient, loo_likelihood, loo_likelihood_gradient and loo_predictions on every "
                "enumerated problem (gradient tables where they fit 32-bit rationals); automatic selection with both optimisers and both "
                "criteria on seeded random data: result inside the bounds and, for the multi-start optimiser, at least as good as the centre.",
        "note": "Trusted: TLC, math.log. Global optimality is not claimed by the property.",
        "ref": "DESIGN.md section 3 C11",
    },
    "C16": {
        "technique": "GpExact.tla derivative predictions (exact multiples of ln2, ln2^2) for the squared-exponential kernel replayed into "
                     "gradient() and spatial_derivatives()",
        "text": "72 problems (<= 2 data points, 1-D/2-D, all mean functions and noise specifications), 3 query points singly and batched: "
                "gradient mean (with the mean-function slope), variance derivative and gradient covariance must equal the reference; the "
                "covariance must be symmetric PSD and below the prior.",
        "note": "Trusted: TLC. Only SquaredExponential supports derivative predictions.",
        "ref": "DESIGN.md section 3 C16",
    },
    "C17": {
        "technique": "InvertExact.tla: exact linear-Gaussian posterior, evidence and evidence gradient on the KernelExact families, "
                     "enumerated by TLC and replayed into GpLinearInverter",
        "text": "80 problems: under-, exactly- (incl. rank-deficient) and over-determined integer model matrices (1x2 .. 3x2, 1x3, 2x3), "
                "parameters on 1-D and 2-D lattices, SE and RQ priors, constant and linear means, uniform and per-datum errors: posterior "
                "mean (full and mean-only paths), covariance (symmetric PSD, below the prior), evidence and its gradient must equal the "
                "exact values to 1e-9.",
        "note": "Trusted: TLC, math.log. Hyper-parameter optimisation of the inverter (Nelder-Mead) is not part of the property.",
        "ref": "DESIGN.md section 3 C17",
    },
    "C18": {
        "technique": "Acquire.tla: UCB / MaxVariance / closed-form expected improvement and gradients over product atoms, on GpExact posteriors; "
                     "AcquireSM.tla propose/add state machine; GpOptimiser call traces validated by AcquireTrace.tla",
        "text": "432 (regressor state, query point) pairs with improvement z-scores from -29 to +5 (149 in the far-tail branch): __call__, "
                "opt_func and opt_func_gradient of the three classes against the exact values (EI relative to EI itself); every TLC "
                "propose/add history (sampled) run on a real GpOptimiser in 1-D and 2-D with both optimisers: proposals inside the bounds, "
                "added points join the next model's data, incumbent updated, caller arrays byte- and shape-identical.",
        "note": "Trusted: TLC, math.erf/erfc. EI is taken as the closed form of the expectation (not integrated); continuity across the branch "
                "switch is checked at enumerated z-scores on both sides.",
        "ref": "DESIGN.md section 3 C18",
    },
    "C12": {
        "technique": "KdeExact.tla: exact Gaussian-mixture density and cdf (exp/erf atoms at rational arguments) enumerated by TLC; real "
                     "GaussianKDE compared inside an explicit one-sided truncation band; affine-covariance traces validated by KdeCovTrace.tla",
        "text": "Every sample of 3-8 points over 4 (quick) / 5 (thorough) levels with ties and gaps, bandwidths 2^k/sqrt(2) (and bandwidths far "
                "above the data range), on a half-integer grid from three cut-offs left to three cut-offs right of the data: density "
                "non-negative with 0 <= exact - got <= 2.5e-3 kernel peaks, cdf within 5e-4, non-decreasing from 0 to 1, scalar = array, "
                "order independent; scale/shift covariance for user, rule-of-thumb and cross-validated bandwidths on seeded samples.",
        "note": "Trusted: TLC, math.exp/erf. The band constants follow from the observed cut-off (4 bandwidths) and region width (< 1 bandwidth).",
        "ref": "DESIGN.md section 3 C12",
    },
    "C19": {
        "technique": "KdeExact.tla closed-form mixture moments, mass and end densities (KdeInterval.tla) vs GaussianKDE.moments / interval / mode "
                     "under affine maps; PdfTable.tla judges tabulated-density traces of both estimators (UnimodalPdf, GaussianKDE) fitted to "
                     "the quantile-sample family of MC_PdfFamily.tla",
        "text": "Light-tailed integer-mean histograms (hundreds to thousands of points by replication) x bandwidths x affine maps with scales 2^-20..2^20 "
                "and locations up to 1e6 standard deviations: mean / variance / skewness / kurtosis against the closed form in units of the data's "
                "scale (only where < 2e-4 of the mass lies outside the estimator's integration range), covariance between runs, mode maximality; "
                "interval(f) ends are fed back to the reference, which prints mass and end densities. Both estimators on unimodal quantile samples "
                "(8 shapes, 300-5000 points, scales 1e-6..1e6, locations to 2e4 std): 256-cell tables of density and cdf judged clause by clause by TLC.",
        "note": "UnimodalPdf: self-consistency clauses are decided on its tabulated density (trapezium on 256 cells; tolerances in PdfTable.tla); its "
                "moments clause uses an independent quadrature of the estimator's own density as reference; its covariance clause only with wide bands "
                "(the fit is not unique). Lattice-histogram interval tolerances: 1e-2 mass, 5e-2 of the peak.",
        "ref": "DESIGN.md sections 3 C19 and 5",
    },
    "C13": {
        "technique": "Hdi.tla: declarative Good predicate + algorithm model, AlgorithmIsGood model-checked by TLC over every small sample "
                     "and fraction; every enumerated case run through the real sample_hdi in 8 call variants and judged by HdiTrace.tla",
        "text": "Exhaustive over samples of length 2..5 over 4 levels (quick) / 2..6 over 5 levels (thorough) and all fractions k/16, plus "
                "seeded random samples up to 40 values with ties; TLC evaluates Good on the returned pair (any optimal window accepted), "
                "equality of list/int/float/2-D-column variants, permutation invariance, affine covariance and input-unchanged; every sample "
                "also under a concave monotone map (window widths equal to 7 digits), judged by Good as a sample of its own.",
        "note": "Trusted: TLC. Integer-valued samples and dyadic fractions; float-valued samples only through the exact float copies.",
        "ref": "DESIGN.md section 3 C13",
    },
    "C14": {
        "technique": "Readout.tla selection operator and IntervalOK predicate; TLC enumerates every (n, burn, thin) and the real read-outs of "
                     "all five samplers are compared id by id; every get_interval call is validated by ReadoutTrace.tla",
        "text": "For every chain length up to 10 (quick) / 14 (thorough), every burn up to n+1 and thin up to 4/6, get_parameter, get_sample, "
                "get_probabilities and the marginal's sample must be exactly the rows TLC selects, with first dimension = retained count "
                "(0 and 1 included); get_interval results for fractions k/8 and counts none/1/2/3/6 are projected to row ids and ranks and "
                "TLC evaluates IntervalOK on each; chains on a plateau log-density give events with TIED ranks (IsTop / InSomeTop: no "
                "dropped row outranks a kept one, exact count).",
        "note": "Trusted: TLC; row identification by exact matching (rows and probabilities pairwise distinct). The derived thinning of "
                "get_interval(samples=m) is a free parameter of the specification.",
        "ref": "DESIGN.md section 3 C14",
    },
    "C15": {
        "technique": "Advance/AdvanceArith/Pool/RunForGen TLA+ models checked by TLC; every TLC call sequence and cost schedule driven "
                     "into the real advance / run_for (fake clock) / ChainPool; clock-read and step traces validated by RunFor.tla",
        "text": "Every call sequence over m in {0,1,7,99,100,101,250} and take_step is executed on all five samplers with a counting "
                "wrapper (ExactlyRequested, LenAgree); the grouped-loop arithmetic is checked for all n <= 700; run_for is driven by "
                "TLC-enumerated budgets and per-step cost schedules (20 microseconds to 90 s) and its trace must satisfy "
                "ExitOnlyAfterBudget, NoStepAfterBudget, StarvationFree; a real ChainPool must equal the serially advanced chains "
                "under injected delays; PoolEqualsSerial is model-checked over all interleavings; ParallelTempering.run_for with exchange "
                "cycles of 0.4 to 12.5 simulated seconds is traced in the same format and judged by the same RunFor.tla.",
        "note": "Trusted: TLC, the fake clock (time advances only through step costs and 2 microseconds per read). Budgets above "
                "35 minutes are not enumerated (32-bit microseconds).",
        "ref": "DESIGN.md section 3 C15",
    },
    "C08": {
        "technique": "Tempering.tla (master, N workers, FIFO pipes, shutdown event) model-checked by TLC incl. liveness; real "
                     "multi-process ParallelTempering runs under injected delay schedules validated event-by-event by PTTrace.tla",
        "text": "All interleavings of 3 workers and the master are explored (ProbsBelong, PairsDisjoint, EqualAdvance, ReturnComplete, "
                "termination, unique terminal state for fixed seeds); the cycle arithmetic of advance and the as-built pairing strategy "
                "are checked for all sizes in range; real runs (1-6 chains, several delay schedules, with and without progress display) "
                "are recorded through traced pipes and TLC must explain every event, inferring the pairing; final chains must be "
                "identical across schedules and the workers dead after shutdown.",
        "note": "Trusted: TLC, fork start method, traced-pipe wrappers. OS-level failures (killed worker) are outside the property; "
                "run_for of the tempering object is covered by C15's clock model only.",
        "ref": "DESIGN.md section 3 C08",
    },
}

NOT_YET = {}

ALL = [f"C{i:02d}" for i in range(1, 21)]


def build():
    checks = []
    for pid in ALL:
        if pid not in CLAIMED:
            continue
        c = CLAIMED[pid]
        checks.append({
            "property_id": pid,
            "quick_cmd": f"./check {pid} --tier quick",
            "thorough_cmd": f"./check {pid} --tier thorough",
            "evidence_file": f"/verif/evidence/{pid}.json",
            "replay_cmd_template": f"./check {pid} --replay {{path}}",
            "engine": "tlc+conformance",
            "level_claimed": {"category": c.get("category", "model_checking"), "text": c["text"],
                              "design_ref": c["ref"]},
            "level_note": c["note"],
            "technique": c["technique"],
        })
    na = [{"property_id": pid, "reason": NOT_YET.get(pid, "check not built yet (build in progress; see DESIGN.md section 4)")}
          for pid in ALL if pid not in CLAIMED]
    m = {
        "version": 1,
        "setup_cmd": "cd /verif && ./setup.sh",
        "hooks": {
            "guard": "INFERENCE_TOOLS_VERIF",
            "enable": "checks import inference from /repo's working tree (PYTHONPATH=/repo) with INFERENCE_TOOLS_VERIF=1; "
                      "all instrumentation is external (scripted RNGs, traced pipes, fake clock); no source hooks",
            "baseline_off_cmd": BASELINE_OFF,
            "source_commits": [],
            "add_only": True,
        },
        "engines": [{
            "name": "tlc+conformance",
            "path": "/verif/check",
            "serves_properties": [p for p in ALL if p in CLAIMED],
            "kind_free_text": "TLA+ specifications in /verif/spec model-checked by TLC; TLC-exported transitions/cases "
                              "replayed into the real code (spec->code) and traces recorded from the real code validated "
                              "by TLC trace specifications (code->spec)",
        }],
        "checks": checks,
        "notes": ("See DESIGN.md. Exit 2 from a check means machinery failure, never a property verdict. Beyond the listed properties the specification also "
                  "covers proposal-width / step-size adaptation and the direction schedule (./check adaptation), the region look-up of the kernel "
                  "estimator (./check regiongroups), the diagnostics counters and exchange statistics (./check bookkeeping), the progress display "
                  "(./check progress); ./check selftest corrupts accepted traces and requires every trace specification to reject them."),
        "not_applicable": na,
    }
    return m


if __name__ == "__main__":
    with open(os.path.join(VERIF, "MANIFEST.json"), "w") as fh:
        json.dump(build(), fh, indent=1)
    print("MANIFEST.json written:", len(build()["checks"]), "checks")
