------------------------------ MODULE Ownership ------------------------------
(***************************************************************************)
(* C03 (last sentence) / C18 -- samplers built from the same input arrays   *)
(* evolve independently of one another and leave those arrays unchanged.    *)
(*                                                                         *)
(* Memory is modelled explicitly: the caller owns an array object `user`;   *)
(* a sampler holds either a private COPY (desired) or an ALIAS of it (what  *)
(* keeping the validated array without copying amounts to).  A step of a    *)
(* sampler rewrites the array it holds.  With Alias = FALSE the invariants  *)
(* hold for every interleaving; with Alias = TRUE TLC exhibits the          *)
(* interference (the defect repaired in EnsembleSampler, F4).               *)
(***************************************************************************)
EXTENDS Integers, Sequences, FiniteSets, TLC
CONSTANTS NS,        \* number of samplers built from the one array
          MaxOps,    \* bound on the number of steps in a behaviour
          Alias      \* FALSE: constructor copies;  TRUE: constructor keeps the caller's array
S == 1..NS
InitUser == <<3, 1, 4>>
VARIABLES user,      \* content of the caller's array
          own,       \* own[s] = content of sampler s's private array (unused when aliasing)
          built,     \* samplers constructed so far
          steps,     \* steps[s] = sequence of draws applied by sampler s
          order      \* the interleaving: sequence of sampler ids
vars == <<user, own, built, steps, order>>
\* one step with draw d adds d to every entry (any deterministic function of (state, draw) would do)
Move(a, d) == [i \in 1..Len(a) |-> a[i] + d]
RECURSIVE Solo(_, _)
Solo(a, ds) == IF ds = <<>> THEN a ELSE Solo(Move(a, Head(ds)), Tail(ds))
Held(s) == IF Alias THEN user ELSE own[s]
Init == user = InitUser /\ own = [s \in S |-> <<>>] /\ built = {} /\ steps = [s \in S |-> <<>>] /\ order = <<>>
Construct(s) == /\ s \notin built /\ built' = built \cup {s}
                /\ own' = [own EXCEPT ![s] = user]               \* the copy is taken at construction time
                /\ UNCHANGED <<user, steps, order>>
Step(s, d) == /\ s \in built /\ Len(order) < MaxOps
              /\ IF Alias THEN user' = Move(user, d) /\ UNCHANGED own
                          ELSE own' = [own EXCEPT ![s] = Move(@, d)] /\ UNCHANGED user
              /\ steps' = [steps EXCEPT ![s] = Append(@, d)] /\ order' = Append(order, s)
              /\ UNCHANGED built
Next == \E s \in S : Construct(s) \/ \E d \in {1, 2} : Step(s, d)
Spec == Init /\ [][Next]_vars
UserArraysUnchanged == user = InitUser
\* what sampler s holds is what it would hold had it run alone with the same draws
NonInterference == \A s \in built : Held(s) = Solo(InitUser, steps[s])
=============================================================================
