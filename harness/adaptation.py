"""Beyond the listed properties: Adaptation.tla replayed into the real width / step-size adaptation objects.

./check adaptation   (not a property check; evidence/adaptation.json)

Adaptation.tla models, as built, the running-sum assessment of the acceptance rate of inference.mcmc.gibbs.Parameter (try counter,
quarter cuts beyond max_tries, assessment interval growth, rate-driven width changes) and of inference.mcmc.hmc.epsilon.EpsilonSelector
(variance floor 0.03, no try counter).  TLC explores it by simulation; every behaviour is a list of attempts (acceptance probability,
accepted or not) with the abstract state after each, replayed into the real object and compared after every attempt.
"""
import math
import numpy as np

from harness.core import Check, run_tlc, must_pass, seed

VARIANTS = {
    "gibbs_parameter": dict(target=(1, 4), chk0=20, growth=(7, 4), floor=(0, 1), tries=3, use_tries=True, rate=0.25, lo=0.1, hi=3.0),
    "gibbs_parameter_target_half": dict(target=(1, 2), chk0=30, growth=(7, 4), floor=(0, 1), tries=2, use_tries=True, rate=0.25, lo=0.1, hi=3.0),
    "hmc_epsilon": dict(target=(13, 20), chk0=15, growth=(7, 5), floor=(3, 100), tries=0, use_tries=False, rate=0.15, lo=0.5, hi=2.0),
}


class _Zero:
    def normal(self, loc=0.0, scale=1.0, size=None):
        return loc


def fr(q):
    return q[0] / q[1]


def schedule_part(ck, tier):
    """DirSchedule.tla: when PcaChain re-estimates its directions (lengths at which update_directions runs, interval, next update)"""
    from inference.mcmc import PcaChain
    import inference.mcmc.pca as pca_mod
    maxlen = 900 if tier == "quick" else 4000
    for i0, gn, gd in ((100, 3, 2), (7, 3, 2), (10, 5, 4)):
        r = run_tlc("DirSchedule", cfg_text=("SPECIFICATION Spec\nCONSTANTS Interval0 = %d GrowN = %d GrowD = %d MaxLen = %d\nINVARIANT NeverSkipped\n"
                                             "INVARIANT Ordered\nINVARIANT Export\nCHECK_DEADLOCK FALSE\n" % (i0, gn, gd, maxlen)), workers=1, timeout=600)
        if r.violated:
            ck.violation("spec: DirSchedule " + ",".join(r.violated), {"violated": r.violated}, site="spec")
        must_pass(r, "DirSchedule")
        ck.tlc(r, "direction_schedule_%d" % i0)
        want = r.printed[-1]
        post = lambda x: -0.5 * float(np.sum(np.asarray(x, dtype=float) ** 2))
        ch = PcaChain(posterior=post, start=np.array([0.5, -0.5]), widths=np.array([1.0, 1.0]), display_progress=False)
        ch.rng = np.random.default_rng(seed() + 3)
        for j, p_ in enumerate(ch.params):
            p_.rng = np.random.default_rng(seed() + 7 + j)
        ch.dir_update_interval, ch.dir_growth_factor, ch.next_update = i0, gn / gd, i0
        seen = []
        orig = ch.update_directions

        def logged(orig=orig, ch=ch, seen=seen):
            seen.append({"at": int(ch.chain_length), "interval_before": int(ch.dir_update_interval), "last_before": int(ch.last_update)})
            orig()
        ch.update_directions = logged
        for _ in range(maxlen - 1):
            ch.take_step()
        ck.case(("dir-schedule", i0, gn, gd))
        got = {"updates": seen, "next": int(ch.next_update), "interval": int(ch.dir_update_interval), "last": int(ch.last_update)}
        if got != {k: want[k] for k in got} or list(ch.update_history) != [u["at"] for u in want["updates"]]:
            ck.violation("direction updates happen at the chain lengths, with the intervals, the specification gives",
                         {"interval0": i0, "growth": gn / gd, "spec": want, "code": got}, site="PcaChain.update_directions:schedule")
    ck.traces += 3


def run(tier):
    ck = Check("adaptation", tier)
    ck.rule = "one case per simulated behaviour of Adaptation.tla (60 attempts) replayed into the real Parameter / EpsilonSelector"
    ck.assumptions = ["acceptance probabilities from {0, 1/4, 1/2, 3/4, 1}; exact near-ties of the on-target test (1 part in 1000) are not explored",
                      "the width multiplier (ln target / ln mu)^rate, clamped, is evaluated in the harness from the specification's exact mu"]
    from inference.mcmc.gibbs import Parameter
    from inference.mcmc.hmc.epsilon import EpsilonSelector
    nsim = 60 if tier == "quick" else 600
    for name, v in VARIANTS.items():
        mod = ("---- MODULE MC_Adaptation ----\nEXTENDS Adaptation\nT1 == <<%d, %d>>\nG1 == <<%d, %d>>\nV1 == <<%d, %d>>\n"
               "P1 == { <<0, 1>>, <<1, 4>>, <<1, 2>>, <<3, 4>>, <<1, 1>> }\n====\n" % (*v["target"], *v["growth"], *v["floor"]))
        cfg = ("SPECIFICATION Spec\nCONSTANTS Target <- T1\n Chk0 = %d\n Growth <- G1\n VarFloor <- V1\n PSet <- P1\n MaxTries = %d\n UseTries = %s\n"
               " MaxAttempts = 60\nINVARIANT SumsConsistent\nINVARIANT AssessedInTime\nINVARIANT Export\nPROPERTY IntervalNeverShrinks\nCHECK_DEADLOCK FALSE\n"
               % (v["chk0"], v["tries"], "TRUE" if v["use_tries"] else "FALSE"))
        r = run_tlc("MC_Adaptation", cfg_text=cfg, extra_files={"MC_Adaptation.tla": mod}, workers=4, simulate="num=%d" % nsim, depth=62,
                    seed_=seed() + 5, timeout=900)
        if r.violated:
            ck.violation("spec: Adaptation " + ",".join(r.violated), {"variant": name, "violated": r.violated}, site="spec")
        must_pass(r, "MC_Adaptation " + name)
        ck.tlc(r, "adaptation_" + name)
        for b in r.printed:
            ck.case((name, str([(t["p"], t["acc"]) for t in b["trace"]])))
            if v["use_tries"]:
                obj = Parameter(value=0.0, sigma=1.0)
                obj.rng = _Zero()
                obj.target_rate, obj.chk_int, obj.max_tries = fr(v["target"]), v["chk0"], v["tries"]
                width = lambda: obj.sigma
                nadj = lambda: len(obj.sigma_values) - 1
            else:
                obj = EpsilonSelector(epsilon=1.0)
                width = lambda: obj.epsilon
                nadj = lambda: len(obj.epsilon_values) - 1
            ident = {"variant": name}
            ok = True
            for k, t in enumerate(b["trace"]):
                p = fr(t["p"])
                if v["use_tries"]:
                    obj.proposal()
                    obj.submit_accept_prob(p)
                    if t["acc"]:
                        obj.add_sample(0.0)
                    got = {"num": obj.num, "avg": float(obj.avg), "var": float(obj.var), "chk": obj.chk_int, "tries": obj.try_count,
                           "nsamp": len(obj.samples) - 1, "nadj": nadj()}
                else:
                    obj.add_probability(p)
                    got = {"num": obj.num, "avg": float(obj.avg), "var": float(obj.var), "chk": obj.chk_int, "tries": 0 if t["acc"] else t["tries"],
                           "nsamp": t["nsamp"], "nadj": nadj()}
                want = {"num": t["num"], "avg": fr(t["avg"]), "var": fr(t["var"]), "chk": t["chk"], "tries": t["tries"], "nsamp": t["nsamp"], "nadj": t["nadj"]}
                bad = [key for key in want if (abs(got[key] - want[key]) > 1e-9 * max(1.0, abs(want[key])))]
                if bad:
                    ck.violation("state of the adaptation after an attempt (running sums, assessment interval, try counter, adjustments so far)",
                                 {**ident, "attempt": k + 1, "probabilities_so_far": [fr(x["p"]) for x in b["trace"][:k + 1]], "differs": bad,
                                  "spec": {key: want[key] for key in bad}, "code": {key: got[key] for key in bad}},
                                 site=("Parameter" if v["use_tries"] else "EpsilonSelector") + ".adaptation")
                    ok = False
                    break
            if ok:
                # the width after all adjustments: quarter cuts and clamped rate-driven factors, in order
                w = 1.0
                for a in b["adj"]:
                    if a["kind"] == "tries":
                        w *= 0.25
                    else:
                        mu = fr(a["mu"])
                        with np.errstate(all="ignore"):
                            f = (np.log(fr(v["target"])) / np.log(mu)) ** v["rate"]
                        w *= max(min(float(f), v["hi"]), v["lo"])
                if not abs(width() - w) <= 1e-9 * w:
                    ck.violation("proposal width / step size after the adjustments the specification made", {**ident, "spec": w, "code": float(width()),
                                                                                                              "adjustments": b["adj"]},
                                 site=("Parameter" if v["use_tries"] else "EpsilonSelector") + ".width")
        ck.traces += len(r.printed)
        if r.printed:
            ck.sample({"variant": name, "attempts": 60, "adjustments_in_first_behaviour": r.printed[0]["adj"][:3]})
    schedule_part(ck, tier)
    return ck.finish()
