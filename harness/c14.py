"""C14 -- burn, thin and interval read-outs select exactly the documented samples.

MC   : Readout.tla -- Select(n, burn, thin) with its length identity for all n <= 14, burn <= 15, thin <= 6 (TLC), and the
       IntervalOK predicate for the highest-density read-out.
S->C : for every sampler class a real chain is grown step by step; at every length every (burn, thin) read-out of
       get_parameter / get_sample / get_probabilities (and the marginal built from them) is compared with the ids TLC printed.
C->S : every get_interval call (all fractions k/8, counts none/1/2/3/6) is recorded as (ids, own-probability ids, ranks,
       dimensions) and validated by ReadoutTrace.tla.
"""
import io
import contextlib
import json
import os
import numpy as np

from harness.core import Check, run_tlc, must_pass, seed, MachineryError, scratch
from harness.c15 import _mk_chain


def _grow(ch, kind):
    with contextlib.redirect_stdout(io.StringIO()):
        if kind == "ensemble":
            ch.advance(1)
        else:
            ch.take_step()


def _match(rows, full):
    """ids of rows in full (exact match, rows unique); None if any row is not a row of the chain"""
    ids = []
    for r in rows:
        hit = np.where((full == r).all(axis=1))[0] if full.ndim == 2 else np.where(full == r)[0]
        if len(hit) != 1:
            return None
        ids.append(int(hit[0]))
    return ids


class _Plateau:
    """log-density with large groups of EQUAL values at distinct points: 0 inside the unit box, outside it the squared distance from the
    box rounded to quarters (so the interval boundary of get_interval falls among ties)"""
    def __call__(self, x):
        x = np.asarray(x, dtype=float)
        d2 = float(np.sum(np.clip(np.abs(x) - 1.0, 0.0, None) ** 2))
        return -0.25 * np.ceil(4.0 * d2)


def ties_part(ck, tier, events, ev_ident):
    """get_interval on chains whose log-probabilities have TIES at the interval boundary: the same events, ranks with equal entries"""
    from inference.mcmc.gibbs import GibbsChain, MetropolisChain
    from inference.mcmc import PcaChain
    post = _Plateau()
    for cname, cls in (("GibbsChain", GibbsChain), ("MetropolisChain", MetropolisChain), ("PcaChain", PcaChain)):
        ch = cls(posterior=post, start=np.array([0.3, -0.2]), widths=np.array([0.9, 0.9]), display_progress=False)
        ch.rng = np.random.default_rng(seed() + 77)
        for j, p_ in enumerate(getattr(ch, "params", []) or []):
            p_.rng = np.random.default_rng(seed() * 31 + 78 + j)
        for n in ((9, 16) if tier == "quick" else (9, 16, 23, 30)):
            while ch.chain_length < n:
                ch.take_step()
            full = np.array(ch.get_sample(burn=0, thin=1), dtype=float)
            fullp = np.array(ch.get_probabilities(burn=0, thin=1), dtype=float)
            if len(np.unique(full, axis=0)) != len(full):
                continue                                     # rows must be distinct for the look-up of returned rows
            levels = sorted(set(fullp.tolist()))
            rank = [levels.index(float(v)) for v in fullp]
            for burn, thin in ((0, 1), (1, 1), (2, 2), (0, 3)):
                for f8 in (1, 2, 3, 5, 6, 7):
                    for m in (0, 2, 5):
                        idn = {"class": cname, "n": n, "burn": burn, "thin": thin, "fraction": f8 / 8, "samples": m or None,
                               "posterior": "plateau (tied log-probabilities)", "distinct_log_probabilities": len(levels)}
                        ck.case(("int-ties", cname, n, burn, thin, f8, m))
                        try:
                            s2, p2 = ch.get_interval(interval=f8 / 8.0, burn=burn, thin=thin, samples=(m or None))
                        except Exception as ex:
                            ck.violation("get_interval raised", {**idn, "error": repr(ex)}, site=f"{cname}.get_interval")
                            continue
                        s2, p2 = np.asarray(s2), np.asarray(p2)
                        ids2 = _match(s2, full) if s2.ndim == 2 else None
                        # a returned log-probability belongs to its row when it is that row's stored value (-3: it is not)
                        pids2 = ([ids2[i] if float(p2[i]) == float(fullp[ids2[i]]) else -3 for i in range(len(ids2))]
                                 if (ids2 is not None and p2.ndim == 1 and len(p2) == len(ids2)) else None)
                        events.append({"n": n, "burn": burn, "thin": thin, "f8": f8, "m": m, "rank": rank,
                                       "ids": ids2 if ids2 is not None else [-1], "pids": pids2 if pids2 is not None else [-2], "ndim": int(s2.ndim)})
                        ev_ident.append({**idn, "sample_shape": list(s2.shape), "probs_shape": list(p2.shape), "ids": ids2, "prob_ids": pids2,
                                         "rank_levels": rank})


def own_part(ck, tier):
    """rows are returned together with their OWN log-probabilities: the posterior is re-evaluated at every returned row"""
    from harness.c03 import GaussPost
    post = GaussPost(2)
    for kind in ("gibbs", "metropolis", "pca", "hmc", "ensemble"):
        for temp in ((1.0,) if kind == "ensemble" else (1.0, 2.5)):
            ch = _mk_chain(kind, 21 + seed())
            if temp != 1.0:
                # the chain classes take the temperature at construction: rebuild through the public constructor
                from inference.mcmc.gibbs import GibbsChain, MetropolisChain
                from inference.mcmc import PcaChain, HamiltonianChain
                start = np.array([0.5, -0.25])
                if kind == "hmc":
                    ch = HamiltonianChain(posterior=post, grad=post.grad, start=start, epsilon=0.3, temperature=temp, display_progress=False)
                    ch.steps = 3
                else:
                    cls = {"gibbs": GibbsChain, "metropolis": MetropolisChain, "pca": PcaChain}[kind]
                    ch = cls(posterior=post, start=start, widths=np.array([0.5, 0.5]), temperature=temp, display_progress=False)
                ch.rng = np.random.default_rng(5)
                for j, p in enumerate(getattr(ch, "params", []) or []):
                    p.rng = np.random.default_rng(50 + j)
            with contextlib.redirect_stdout(io.StringIO()):
                if kind == "ensemble":
                    ch.advance(3)            # several iterations stored by ONE call
                    ch.advance(2)
                else:
                    ch.advance(12)
            cname = type(ch).__name__
            ck.case(("own", kind, temp))
            for label, (rows, prbs) in (("get_sample/get_probabilities", (ch.get_sample(burn=0), ch.get_probabilities(burn=0))),
                                        ("get_sample/get_probabilities thinned", (ch.get_sample(burn=1, thin=3), ch.get_probabilities(burn=1, thin=3))),
                                        ("get_interval", ch.get_interval(interval=0.6, burn=1, thin=2))):
                rows, prbs = np.asarray(rows, dtype=float), np.asarray(prbs, dtype=float)
                want = np.array([post(r) / temp for r in rows])
                if rows.shape[0] != prbs.shape[0] or not np.allclose(prbs, want, rtol=1e-12, atol=1e-12):
                    bad = int(np.argmax(np.abs(prbs - want))) if rows.shape[0] == prbs.shape[0] else 0
                    ck.violation("read-outs stay aligned row for row: every returned log-probability is the row's own (posterior / temperature)",
                                 {"class": cname, "temperature": temp, "readout": label, "row": rows[bad].tolist() if len(rows) else None,
                                  "returned_logprob": float(prbs[bad]) if len(prbs) else None, "own_logprob": float(want[bad]) if len(want) else None},
                                 site=f"{cname}.own_logprob")
                    break


def returned_arrays_part(ck, tier):
    """repeated read-outs return the same values, and a read-out made after the current point was replaced (as the tempering worker does)
    shows the replacement, aligned with its log-probability.  (Whether a returned array is a view of the stored chain is not part of
    the property: the ensemble sampler returns views at the pinned commit.)"""
    from harness.c03 import GaussPost
    for kind in ("gibbs", "metropolis", "pca", "hmc", "ensemble"):
        ch = _mk_chain(kind, 29 + seed())
        cname = type(ch).__name__
        ck.case(("returned-arrays", kind))
        try:
            with contextlib.redirect_stdout(io.StringIO()):
                ch.advance(3 if kind == "ensemble" else 9)
            p0 = np.array(ch.get_probabilities(burn=0), dtype=float).copy()
            s0 = np.array(ch.get_sample(burn=0), dtype=float).copy()
            p1, s1 = np.asarray(ch.get_probabilities(burn=0), dtype=float), np.asarray(ch.get_sample(burn=0), dtype=float)
            ok = np.array_equal(p1, p0) and np.array_equal(s1, s0)
            ok2 = True
            if kind != "ensemble":
                newpt = np.array([0.125, -0.375])
                ch.replace_last(newpt)
                ch.probs[-1] = GaussPost(2)(newpt) * ch.inv_temp
                p2, s2 = np.asarray(ch.get_probabilities(burn=0), dtype=float), np.asarray(ch.get_sample(burn=0), dtype=float)
                ok2 = bool(np.array_equal(s2[-1], newpt) and p2[-1] == GaussPost(2)(newpt) * ch.inv_temp and np.array_equal(p2[:-1], p0[:-1]))
        except Exception as ex:
            ck.violation("read-out raised", {"class": cname, "error": repr(ex)[:200]}, site=f"{cname}.readout")
            continue
        if not ok:
            ck.violation("repeated read-outs return the same values", {"class": cname}, site=f"{cname}.readout:repeat")
        if not ok2:
            ck.violation("a read-out made after the current point was replaced shows the replacement, aligned with its log-probability",
                         {"class": cname}, site=f"{cname}.readout:after-replacement")


def reload_part(ck, tier):
    """read-outs of a sampler that was saved and reloaded are those of the original (every burn / thin of a small grid, and get_interval)"""
    import tempfile
    from harness.c03 import GaussPost
    for kind in ("gibbs", "metropolis", "pca", "hmc", "ensemble"):
        ch = _mk_chain(kind, 23 + seed())
        cname = type(ch).__name__
        try:
            with contextlib.redirect_stdout(io.StringIO()):
                ch.advance(3 if kind == "ensemble" else 11)
                with tempfile.TemporaryDirectory() as d:
                    ch.save(d + "/c.npz")
                    post = GaussPost(2)
                    ch2 = type(ch).load(d + "/c.npz", posterior=post, **({"grad": post.grad} if kind == "hmc" else {}))
        except Exception as ex:
            ck.violation("save / load raised", {"class": cname, "error": repr(ex)[:200]}, site=f"{cname}.load")
            continue
        for burn in (0, 1, 4, 12, 40):
            for thin in (1, 2, 5):
                ck.case(("reload-readout", kind, burn, thin))
                try:
                    a = (np.asarray(ch.get_sample(burn=burn, thin=thin)), np.asarray(ch.get_probabilities(burn=burn, thin=thin)),
                         np.asarray(ch.get_parameter(1, burn=burn, thin=thin)))
                    b = (np.asarray(ch2.get_sample(burn=burn, thin=thin)), np.asarray(ch2.get_probabilities(burn=burn, thin=thin)),
                         np.asarray(ch2.get_parameter(1, burn=burn, thin=thin)))
                except Exception as ex:
                    ck.violation("read-out of a reloaded sampler raised", {"class": cname, "burn": burn, "thin": thin, "error": repr(ex)[:200]},
                                 site=f"{cname}.readout")
                    continue
                if not all(x.shape == y.shape and np.array_equal(x, y) for x, y in zip(a, b)):
                    ck.violation("read-outs of a saved and reloaded sampler return the same entries burn, burn+thin, ... as the original",
                                 {"class": cname, "burn": burn, "thin": thin, "shapes_original": [list(x.shape) for x in a],
                                  "shapes_reloaded": [list(y.shape) for y in b]}, site=f"{cname}.readout:reloaded")


def run(tier):
    ck = Check("C14", tier)
    ck.rule = ("one case per (sampler class, chain length, burn, thin) read-out compared with the TLC selection, and one per "
               "(class, length, burn, thin, fraction, count) get_interval call validated by TLC; all distinct")
    ck.assumptions = ["rows and log-probabilities of the test chains are pairwise distinct (continuous draws), so ids can be recovered by matching"]
    maxn = 10 if tier == "quick" else 14
    r = run_tlc("MC_Readout", cfg_text=("INIT Init\nNEXT Next\nCONSTANTS MaxN = %d MaxBurn = %d MaxThin = %d\nINVARIANT LenIdentity\n"
                                        "INVARIANT Ascending\nINVARIANT InRange\nCHECK_DEADLOCK FALSE\n" % (maxn, maxn + 1, 4 if tier == "quick" else 6)))
    if r.violated:
        ck.violation("spec: Readout " + ",".join(r.violated), {"violated": r.violated}, site="spec")
    must_pass(r, "MC_Readout")
    ck.tlc(r, "readout_select")
    # tied log-probabilities: IsTop / InSomeTop (what ReadoutTrace evaluates) against their definitions on every rank assignment with ties
    nl = (4, 4) if tier == "quick" else (5, 5)
    r2 = run_tlc("MC_ReadoutTies", cfg_text="INIT Init\nNEXT Next\nCONSTANTS N = %d L = %d\n" % nl, timeout=1500)
    must_pass(r2, "MC_ReadoutTies")
    ck.tlc(r2, "readout_ties_predicates")
    ck.count("readout_ties_predicates", "rank_assignments_with_ties", sum(nl[1] ** n for n in range(1, nl[0] + 1)))
    table = {(p["n"], p["burn"], p["thin"]): p["ids"] for p in r.printed}
    events = []
    ev_ident = []
    rng = np.random.default_rng(seed() + 5)
    for kind in ("gibbs", "metropolis", "pca", "hmc", "ensemble"):
        ch = _mk_chain(kind, 11 + seed())
        cname = type(ch).__name__
        n_now = 0 if kind == "ensemble" else 1
        while True:
            if n_now >= 1 and n_now <= maxn:
                full = np.array(ch.get_sample(burn=0, thin=1), dtype=float)            # (copies: a sampler may hand out views of its store)
                fullp = np.array(ch.get_probabilities(burn=0, thin=1), dtype=float)
                d = full.shape[1] if full.ndim == 2 else 1
                if len(fullp) != n_now or len(full) != n_now:
                    ck.violation("full read-out has the chain's length", {"class": cname, "n": n_now, "samples": len(full), "probs": len(fullp)},
                                 site=f"{cname}.get_sample")
                rank = [int(x) for x in np.argsort(np.argsort(fullp))]
                for (n, burn, thin), ids in table.items():
                    if n != n_now:
                        continue
                    ident = {"class": cname, "n": n, "burn": burn, "thin": thin}
                    ck.case(("sel", kind, n, burn, thin))
                    try:
                        smp = np.asarray(ch.get_sample(burn=burn, thin=thin))
                        prb = np.asarray(ch.get_probabilities(burn=burn, thin=thin))
                        pars = [np.asarray(ch.get_parameter(i, burn=burn, thin=thin)) for i in range(d)]
                    except Exception as ex:
                        ck.violation("read-out raised", {**ident, "error": repr(ex)}, site=f"{cname}.readout")
                        continue
                    cnt = len(ids)
                    shapes_ok = (smp.shape[:1] == (cnt,) and prb.shape == (cnt,) and all(p.shape == (cnt,) for p in pars)
                                 and (cnt == 0 or smp.shape == (cnt, d)))
                    if not shapes_ok:
                        ck.violation("first dimension of every read-out = number of retained samples (0, 1, 2, ... included)",
                                     {**ident, "retained": cnt, "sample_shape": list(smp.shape), "probs_shape": list(prb.shape),
                                      "parameter_shapes": [list(p.shape) for p in pars]}, site=f"{cname}.readout_shape")
                        continue
                    if cnt:
                        want_s, want_p = full[ids], fullp[ids]
                        ok = (np.array_equal(smp, want_s) and np.array_equal(prb, want_p)
                              and all(np.array_equal(pars[i], want_s[:, i]) for i in range(d)))
                        if not ok:
                            got = _match(smp, full)
                            ck.violation("read-outs return exactly entries burn, burn+thin, ... aligned row for row",
                                         {**ident, "spec_ids": ids, "sample_ids": got, "prob_ids": _match(prb, fullp)},
                                         site=f"{cname}.readout")
                            continue
                    # marginal estimates are built from exactly those values
                    if cnt >= 4 and thin <= 2 and burn <= 2:
                        import warnings
                        for uni in (False, True):
                            try:
                                with np.errstate(all="ignore"), warnings.catch_warnings():
                                    warnings.simplefilter("ignore")
                                    mg = ch.get_marginal(d - 1, burn=burn, thin=thin, unimodal=uni)
                                ms = getattr(mg, "sample", None)      # internals are optional observations (DESIGN 2g)
                                if ms is not None and not np.array_equal(np.sort(np.asarray(ms).ravel()), np.sort(full[ids][:, d - 1])):
                                    ck.violation("marginal estimate is built from exactly the selected values",
                                                 {**ident, "unimodal": uni, "estimator_sample_size": int(np.asarray(ms).size), "selected": cnt},
                                                 site=f"{cname}.get_marginal")
                            except Exception as ex:
                                if not uni:
                                    ck.violation("get_marginal raised", {**ident, "error": repr(ex)}, site=f"{cname}.get_marginal")
                        # building a marginal estimate is a read-out: the chain reads the same afterwards
                        if not (np.array_equal(np.asarray(ch.get_sample(burn=0, thin=1), dtype=float), full)
                                and np.array_equal(np.asarray(ch.get_probabilities(burn=0, thin=1), dtype=float), fullp)
                                and np.array_equal(np.asarray(ch.get_parameter(d - 1, burn=burn, thin=thin), dtype=float), full[ids][:, d - 1])):
                            ck.violation("read-outs return exactly entries burn, burn+thin, ... of the chain (also after a marginal estimate was built from them)",
                                         {**ident, "parameter": d - 1}, site=f"{cname}.get_marginal:chain-modified")
                            full = np.array(ch.get_sample(burn=0, thin=1), dtype=float)
                    # get_interval
                    if thin <= 3 and (burn <= 3 or burn >= n - 1):
                        for f8 in ((0, 2, 5, 7, 8) if tier == "quick" else range(0, 9)):         # the boundary fractions 0 and 1 included
                            for m in (0, 1, 2, 3, 6):
                                idn = {**ident, "fraction": f8 / 8, "samples": m or None}
                                ck.case(("int", kind, n, burn, thin, f8, m))
                                try:
                                    s2, p2 = ch.get_interval(interval=f8 / 8.0, burn=burn, thin=thin, samples=(m or None))
                                except Exception as ex:
                                    ck.violation("get_interval raised", {**idn, "error": repr(ex)}, site=f"{cname}.get_interval")
                                    continue
                                s2, p2 = np.asarray(s2), np.asarray(p2)
                                ids2 = _match(s2, full) if s2.ndim == 2 else None
                                pids2 = _match(p2, fullp) if p2.ndim == 1 else None
                                events.append({"n": n, "burn": burn, "thin": thin, "f8": f8, "m": m, "rank": rank,
                                               "ids": ids2 if ids2 is not None else [-1], "pids": pids2 if pids2 is not None else [-2],
                                               "ndim": int(s2.ndim)})
                                ev_ident.append({**idn, "sample_shape": list(s2.shape), "probs_shape": list(p2.shape), "ids": ids2, "prob_ids": pids2})
            if n_now >= maxn:
                break
            _grow(ch, kind)
            n_now = int(ch.chain_length)
        ck.sample({"part": "readout", "class": cname, "example": {"n": maxn, "burn": 2, "thin": 3, "spec_ids": table[(maxn, 2, 3)]}})
    own_part(ck, tier)
    ties_part(ck, tier, events, ev_ident)
    d = scratch("c14_")
    path = os.path.join(d, "trace.ndjson")
    with open(path, "w") as fh:
        for e in events:
            fh.write(json.dumps(e) + "\n")
    rt = run_tlc("ReadoutTrace", workers=1, env={"TRACE_FILE": path}, timeout=1500)
    if rt.error or rt.violated or any("REJECTED" in x for x in rt.raw_printed):
        raise MachineryError("ReadoutTrace: %s %s" % (rt.error, rt.violated))
    ck.tlc(rt, "interval_traces")
    ck.traces += len(events)
    import re
    bad = sorted({int(m.group(1)) - 1 for x in rt.raw_printed for m in [re.match(r'<<"BAD", (\d+)>>', x)] if m})
    for i in bad[:300]:
        ck.violation("IntervalOK: rows with their own log-probabilities, all from the requested top fraction, 2-D, at most the requested count",
                     ev_ident[i], site=f"{ev_ident[i]['class']}.get_interval")
    reload_part(ck, tier)
    returned_arrays_part(ck, tier)
    from harness import c03
    c03.readonly_part(ck, tier)             # read-outs leave the chain as it was; the recorded start is the point that was given
    c03.interrupted_part(ck, tier)          # read-outs stay aligned when a step was interrupted by an exception of the posterior
    from harness import c03 as _c03
    _c03.defaults_part(ck, tier)                 # default-argument read-outs are aligned row for row
    from harness import repotests
    repotests.run_part(ck, "C14")          # traces of the repository's own MCMC tests, judged by TestRunTrace.tla
    return ck.finish()
