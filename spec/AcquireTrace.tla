---- MODULE AcquireTrace ----
(* C18, code -> spec: the real GpOptimiser observed after every call *)
EXTENDS Integers, Sequences, FiniteSets, TLC, TLCExt, Json, IOUtils
Log == ndJsonDeserialize(IOEnv.TRACE_FILE)
VARIABLES l, ys
Ev == Log[l]
MaxOf(s) == LET S == {s[i] : i \in 1..Len(s)} IN CHOOSE m \in S : \A t \in S : t <= m
TraceInit == TLCSet(1, 1) /\ l = 1 /\ ys = <<>>
NewYs == CASE Ev.ev = "Init" -> Ev.ys [] Ev.ev = "Add" -> Append(ys, Ev.y) [] OTHER -> ys
Valid == CASE Ev.ev = "Init" -> /\ Ev.n = Len(Ev.ys) /\ Ev.gp_n = Len(Ev.ys) /\ Ev.mu_max = MaxOf(Ev.ys) /\ Ev.caller_unchanged
                               /\ (IF "acq_ok" \in DOMAIN Ev THEN Ev.acq_ok ELSE TRUE)      \* the optimiser's acquisition is the one it was configured with
           [] Ev.ev = "Propose" -> Ev.inside /\ Ev.n = Len(ys) /\ Ev.caller_unchanged            \* every proposal inside the search bounds
           [] Ev.ev = "Add" -> /\ Ev.n = Len(ys) + 1 /\ Ev.gp_n = Len(ys) + 1                     \* the next model is fitted to the data including the new point
                               /\ Ev.last_y = Ev.y /\ Ev.last_x_ok
                               /\ Ev.errs_aligned                                                 \* data errors stay aligned with their points (old ones, then the new one)
                               /\ Ev.mu_max = MaxOf(Append(ys, Ev.y))                             \* incumbent maximum updated
                               /\ Ev.caller_unchanged                                             \* caller's arrays (values and shapes) untouched
           \* "Other": ANOTHER optimiser was constructed and used in between -- this one's data, model and incumbent are what they were
           [] Ev.ev = "Other" -> Ev.n = Len(ys) /\ Ev.gp_n = Len(ys) /\ Ev.mu_max = MaxOf(ys) /\ Ev.own_model
           [] OTHER -> FALSE
TraceNext == l <= Len(Log) /\ l' = l + 1 /\ (IF Valid THEN TRUE ELSE PrintT(<<"BAD", l>>)) /\ ys' = NewYs
TraceSpec == TraceInit /\ [][TraceNext]_<<l, ys>>
Progress == TLCSet(1, IF l > TLCGet(1) THEN l ELSE TLCGet(1))
TraceAccepted == IF TLCGet(1) = Len(Log) + 1 THEN TRUE ELSE PrintT(<<"REJECTED at line", TLCGet(1)>>) /\ FALSE
====
