"""PdfTable.tla: tabulated-density traces of the real estimators (C19, UnimodalPdf and GaussianKDE on continuous samples).

The family of samples is enumerated by TLC (MC_PdfFamily.tla): deterministic quantile samples x_i = Q((i + 1/2)/n) of unimodal shapes
(symmetric, skewed either way, moderately heavy-tailed), shuffled with a fixed permutation, under affine maps x -> a x + b with a from
1e-6 to 1e6 and locations up to 2e4 standard deviations from zero.  For every member the real estimator is fitted and tabulated, the
table is judged clause by clause by PdfTable.tla, and the read-outs of the affine images are compared with those of the unmapped sample
(covariance clause).
"""
import json
import math
import os
import warnings
import numpy as np

from harness.core import run_tlc, must_pass, seed, scratch, MachineryError

U = 2 ** 20
NCELL = 256
FRACTIONS = (0.3, 0.68, 0.95)


def quantile_sample(shape, n):
    from scipy import stats
    d = {"normal": stats.norm(), "gamma4": stats.gamma(4.0), "neggamma3": stats.gamma(3.0), "t8": stats.t(8.0), "logistic": stats.logistic(),
         "lognormal": stats.lognorm(0.5), "skewnormal": stats.skewnorm(4.0), "t5": stats.t(5.0), "spike": None}[shape]
    if shape == "spike":
        # a narrow tall peak, off the centre of a broad base (still unimodal): 80 % N(0.37, 0.02^2) + 20 % N(0, 1)
        from scipy import stats as _st
        n1 = (4 * n) // 5
        x = np.sort(np.concatenate([0.37 + 0.02 * _st.norm().ppf((np.arange(n1) + 0.5) / n1), _st.norm().ppf((np.arange(n - n1) + 0.5) / (n - n1))]))
        x = (x - x.mean()) / x.std()
        np.random.default_rng(12345).shuffle(x)
        return x
    x = d.ppf((np.arange(n) + 0.5) / n)
    if shape.startswith("neg"):
        x = -x
    x = (x - x.mean()) / x.std()
    np.random.default_rng(12345).shuffle(x)                                   # fixed permutation: part of the family's definition
    return x


def build(kind, sample):
    with warnings.catch_warnings(), np.errstate(all="ignore"):
        warnings.simplefilter("ignore")
        if kind == "unimodal":
            from inference.pdf.unimodal import UnimodalPdf
            return UnimodalPdf(sample)
        from inference.pdf.kde import GaussianKDE
        if kind == "kde_2d":
            return GaussianKDE(sample.reshape(4, -1))           # the sample handed over as four stacked chains
        if kind == "kde_cv_sub":
            return GaussianKDE(sample, cross_validation=True, max_cv_samples=100)      # cross-validation on a sub-sample
        return GaussianKDE(sample, cross_validation=(kind == "kde_cv"))


def q(v, unit=1.0):
    r = v / unit
    if not math.isfinite(r) or abs(r) > 2 ** 27:
        return 2 ** 27 if (r > 0 or not math.isfinite(r)) else -2 ** 27       # (products of a few of these stay inside 32 bits)
    return int(round(r))


def own_moments(est, lo, hi, centre, scale):
    """moments of the estimator's own density, integrated from __call__ with an independent adaptive quadrature, in scale units"""
    from scipy.integrate import quad

    def integ(k, c, a, b):
        pts = sorted({min(max(float(est.mode), a), b)}) if np.isfinite(a) and np.isfinite(b) else None
        f = lambda z: float(np.squeeze(est(np.array([centre + scale * z])))) * scale * (z - c) ** k
        if np.isfinite(a):
            return quad(f, a, b, limit=400, points=pts, epsabs=1e-12, epsrel=1e-10)[0]
        m = (float(est.mode) - centre) / scale
        return sum(quad(f, s, e, limit=400, epsabs=1e-12, epsrel=1e-10)[0] for s, e in ((-np.inf, m - 8), (m - 8, m), (m, m + 8), (m + 8, np.inf)))
    a, b = ((lo - centre) / scale, (hi - centre) / scale) if lo is not None else (-np.inf, np.inf)
    m0 = integ(0, 0.0, a, b)
    mu = integ(1, 0.0, a, b) / m0
    v = integ(2, mu, a, b) / m0
    sk = integ(3, mu, a, b) / m0 / v ** 1.5
    ku = integ(4, mu, a, b) / m0 / v ** 2 - 3.0
    return mu, v, sk, ku


def tabulate(est, kind, sample, rng, smooth=True):
    """the record judged by PdfTable.tla, and the normalised read-outs used by the covariance clause"""
    from scipy.integrate import quad
    lo, hi = float(est.lwr_limit), float(est.upr_limit)
    ncell = NCELL if smooth else 16 * NCELL               # a density with a narrow peak is tabulated sixteen times finer
    x = np.linspace(lo, hi, ncell + 1)
    dx = (hi - lo) / ncell
    perm = rng.permutation(x.size)
    with warnings.catch_warnings(), np.errstate(all="ignore"):
        warnings.simplefilter("ignore")
        p = np.empty(x.size)
        F = np.empty(x.size)
        p[perm] = np.asarray(est(x[perm]), dtype=float)                       # one array call, points in shuffled order
        F[perm] = np.asarray(est.cdf(x[perm]), dtype=float)
        Fs = [[int(i) + 1, q(float(np.squeeze(est.cdf(np.array([x[i]])))) * U)] for i in range(8, x.size, 16)]
        Fs += [[int(i) + 1, q(float(np.squeeze(est.cdf(float(x[i])))) * U)] for i in range(16, x.size, 64)]      # scalar argument
        # whole-number query points inside the range, as an integer array and as a Python int: what the equal floats give
        ints = np.arange(math.ceil(lo + 0.25 * (hi - lo)), math.floor(hi - 0.25 * (hi - lo)) + 1)
        if 1 <= ints.size <= 200:
            Ff = np.atleast_1d(np.asarray(est.cdf(ints.astype(float)), dtype=float))
            Fi = np.atleast_1d(np.asarray(est.cdf(ints.astype(int)), dtype=float))
            F1 = float(np.squeeze(est.cdf(int(ints[0]))))
            pi_ = np.atleast_1d(np.asarray(est(ints.astype(int)), dtype=float))
            pf_ = np.atleast_1d(np.asarray(est(ints.astype(float)), dtype=float))
            int_ok = bool(np.array_equal(Fi, Ff) and F1 == Ff[0] and np.array_equal(pi_, pf_))
        else:
            int_ok = True
        sd = float(np.std(sample))
        mean = float(np.mean(sample))
        f = lambda z: float(np.squeeze(est(np.array([z]))))
        span = hi - lo
        out = quad(f, lo - 60 * span, lo, limit=400)[0] + quad(f, hi, hi + 60 * span, limit=400)[0]
        pm = float(np.squeeze(est(np.array([float(est.mode)]))))
        # the neighbourhood of the reported mode, resolved finely: one standard deviation either side in 512 steps,
        # each density expressed relative to the density at the mode in units of 2^-26
        xl = float(est.mode) + sd * np.linspace(-1.0, 1.0, 513)
        Pl = [q(v / pm * 2 ** 26) if pm > 0 else 2 ** 30 for v in np.asarray(est(xl), dtype=float)]
        iv, ends = [], []
        for fr in FRACTIONS:
            a, b = (float(v) for v in est.interval(fr))
            Fa, Fb = (float(v) for v in est.cdf(np.array([a, b])))
            pa, pb = (float(v) for v in est(np.array([a, b])))
            iv.append([q(fr * U), q(Fa * U), q(Fb * U), q(pa * dx * U), q(pb * dx * U)])
            ends += [(a - mean) / sd, (b - mean) / sd]
        mu, var, skw, kur = (float(v) for v in est.moments())
        mr = own_moments(est, lo, hi, mean, sd)
        mw = own_moments(est, None, None, mean, sd)
    M = 4096.0
    mo = {"mean": q((mu - mean) / sd * M), "var": q(var / sd ** 2 * M), "skew": q(skw * M), "kurt": q(kur * M),
          "mean_r": q(mr[0] * M), "var_r": q(mr[1] * M), "skew_r": q(mr[2] * M), "kurt_r": q(mr[3] * M),
          "mean_w": q(mw[0] * M), "var_w": q(mw[1] * M), "skew_w": q(mw[2] * M), "kurt_w": q(mw[3] * M)}
    rec = {"int_ok": int_ok, "smooth": bool(smooth), "mtol": 4 if kind == "unimodal" else 1000, "P": [q(v * dx * U) for v in p], "F": [q(v * U) for v in F], "Fs": Fs, "out": q(out * U), "pm": q(pm * dx * U), "Pl": Pl, "iv": iv, "mo": mo}
    norm = {"mean": (mu - mean) / sd, "var": var / sd ** 2, "skew": skw, "kurt": kur, "ends": ends, "p_mode": pm * sd,
            "limits": [(lo - mean) / sd, (hi - mean) / sd]}
    return rec, norm


# covariance clause: read-outs of the affine image against those of the unmapped sample, in units of the data's own scale.
# GaussianKDE is a deterministic function of the sample: the bands are those of its own quadrature / mode / interval searches.
# UnimodalPdf is a maximum-likelihood fit of a six-parameter curve by Nelder-Mead; its likelihood surface has several optima of almost
# equal height (log-likelihood per point within 5e-3) and which one is found changes when the data are moved (measured on the pinned
# tree: interval(0.3) ends 0.17 std apart for the skewed shapes).  That non-uniqueness is outside what a specification can decide, so
# for UnimodalPdf the bands are wide: they still separate it by orders of magnitude from the defect the property speaks of (read-outs
# that lose all accuracy far from zero: mean -180 instead of 3).
COV_TOL = {"kde_cv_sub": {}, "kde_2d": {}, "kde_cv": {"mean": 2e-3, "var": 2e-2, "skew": 2e-2, "kurt": 6e-2, "ends": 2e-2, "p_mode": 2e-2},
           "kde": {"mean": 2e-3, "var": 5e-3, "skew": 1e-2, "kurt": 3e-2, "ends": 5e-3, "p_mode": 3e-3},
           "unimodal": {"mean": 0.1, "var": 0.15, "skew": 0.3, "kurt": 1.0, "ends": 0.3, "p_mode": 0.1}}


def run_part(ck, tier, kinds=("unimodal", "kde", "kde_cv", "kde_cv_sub", "kde_2d")):
    r = run_tlc("MC_PdfFamily", cfg_text='INIT Init\nNEXT Next\nCONSTANT Tier = "%s"\nCHECK_DEADLOCK FALSE\n' % tier, timeout=600)
    must_pass(r, "MC_PdfFamily")
    ck.tlc(r, "pdf_family")
    fam = r.printed
    rng = np.random.default_rng(seed() + 19)
    recs, idents, base = [], [], {}
    fam.sort(key=lambda d: (d["kind"], d["shape"], d["n"], abs(d["alog10"]) + abs(d["bsd"])))       # the unmapped member first
    for d in fam:
        if d["kind"] not in kinds:
            continue
        a = 10.0 ** d["alog10"]
        z = quantile_sample(d["shape"], d["n"])
        sample = a * z + a * d["bsd"]
        ident = {"estimator": {"unimodal": "UnimodalPdf", "kde": "GaussianKDE", "kde_cv": "GaussianKDE(cross_validation=True)", "kde_cv_sub": "GaussianKDE(cross_validation=True, max_cv_samples=100)", "kde_2d": "GaussianKDE(sample as a (4, n/4) array)"}[d["kind"]], "shape": d["shape"], "n": d["n"], "a": a,
                 "b_in_std": d["bsd"], "sample": "a * standardised quantile sample (fixed permutation) + a * b_in_std"}
        cname = ident["estimator"]
        ck.case((d["kind"], d["shape"], d["n"], d["alog10"], d["bsd"]))
        try:
            est = build(d["kind"], sample)
            rec, norm = tabulate(est, d["kind"], sample, rng, smooth=(d["shape"] != "spike"))      # the spike is narrower than a cell
        except Exception as ex:
            ck.violation("density estimator raised on a unimodal sample", {**ident, "error": repr(ex)[:300]}, site=f"{cname}")
            continue
        recs.append(rec)
        idents.append({**ident, "read_outs_in_scale_units": norm})
        key = (d["kind"], d["shape"], d["n"])
        if d["alog10"] == 0 and d["bsd"] == 0:
            base[key] = norm
        elif key in base:
            b0 = base[key]
            bad = {}
            for k, tol in COV_TOL[d["kind"]].items():
                v0, v1 = np.atleast_1d(b0[k]), np.atleast_1d(norm[k])
                err = np.abs(v1 - v0) / (np.maximum(np.abs(v0), 1.0) if k in ("var", "p_mode") else 1.0)
                if not np.all(err <= tol):
                    bad[k] = {"unmapped": v0.tolist(), "mapped": v1.tolist()}
            if bad:
                ck.violation("covariance under x -> a x + b: locations and interval ends shift and scale, variance scales quadratically, "
                             "shape moments unchanged", {**ident, "differs": bad}, site=f"{cname}:covariance")
    d_ = scratch("pdftab_")
    path = os.path.join(d_, "trace.ndjson")
    with open(path, "w") as fh:
        for e in recs:
            fh.write(json.dumps(e) + "\n")
    rt = run_tlc("PdfTable", cfg_text="SPECIFICATION TraceSpec\nCONSTRAINT Progress\nPOSTCONDITION TraceAccepted\nCHECK_DEADLOCK FALSE\n",
                 workers=1, env={"TRACE_FILE": path}, timeout=900)
    if rt.error or rt.violated or any("REJECTED" in x for x in rt.raw_printed):
        raise MachineryError("PdfTable: %s %s" % (rt.error, (rt.stdout or "")[-500:]))
    ck.tlc(rt, "pdf_tables")
    ck.traces += len(recs)
    for rec in rt.printed:
        i = rec["bad"] - 1
        idn = idents[i]
        for clause in rec["clauses"]:
            detail = dict(idn)
            e = recs[i]
            if "interval" in clause:
                detail["intervals_[fU, F(a)U, F(b)U, p(a)dxU, p(b)dxU]"] = e["iv"]
                detail["p_mode_dxU"] = e["pm"]
            elif "moments" in clause:
                detail["moments_units_2^-12"] = e["mo"]
            elif "integrates" in clause or "cdf" in clause:
                detail["F_first_last"] = [e["F"][0], e["F"][-1]]
                detail["outside_U"] = e["out"]
                detail["table_integral_U"] = int(sum((a + b) // 2 for a, b in zip(e["P"][:-1], e["P"][1:])))
            ck.violation(clause, detail, site=f"{idn['estimator']}:{clause.split('(')[0].strip()}")
    if recs:
        ck.sample({"part": "pdf_tables", "member": {k: v for k, v in idents[0].items()}, "table_cells": NCELL,
                   "spec_units": "2^-20 of probability"})
