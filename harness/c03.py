"""C03 -- stored log-probabilities always belong to the stored samples.

MC   : ProbsBelong / LenAgree / ArgMax in Samplers.tla, Ensemble.tla (walkers and stored rows), HmcStep.tla, Tempering.tla
       (under exchanges); Ownership.tla (UserArraysUnchanged, NonInterference over every interleaving of two samplers built
       from one array; the aliasing variant is refuted by TLC).
S->C : multi-step TLC behaviours (-simulate, seeded) replayed into Metropolis / Gibbs / PCA / HMC / ensemble with the full
       (sample, probability) history compared at the end of every behaviour and mode() checked against ArgMax;
       every Ownership interleaving replayed on every sampler class built from shared arrays.
C->S : real ParallelTempering runs with forced exchanges validated by PTTrace.tla (ProbsBelong in every state) and the
       returned chains checked at every index.
"""
import copy
import json
import numpy as np

from harness.core import Check, run_tlc, must_pass, seed, MachineryError
from harness import samplers as S
from harness import c01, ensemble, hmcstep, c08
from harness import pt as PT


class GaussPost:
    def __init__(self, n):
        self.c = np.linspace(0.3, 1.1, n)

    def __call__(self, x):
        x = np.asarray(x, dtype=float)
        return float(-0.5 * np.sum((x - self.c) ** 2 / 0.7))

    def grad(self, x):
        return -(np.asarray(x, dtype=float) - self.c) / 0.7


def _mk(cls_name, arrays, sd):
    """construct a sampler of the given class from the SHARED arrays; returns (sampler, stepper)"""
    from inference.mcmc.gibbs import GibbsChain, MetropolisChain
    from inference.mcmc import PcaChain, HamiltonianChain, EnsembleSampler
    n = arrays["start"].size
    post = GaussPost(n)
    if cls_name == "EnsembleSampler":
        ch = EnsembleSampler(posterior=post, starting_positions=arrays["walkers"], bounds=(arrays["lower"], arrays["upper"]),
                             display_progress=False)
        ch.rng = np.random.default_rng(sd)
        return ch, (lambda: ch.advance(1)), (lambda: (ch.walker_positions.copy(),) + ((ch.get_sample().copy(), ch.get_probabilities().copy()) if ch.chain_length > 0 else ()))
    if cls_name == "HamiltonianChain":
        ch = HamiltonianChain(posterior=post, grad=post.grad, start=arrays["start"], bounds=(arrays["lower"], arrays["upper"]),
                              inverse_mass=arrays["inv_mass"], epsilon=0.2, display_progress=False)
        ch.steps = 5
    elif cls_name == "PcaChain":
        ch = PcaChain(posterior=post, start=arrays["start"], widths=arrays["widths"], bounds=(arrays["lower"], arrays["upper"]),
                      display_progress=False)
    else:
        cls = GibbsChain if cls_name == "GibbsChain" else MetropolisChain
        ch = cls(posterior=post, start=arrays["start"], widths=arrays["widths"], display_progress=False)
    ch.rng = np.random.default_rng(sd)
    for j, p in enumerate(getattr(ch, "params", []) or []):
        p.rng = np.random.default_rng(sd * 31 + j)
    return ch, ch.take_step, (lambda: (ch.get_sample(burn=0).copy(), ch.get_probabilities(burn=0).copy()))


def _arrays():
    return {"start": np.array([0.5, -0.25, 1.5]), "widths": np.array([0.4, 0.3, 0.5]),
            "lower": np.array([-3.0, -3.0, -3.0]), "upper": np.array([4.0, 4.0, 4.0]),
            "inv_mass": np.array([1.0, 2.0, 0.5]),
            "walkers": np.array([[0.5, -0.25, 1.5], [1.0, 0.5, 0.0], [-1.0, 2.0, 0.7], [0.2, 0.1, -0.6], [2.0, -1.0, 1.0]])}


def reload_part(ck, tier):
    """ProbsBelong across save / load: a tempered sampler (T = 2.5) is advanced, saved, reloaded and advanced again; every stored
    log-probability -- before and after the reload -- is the posterior at its own sample divided by T"""
    import tempfile
    from inference.mcmc.gibbs import GibbsChain, MetropolisChain
    from inference.mcmc import PcaChain, HamiltonianChain
    T = 2.5
    n = 3
    post = GaussPost(n)
    lo, hi = np.full(n, -3.0), np.full(n, 4.0)
    st, wd = np.array([0.5, -0.25, 1.5]), np.array([0.4, 0.3, 0.5])
    makers = {
        "GibbsChain": lambda: GibbsChain(posterior=post, start=st.copy(), widths=wd.copy(), temperature=T, display_progress=False),
        "MetropolisChain": lambda: MetropolisChain(posterior=post, start=st.copy(), widths=wd.copy(), temperature=T, display_progress=False),
        "PcaChain": lambda: PcaChain(posterior=post, start=st.copy(), widths=wd.copy(), bounds=(lo, hi), temperature=T, display_progress=False),
        "HamiltonianChain": lambda: HamiltonianChain(posterior=post, grad=post.grad, start=st.copy(), bounds=(lo, hi), epsilon=0.2, temperature=T,
                                                     display_progress=False)}
    for cname, mk in makers.items():
        ck.case(("reload", cname))
        try:
            ch = mk()
            ch.advance(6)
            with tempfile.TemporaryDirectory() as d:
                path = d + "/chain.npz"
                ch.save(path)
                kw = {"grad": post.grad} if cname == "HamiltonianChain" else {}
                ch2 = type(ch).load(path, posterior=post, **kw)
            ch2.advance(6)
            S, P = np.asarray(ch2.get_sample(burn=0), dtype=float), np.asarray(ch2.get_probabilities(burn=0), dtype=float)
        except Exception as ex:
            ck.violation("save / load / advance of a tempered sampler raised", {"class": cname, "error": repr(ex)[:300]}, site=f"{cname}.load")
            continue
        want = np.array([post(x) / T for x in S])
        bad = [int(k) for k in range(len(P)) if not abs(P[k] - want[k]) <= 1e-12 * max(1.0, abs(want[k]))]
        if len(P) != 13 or bad:
            ck.violation("ProbsBelong at every index of a chain that was saved, reloaded and advanced (temperature 2.5)",
                         {"class": cname, "length": len(P), "first_bad_index": bad[:1], "stored": [float(P[k]) for k in bad[:1]],
                          "posterior_over_T": [float(want[k]) for k in bad[:1]], "saved_at_length": 7}, site=f"{cname}.load:ProbsBelong")


def short_trajectory_part(ck, tier):
    """HamiltonianChain with the shortest trajectories (chain.steps = 1, 2, 3: zero to three leap-frog steps per proposal, so the loop of
    the integrator runs not at all or once): after EVERY step ProbsBelong at every index, rows recorded earlier unchanged, the mode a
    recorded sample of maximal recorded log-probability, the caller's start array unchanged"""
    from inference.mcmc import HamiltonianChain
    n = 3
    post = GaussPost(n)
    for steps in (1, 2, 3):
        for bounded in (False, True):
            for T in (1.0, 3.0):
                ck.case(("short-trajectory", steps, bounded, T))
                ident = {"class": "HamiltonianChain", "chain.steps": steps, "bounds": bounded, "temperature": T}
                start = np.array([0.5, -0.25, 1.5])
                keep = start.copy()
                try:
                    kw = {"bounds": (np.full(n, -3.0), np.full(n, 4.0))} if bounded else {}
                    ch = HamiltonianChain(posterior=post, grad=post.grad, start=start, epsilon=0.3, temperature=T, display_progress=False, **kw)
                    ch.rng = np.random.default_rng(seed() + 900 + steps)
                    ch.steps = steps
                    prev_S = np.asarray(ch.get_sample(burn=0), dtype=float).reshape(-1, n).copy()
                    bad = None
                    for k in range(25 if tier == "quick" else 80):
                        ch.take_step()
                        S = np.asarray(ch.get_sample(burn=0), dtype=float).reshape(-1, n).copy()
                        P = np.asarray(ch.get_probabilities(burn=0), dtype=float).ravel().copy()
                        want = np.array([post(x) / T for x in S])
                        wrong = [int(i) for i in range(len(P)) if not abs(P[i] - want[i]) <= 1e-12 * max(1.0, abs(want[i]))]
                        if len(S) != len(prev_S) + 1 or len(P) != len(S):
                            bad = ("one step appends one sample and one log-probability", {"samples": len(S), "log_probabilities": len(P)})
                        elif not np.array_equal(S[:-1], prev_S):
                            bad = ("rows recorded earlier are unchanged by a later step",
                                   {"first_changed_row": int(np.flatnonzero(np.any(S[:-1] != prev_S, axis=1))[0])})
                        elif wrong:
                            bad = ("ProbsBelong at every index", {"first_bad_index": wrong[0], "stored": float(P[wrong[0]]), "posterior_over_T": float(want[wrong[0]])})
                        else:
                            m = np.asarray(ch.mode(), dtype=float).ravel()
                            rows = [i for i in range(len(S)) if np.array_equal(S[i], m)]
                            if not rows or not any(P[i] == P.max() for i in rows):
                                bad = ("the mode is a recorded sample whose recorded log-probability is the maximum", {"mode": m.tolist()})
                        if bad:
                            bad[1]["after_step"] = k + 1
                            break
                        prev_S = S
                    if bad is None and not np.array_equal(start, keep):
                        bad = ("the caller's start array is unchanged", {"start_now": start.tolist()})
                except Exception as ex:
                    ck.violation("a HamiltonianChain with short trajectories raised", {**ident, "error": repr(ex)[:300]}, site="HamiltonianChain.take_step:short")
                    continue
                if bad:
                    ck.violation(bad[0] + " (HamiltonianChain with zero to three leap-frog steps per proposal)", {**ident, **bad[1]},
                                 site="HamiltonianChain.take_step:short")


def reload_ensemble_part(ck, tier):
    """ProbsBelong and history integrity of the ensemble sampler across save / load / advance"""
    import tempfile
    from inference.mcmc import EnsembleSampler
    post = GaussPost(3)
    ck.case(("reload", "EnsembleSampler"))
    try:
        ch = EnsembleSampler(posterior=post, starting_positions=_arrays()["walkers"].copy(), display_progress=False)
        ch.rng = np.random.default_rng(5 + seed())
        ch.advance(4)
        S0, P0 = np.array(ch.get_sample(), dtype=float).copy(), np.array(ch.get_probabilities(), dtype=float).copy()
        with tempfile.TemporaryDirectory() as d:
            ch.save(d + "/ens.npz")
            ch2 = EnsembleSampler.load(d + "/ens.npz", posterior=post)
        ch2.rng = np.random.default_rng(6 + seed())
        ch2.advance(4)
        S, P = np.asarray(ch2.get_sample(), dtype=float), np.asarray(ch2.get_probabilities(), dtype=float)
    except Exception as ex:
        ck.violation("save / load / advance of the ensemble sampler raised", {"error": repr(ex)[:300]}, site="EnsembleSampler.load")
        return
    want = np.array([post(x) for x in S])
    bad = [int(k) for k in range(len(P)) if not abs(P[k] - want[k]) <= 1e-12 * max(1.0, abs(want[k]))]
    kept = S.shape[0] == 2 * S0.shape[0] and np.array_equal(S[:S0.shape[0]], S0) and np.array_equal(P[:P0.shape[0]], P0)
    if bad or not kept:
        ck.violation("ProbsBelong at every row of an ensemble that was saved, reloaded and advanced; rows recorded before the save are unchanged",
                     {"rows": int(S.shape[0]), "first_bad_row": bad[:1], "rows_before_save_unchanged": bool(kept)}, site="EnsembleSampler.load:ProbsBelong")


def defaults_part(ck, tier):
    """the read-outs with their DEFAULT arguments are aligned: the k-th log-probability belongs to the k-th sample"""
    from inference.mcmc.gibbs import GibbsChain, MetropolisChain
    from inference.mcmc import PcaChain, HamiltonianChain, EnsembleSampler
    post = GaussPost(3)
    arrays = _arrays()
    for cls_name in ("GibbsChain", "MetropolisChain", "PcaChain", "HamiltonianChain", "EnsembleSampler"):
        ck.case(("defaults", cls_name))
        try:
            ch, step, _ = _mk(cls_name, _arrays(), 19 + seed())
            for _ in range(7):
                step()
            S, P = np.asarray(ch.get_sample(), dtype=float), np.asarray(ch.get_probabilities(), dtype=float)
            par = np.asarray(ch.get_parameter(1), dtype=float)
        except Exception as ex:
            ck.violation("read-out with default arguments raised", {"class": cls_name, "error": repr(ex)[:200]}, site=f"{cls_name}.readout")
            continue
        T_inv = 1.0 if cls_name == "EnsembleSampler" else ch.inv_temp
        ok = S.shape[0] == P.shape[0] == par.shape[0] and all(abs(P[k] - post(S[k]) * T_inv) <= 1e-12 * max(1.0, abs(P[k])) for k in range(len(P))) \
            and np.array_equal(par, S[:, 1])
        if not ok:
            ck.violation("read-outs with default arguments are aligned: the k-th log-probability is the posterior at the k-th sample",
                         {"class": cls_name, "samples": int(S.shape[0]), "log_probabilities": int(P.shape[0]), "parameter_values": int(par.shape[0])},
                         site=f"{cls_name}.readout:defaults")


def dtype_part(ck, tier):
    # The abstract state has no dtype: a sampler built from whole-number inputs given as INTEGER arrays evolves exactly like the one built
    # from the equal float arrays (same generators).  (An integer start must not turn the chain into an integer chain.)
    for cls_name in ("GibbsChain", "MetropolisChain", "PcaChain", "HamiltonianChain", "EnsembleSampler"):
        fl = {"start": np.array([1.0, -2.0, 3.0]), "widths": np.array([0.4, 0.3, 0.5]), "lower": np.array([-3.0, -3.0, -3.0]),
              "upper": np.array([4.0, 4.0, 4.0]), "inv_mass": np.array([1.0, 2.0, 0.5]),
              "walkers": np.array([[1.0, -2.0, 3.0], [1.0, 0.0, 0.0], [-1.0, 2.0, 1.0], [0.0, 1.0, -2.0], [2.0, -1.0, 1.0]])}
        it = dict(fl, start=fl["start"].astype(int), walkers=fl["walkers"].astype(int), lower=fl["lower"].astype(int), upper=fl["upper"].astype(int))
        # ... and as single-precision arrays: the chain itself runs in double precision
        f32 = dict(fl, start=fl["start"].astype(np.float32), walkers=fl["walkers"].astype(np.float32))
        ck.case(("dtype32", cls_name))
        try:
            a32, b32 = _mk(cls_name, fl, 78 + seed()), _mk(cls_name, f32, 78 + seed())
            for _ in range(12):
                a32[1]()
                b32[1]()
            ra32, rb32 = a32[2](), b32[2]()
            if not all(np.asarray(y).dtype == np.float64 and np.array_equal(np.asarray(x, dtype=float), np.asarray(y, dtype=float)) for x, y in zip(ra32, rb32)):
                ck.violation("a sampler built from single-precision whole-number inputs evolves (in double precision) like the one built from the equal "
                             "double-precision inputs", {"class": cls_name, "dtypes_returned": [str(np.asarray(y).dtype) for y in rb32]},
                             site=f"{cls_name}.__init__:dtype")
        except Exception as ex:
            ck.violation("a sampler built from single-precision inputs raised", {"class": cls_name, "error": repr(ex)[:300]}, site=f"{cls_name}.__init__:dtype")
        ck.case(("dtype", cls_name))
        try:
            a, b = _mk(cls_name, fl, 77 + seed()), _mk(cls_name, it, 77 + seed())
            for _ in range(12):
                a[1]()
                b[1]()
            ra_, rb_ = a[2](), b[2]()
            same = all(np.array_equal(np.asarray(x, dtype=float), np.asarray(y, dtype=float)) for x, y in zip(ra_, rb_))
        except Exception as ex:
            ck.violation("a sampler built from integer-typed whole-number inputs raised", {"class": cls_name, "error": repr(ex)[:300]},
                         site=f"{cls_name}.__init__:dtype")
            continue
        if not same:
            k = -1
            ck.violation("a sampler built from integer-typed inputs evolves like the one built from the equal float inputs (same draws, same samples, "
                         "stored log-probabilities belong to the stored samples)", {"class": cls_name, "last_sample_float_inputs": np.asarray(ra_[0])[k],
                                                                                   "last_sample_integer_inputs": np.asarray(rb_[0])[k]},
                         site=f"{cls_name}.__init__:dtype")


def ownership_part(ck, tier):
    r = run_tlc("MC_Ownership", cfg_text=("SPECIFICATION Spec\nCONSTANTS NS = 2 MaxOps = %d Alias = FALSE\nINVARIANT UserArraysUnchanged\n"
                                          "INVARIANT NonInterference\nINVARIANT Export\nCHECK_DEADLOCK FALSE\n" % (4 if tier == "quick" else 6)))
    if r.violated:
        ck.violation("spec: Ownership " + ",".join(r.violated), {"violated": r.violated}, site="spec")
    must_pass(r, "MC_Ownership")
    ck.tlc(r, "ownership_model")
    ra = run_tlc("MC_Ownership", cfg="MC_OwnershipAlias.cfg")
    if ra.error:
        raise MachineryError("MC_OwnershipAlias: " + ra.error)
    ck.parts["ownership_model"]["aliasing_variant_refuted_by_tlc"] = bool(ra.violated)
    orders = sorted({tuple(p["order"]) for p in r.printed})
    for cls_name in ("GibbsChain", "MetropolisChain", "PcaChain", "HamiltonianChain", "EnsembleSampler"):
        for order in orders:
            shared = _arrays()
            before = copy.deepcopy(shared)
            seeds = {1: 101 + seed(), 2: 202 + seed()}
            built = {s: _mk(cls_name, shared, seeds[s]) for s in (1, 2)}
            for s in order:
                built[s][1]()
            ident = {"class": cls_name, "interleaving": list(order)}
            ck.case(("own", cls_name, order))
            for k in shared:
                if not (np.array_equal(shared[k], before[k]) and shared[k].shape == before[k].shape):
                    ck.violation("UserArraysUnchanged: the arrays the samplers were built from are left unchanged",
                                 {**ident, "array": k, "before": before[k], "after": shared[k]}, site=f"{cls_name}.__init__:ownership")
            for s in (1, 2):
                solo = _mk(cls_name, _arrays(), seeds[s])
                for t in order:
                    if t == s:
                        solo[1]()
                a, b = built[s][2](), solo[2]()
                if not all(np.array_equal(x, y) for x, y in zip(a, b)):
                    ck.violation("NonInterference: a sampler evolves as if it were alone (same draws, same samples)",
                                 {**ident, "sampler": s}, site=f"{cls_name}.__init__:ownership")
    # replacements: sampler 1 replaces its current (= starting) point; the shared arrays and sampler 2 are untouched
    for cls_name in ("GibbsChain", "MetropolisChain", "PcaChain", "HamiltonianChain"):
        shared = _arrays()
        before = copy.deepcopy(shared)
        a, b = _mk(cls_name, shared, 11 + seed()), _mk(cls_name, shared, 12 + seed())
        ck.case(("own-replace", cls_name))
        try:
            newpt = np.array([2.0, 2.5, -1.0])
            a[0].replace_last(newpt)                        # as the tempering worker does: the point, then its log-probability
            a[0].probs[-1] = GaussPost(3)(newpt) * a[0].inv_temp
            mode_ok = True
            for phase in (0, 1):                            # right after the replacement, and after the next step
                if phase:
                    a[1]()
                smp, prb = a[2]()
                smp, prb = np.asarray(smp, dtype=float), np.asarray(prb, dtype=float)
                md = np.asarray(a[0].mode(), dtype=float)
                mode_ok = mode_ok and bool(np.array_equal(md, smp[int(np.argmax(prb))]) or
                                           any(np.array_equal(md, smp[k]) and prb[k] == prb.max() for k in range(len(prb))))
            sb, pb_ = b[2]()
            post_b = GaussPost(shared["start"].size)
            ok_arrays = all(np.array_equal(shared[k], before[k]) for k in shared)
            ok_other = np.array_equal(np.asarray(sb, dtype=float)[0], before["start"]) and abs(float(np.asarray(pb_)[0]) - post_b(before["start"])) <= 1e-12
        except Exception as ex:
            ck.violation("replace_last / take_step raised", {"class": cls_name, "error": repr(ex)[:300]}, site=f"{cls_name}.replace_last")
            continue
        try:
            # the same on a chain with a history: a replacement that beats every recorded point, then one that is worse than all
            for k in range(4):
                a[1]()
            for newpt in (np.linspace(0.3, 1.1, 3), np.array([9.0, -9.0, 9.0])):
                a[0].replace_last(newpt.copy())
                a[0].probs[-1] = GaussPost(3)(newpt) * a[0].inv_temp
                for phase in (0, 1, 2):
                    if phase:
                        a[1]()
                    smp, prb = a[2]()
                    smp, prb = np.asarray(smp, dtype=float), np.asarray(prb, dtype=float)
                    md = np.asarray(a[0].mode(), dtype=float)
                    mode_ok = mode_ok and any(np.array_equal(md, smp[k]) and prb[k] == prb.max() for k in range(len(prb)))
        except Exception as ex:
            ck.violation("replace_last / take_step / mode raised", {"class": cls_name, "error": repr(ex)[:300]}, site=f"{cls_name}.replace_last")
        if not mode_ok:
            ck.violation("ModeIsArgmax: after the current point was replaced (as an exchange does) mode() is still a recorded sample of maximal recorded log-probability",
                         {"class": cls_name}, site=f"{cls_name}.mode:after-replacement")
        if not ok_arrays:
            ck.violation("UserArraysUnchanged: the arrays the samplers were built from are left unchanged (after a replacement of the current point)",
                         {"class": cls_name, "start_before": before["start"], "start_after": shared["start"]}, site=f"{cls_name}.__init__:ownership")
        if not ok_other:
            ck.violation("NonInterference: replacing the current point of one sampler leaves the other sampler's recorded start and its log-probability alone",
                         {"class": cls_name, "other_first_sample": np.asarray(sb, dtype=float)[0], "start": before["start"]}, site=f"{cls_name}.__init__:ownership")
    dtype_part(ck, tier)
    ck.count("ownership_model", "interleavings_replayed_per_class", len(orders))
    ck.sample({"part": "ownership", "interleaving": list(orders[len(orders) // 2]), "classes": 5})


def readonly_part(ck, tier):
    """read-outs do not change the chain, and the caller's start array is the caller's: after every kind of read-out (and after the caller
    re-used its start array for something else) the stored rows and their log-probabilities read as before and still belong together"""
    from inference.mcmc import GibbsChain, PcaChain, HamiltonianChain, EnsembleSampler
    from inference.mcmc.gibbs import MetropolisChain
    post = GaussPost(3)
    for name in ("GibbsChain", "MetropolisChain", "PcaChain", "HamiltonianChain", "EnsembleSampler"):
        ens = name == "EnsembleSampler"
        start = np.random.default_rng(2).normal(size=(7, 3)) if ens else np.array([0.1, 0.2, 0.3])
        keep_start = start.copy()
        ck.case(("readonly", name))
        try:
            if ens:
                ch = EnsembleSampler(posterior=post, starting_positions=start, display_progress=False)
            elif name == "HamiltonianChain":
                ch = HamiltonianChain(posterior=post, grad=post.grad, start=start, display_progress=False)
            else:
                ch = {"GibbsChain": GibbsChain, "MetropolisChain": MetropolisChain, "PcaChain": PcaChain}[name](posterior=post, start=start, widths=np.full(3, 0.5),
                                                                                                                  display_progress=False)
            start += 5.0                                   # the caller re-uses its array for something else
            start *= -3.0
            ch.rng = np.random.default_rng(seed() + 9)
            ch.advance(12 if ens else 60)
            b0 = {} if ens else {"burn": 0}
            full = np.array(ch.get_sample(**b0), dtype=float)
            fullp = np.array(ch.get_probabilities(**b0), dtype=float)
            first_ok = ens or np.array_equal(full[0], keep_start)
            import warnings
            with warnings.catch_warnings(), np.errstate(all="ignore"):
                warnings.simplefilter("ignore")
                for kw in (dict(interval=0.9), dict(interval=0.5, burn=3, thin=2), dict(interval=0.95, samples=10), dict(interval=1.0), dict(interval=0.3, burn=0)):
                    ch.get_interval(**kw)
                for i in range(3):
                    ch.get_parameter(i, **b0)
                    ch.get_marginal(i, burn=2, thin=1)
                ch.mode()
            again = np.array(ch.get_sample(**b0), dtype=float)
            againp = np.array(ch.get_probabilities(**b0), dtype=float)
            belong = all(abs(post(r) - q) <= 1e-9 * (1 + abs(q)) for r, q in zip(again, againp))
            same_p = np.array_equal(againp, fullp)
        except Exception as ex:
            ck.violation("read-out raised", {"class": name, "error": repr(ex)[:300]}, site=f"{name}.readout")
            continue
        if not first_ok:
            ck.violation("the recorded starting point is the point the sampler was given, whatever the caller does with its array afterwards",
                         {"class": name, "given": keep_start, "recorded_first_sample": full[0]}, site=f"{name}.__init__:ownership")
        if not (same_p and belong and np.array_equal(again, full)):
            ck.violation("ProbsBelong after read-outs: get_interval / get_marginal / get_parameter / mode leave the stored log-probabilities with their own rows",
                         {"class": name, "probabilities_unchanged": bool(same_p), "rows_still_belong": bool(belong)}, site=f"{name}.get_interval:chain-modified")


class _Boom(Exception):
    pass


class _CrashPost(GaussPost):
    """the posterior raises at its k-th evaluation after being armed (a failing model evaluation, a keyboard interrupt)"""
    def __init__(self, n):
        super().__init__(n)
        self.n_calls, self.k = 0, None

    def __call__(self, x):
        self.n_calls += 1
        if self.k is not None and self.n_calls == self.k:
            raise _Boom()
        return super().__call__(x)


def interrupted_part(ck, tier):
    """every crash point of a step: the posterior raises at its k-th evaluation inside a step; the caller catches the exception and carries on.
    The chain must still read consistently: as many samples as log-probabilities as chain_length, every parameter read-out of that length,
    every stored log-probability the (tempered) posterior at its own row -- right after the interruption and after further steps"""
    from inference.mcmc import GibbsChain, PcaChain, HamiltonianChain, EnsembleSampler
    from inference.mcmc.gibbs import MetropolisChain
    st = np.array([0.1, 0.2, 0.3])

    def mk(name, post, T):
        kw = dict(posterior=post, display_progress=False)
        if name == "EnsembleSampler":
            return EnsembleSampler(starting_positions=np.random.default_rng(1).normal(size=(7, 3)), **kw)
        if name == "HamiltonianChain":
            return HamiltonianChain(grad=post.grad, start=st.copy(), temperature=T, **kw)
        cls = {"GibbsChain": GibbsChain, "MetropolisChain": MetropolisChain, "PcaChain": PcaChain}[name]
        return cls(start=st.copy(), widths=np.full(3, 0.5), temperature=T, **kw)
    for name in ("GibbsChain", "MetropolisChain", "PcaChain", "HamiltonianChain", "EnsembleSampler"):
        for T in ((1.0,) if name == "EnsembleSampler" else (1.0, 2.0)):
            for k in range(1, (10 if tier == "quick" else 24)):
                post = _CrashPost(3)
                ch = mk(name, post, T)
                ens = name == "EnsembleSampler"
                step = (lambda: ch.advance(1)) if ens else ch.take_step
                if hasattr(ch, "rng"):
                    ch.rng = np.random.default_rng(seed() + k)
                for _ in range(3):
                    step()
                post.n_calls, post.k = 0, k
                try:
                    step()
                    continue                                   # the step needed fewer evaluations: no interruption happened
                except _Boom:
                    pass
                except Exception as ex:
                    ck.violation("an exception of the posterior inside a step surfaced as another error", {"class": name, "evaluation": k, "error": repr(ex)[:200]},
                                 site=f"{name}.take_step:interrupted")
                    continue
                post.k = None
                ck.case(("interrupted", name, T, k))
                try:
                    for phase in (0, 1):
                        if phase:
                            step()
                            step()
                        smp = np.asarray(ch.get_sample() if ens else ch.get_sample(burn=0), dtype=float)
                        prb = np.asarray(ch.get_probabilities() if ens else ch.get_probabilities(burn=0), dtype=float)
                        pars = [np.asarray(ch.get_parameter(i) if ens else ch.get_parameter(i, burn=0), dtype=float) for i in range(3)]
                        ok = (len(smp) == len(prb) == int(ch.chain_length) and all(len(p) == len(prb) for p in pars)
                              and all(np.array_equal(pars[i], smp[:, i]) for i in range(3))
                              and all(abs(GaussPost(3)(r) / T - q) <= 1e-9 * (1 + abs(q)) for r, q in zip(smp, prb)))
                        if ens:
                            ok = ok and all(abs(GaussPost(3)(r) - q) <= 1e-9 * (1 + abs(q)) for r, q in zip(np.asarray(ch.walker_positions, dtype=float),
                                                                                                              np.asarray(ch.walker_probs, dtype=float)))
                        if not ok:
                            ck.violation("LenAgree / ProbsBelong / aligned read-outs after a step that was interrupted by an exception of the posterior",
                                         {"class": name, "temperature": T, "posterior_evaluation_that_raised": k, "when": ["right after", "two steps later"][phase],
                                          "samples": len(smp), "probabilities": len(prb), "chain_length": int(ch.chain_length), "parameter_lengths": [len(p) for p in pars]},
                                         site=f"{name}.take_step:interrupted")
                            break
                except Exception as ex:
                    ck.violation("read-out or further step raised after a step that was interrupted by an exception of the posterior",
                                 {"class": name, "temperature": T, "posterior_evaluation_that_raised": k, "error": repr(ex)[:300]}, site=f"{name}.take_step:interrupted")


def pt_part(ck, tier, unforced=False):
    s = seed()
    scen = [("c03_n3", dict(temps=[1, 2, 4], starts=[[-3, 4], [4, -3], [0, 1]], kind="gibbs", display=True, seed=s + 31, force="accept",
                            prog=[["steps", 2], ["swap"], ["return"], ["steps", 3], ["swap"], ["swap"], ["steps", 1], ["return"], ["shutdown"]],
                            delays=[0.0, 0.0, 0.0]))]
    # a ladder that is NOT sorted by temperature (allowed, only warned about): every chain keeps its own temperature
    scen.append(("c03_unsorted", dict(temps=[1, 4, 2], starts=[[-3, 4], [4, -3], [0, 1]], kind="gibbs", display=False, seed=s + 34, force="accept",
                                      prog=[["steps", 1], ["swap"], ["steps", 2], ["swap"], ["steps", 1], ["return"], ["shutdown"]],
                                      delays=[0.0, 0.0, 0.0])))
    if unforced:
        # the exchange decision itself (C01: accept with probability min(1, exp((b_i - b_j)(E_i - E_j)))) needs the real,
        # quantised draws, here placed next to the powers of two where the decision changes; four levels so that pairs two and
        # three rungs apart are proposed as well
        scen.append(("c01_n4_draws", dict(temps=[1, 1, 2, 4], starts=[[-3, 4], [4, -3], [0, 1], [3, 3]], kind="gibbs", display=False,
                                          seed=s + 33, force="edge", prog=[["steps", 1]] + [["swap"], ["steps", 1]] * (10 if tier == "quick" else 40)
                                          + [["return"], ["shutdown"]], delays=[0.0] * 4)))
        # ... and a ladder NOT sorted by temperature with every draw ON the acceptance threshold of the pair it decides
        scen.append(("c01_unsorted_threshold", dict(temps=[4, 1, 2], starts=[[-3, 4], [4, -3], [0, 1]], kind="gibbs", display=False, seed=s + 35,
                                                    force="threshold", prog=[["steps", 1]] + [["swap"], ["steps", 1]] * 6 + [["return"], ["shutdown"]],
                                                    delays=[0.0] * 3)))
    if tier == "thorough":
        scen.append(("c03_n4_pca", dict(temps=[1, 2, 2, 4], starts=[[-3, 4], [4, -3], [0, 1], [3, 3]], kind="pca", display=False,
                                        seed=s + 32, prog=[["advance", 40, 3], ["return"], ["shutdown"]], delays=[0.0] * 4)))
    for label, a in scen:
        sc = c08.run_scenario(a)
        ck.case(("pt", label))
        if sc["hung"] or sc["result"] is None or sc["result"]["error"]:
            ck.violation("ParallelTempering run failed", {"scenario": label, "error": (sc["result"] or {}).get("error"),
                                                          "stdout": sc["stdout"][-500:]}, site="ParallelTempering.call")
            continue
        ok, st, r, rejected = c08.validate_trace(ck, a, sc, label)
        ck.traces += 1
        if not ok:
            ck.violation("exchange rule (accept iff u <= exp((b_i - b_j)(E_i - E_j))) / ProbsBelong / hand-over: trace of a real run rejected by PTTrace.tla",
                         {"scenario": label, "tlc": rejected or r.violated}, site="ParallelTempering.swap")
        else:
            ck.count("pt_exchanges", "accepted_with_different_energies", st["nontrivial_accepted"])
        # every index of every returned chain
        tab = PT.etable(a.get("eoffset", 0))
        for ri, ret in enumerate(sc["result"]["returned"]):
            for w, c in enumerate(ret):
                beta4 = int(round(4 / c["T"]))
                for k, (x, tp4) in enumerate(zip(c["sample"], c["tp4"])):
                    e = sum(tab[v - PT.WLO] for v in x)
                    if tp4 != e * beta4:
                        ck.violation("ProbsBelong at every index of the returned chains (including points installed by an exchange)",
                                     {"scenario": label, "return": ri, "worker": w + 1, "index": k, "sample": x,
                                      "stored_tp4": tp4, "energy*beta4": e * beta4}, site="ParallelTempering.swap")
                        break
        ck.sample({"part": "pt", "scenario": label, "exchange_stats": st, "returned_lengths": [c["n"] for c in sc["result"]["returned"][-1]]})


def run(tier):
    ck = Check("C03", tier)
    ck.rule = ("one case per distinct multi-step TLC behaviour replayed into a real sampler with its complete (sample, probability) "
               "history compared; one per (sampler class, interleaving) for ownership; one per real tempering run")
    ck.assumptions = ["lattice posteriors: stored log-probability * T / -ln2 must be the integer energy of the stored sample",
                      "adaptation frozen; draws scripted from TLC's choices"]
    c01.replay_part(ck, tier, "multi_step")
    if tier == "thorough":
        c01.replay_part(ck, tier, "single_step")
    ensemble.run_part(ck, tier)
    hmcstep.run_part(ck, tier)
    ownership_part(ck, tier)
    reload_part(ck, tier)
    short_trajectory_part(ck, tier)
    reload_ensemble_part(ck, tier)
    defaults_part(ck, tier)
    interrupted_part(ck, tier)
    readonly_part(ck, tier)
    pt_part(ck, tier)
    from harness import repotests
    repotests.run_part(ck, "C03")          # traces of the repository's own MCMC tests, judged by TestRunTrace.tla
    return ck.finish()
