---- MODULE SelectTrace ----
(* C11, code -> spec: recorded outcomes of automatic hyper-parameter selection (both optimisers, both criteria) *)
EXTENDS Integers, Sequences, TLC, TLCExt, Json, IOUtils
Log == ndJsonDeserialize(IOEnv.TRACE_FILE)
VARIABLES l
Ev == Log[l]
TraceInit == TLCSet(1, 1) /\ l = 1
\* InBounds for every run; AtLeastCentre for the default multi-start optimiser (its start points include the centre)
SelectOK == Ev.inbounds /\ (Ev.opt = "bfgs" => Ev.better)
TraceNext == l <= Len(Log) /\ l' = l + 1 /\ (IF SelectOK THEN TRUE ELSE PrintT(<<"BAD", l>>))
TraceSpec == TraceInit /\ [][TraceNext]_l
Progress == TLCSet(1, IF l > TLCGet(1) THEN l ELSE TLCGet(1))
TraceAccepted == IF TLCGet(1) = Len(Log) + 1 THEN TRUE ELSE PrintT(<<"REJECTED at line", TLCGet(1)>>) /\ FALSE
====
