------------------------------- MODULE Limits -------------------------------
(* C04, part 2: the per-parameter limit state machine of the Gibbs-type chains                      *)
(* (set_boundaries / remove / set_non_negative in any order) as DESIRED behaviour: the limits in     *)
(* force are the intersection of every limit that was set and not removed.                          *)
EXTENDS LimitMaps

CONSTANTS Boxes,        \* set of <<lo,hi>> pairs offered to set_boundaries (valid and invalid ones)
          MaxCalls      \* bound on the history length
VARIABLES box, nonneg, hist
lvars == <<box, nonneg, hist>>
NoBox == <<>>

\* the closed region allowed by every limit in force
AllowedLo == IF box = NoBox THEN (IF nonneg THEN 0 ELSE NoLim)
             ELSE (IF nonneg /\ box[1] < 0 THEN 0 ELSE box[1])
AllowedHi == IF box = NoBox THEN NoLim ELSE box[2]
InForce(t) == /\ (IF box = NoBox THEN TRUE ELSE (t >= box[1] /\ t <= box[2]))
              /\ (nonneg => t >= 0)
Satisfiable(b, nn) == IF b = NoBox THEN TRUE ELSE (IF nn THEN b[2] > 0 ELSE TRUE)

LInit == box = NoBox /\ nonneg = FALSE /\ hist = <<>>
Rec(c) == hist' = Append(hist, c)
SetBoundaries(b) == /\ b[1] < b[2] /\ Satisfiable(b, nonneg)
                    /\ box' = b /\ UNCHANGED nonneg /\ Rec(<<"set", b[1], b[2]>>)
SetBoundariesBad(b) == /\ b[1] >= b[2] /\ UNCHANGED <<box, nonneg>>      \* warning, no change
                       /\ Rec(<<"set", b[1], b[2]>>)
RemoveBoundaries == /\ box' = NoBox /\ UNCHANGED nonneg /\ Rec(<<"remove", 0, 0>>)
SetNonNeg(f) == /\ Satisfiable(box, f) /\ nonneg' = f /\ UNCHANGED box
                /\ Rec(<<"nonneg", IF f THEN 1 ELSE 0, 0>>)
SetNonNegBad == /\ UNCHANGED <<box, nonneg>> /\ Rec(<<"nonnegbad", 0, 0>>)   \* non-boolean flag: warning, no change
LNext == /\ Len(hist) < MaxCalls
         /\ \/ \E b \in Boxes : SetBoundaries(b) \/ SetBoundariesBad(b)
            \/ RemoveBoundaries \/ \E f \in BOOLEAN : SetNonNeg(f) \/ SetNonNegBad
LSpec == LInit /\ [][LNext]_lvars

\* properties of the desired machine
RegionNonEmpty == AllowedLo = NoLim \/ AllowedHi = NoLim \/ AllowedLo < AllowedHi
InForceIsRegion == \A t \in -12..12 : InForce(t) <=> ((AllowedLo = NoLim \/ t >= AllowedLo) /\ (AllowedHi = NoLim \/ t <= AllowedHi))
\* a limit stays in force across calls that set or clear OTHER limits
OthersUntouched == [][ /\ (hist'[Len(hist')][1] \in {"nonneg", "nonnegbad"} => box' = box)
                       /\ (hist'[Len(hist')][1] \in {"set", "remove"} => nonneg' = nonneg) ]_lvars
=============================================================================
