"""bookkeeping -- diagnostics counters that no listed property speaks about (extra coverage of the specification).

Ensemble.tla `Counters`: one attempt counter per finished walker update within 1..max_attempts, one failure count per finished iteration,
the counters account for every draw made.  Every TLC behaviour is replayed into the real EnsembleSampler and `total_proposals`,
`failed_updates`, `n_iterations` are compared with the specification's.
PTTrace.tla `att` / `suc` / `StatsSane` / `MStats`: the master's exchange statistics (`attempted_swaps`, `successful_swaps`) read after every
swap / advance call of a real multi-process ParallelTempering run equal the number of times each pair was proposed / exchanged.
"""
from harness.core import Check, seed
from harness import ensemble, c08


def run(tier):
    ck = Check("bookkeeping", tier)
    ck.rule = "one case per replayed Ensemble behaviour (counters compared) and per traced tempering run (statistics events validated)"
    ensemble.run_part(ck, tier, counters=True)
    for k, (temps, prog) in enumerate([([1, 2, 4], [["steps", 2], ["swap"], ["steps", 1], ["swap"], ["swap"], ["shutdown"]]),
                                       ([1, 1, 2, 4, 4], [["advance", 12, 3], ["swap"], ["advance", 7, 2], ["return"], ["shutdown"]])][:(1 if tier == "quick" else 2) + 1]):
        n = len(temps)
        args = dict(temps=temps, starts=[[(-3 + 2 * i) % 5 - 2, (4 - 3 * i) % 5 - 2] for i in range(n)], kind="gibbs", display=False,
                    seed=seed() + 71 + k, force=None, stats=True, prog=prog, delays=[0.0] * n)
        sc = c08.run_scenario(args)
        ck.case(("ptstats", k))
        if sc["hung"] or not sc["result"] or sc["result"].get("error"):
            ck.violation("tempering run failed", {"stdout": sc["stdout"][-500:], "error": (sc["result"] or {}).get("error")}, site="ParallelTempering")
            continue
        ok, st, r, rej = c08.validate_trace(ck, args, sc, "stats%d" % k)
        nst = sum(1 for e in sc["events"] if e.get("ev") == "swapstats")
        ck.count("pt_trace_stats%d" % k, "statistics_events", nst)
        if not ok:
            ck.violation("exchange statistics: attempted_swaps / successful_swaps = proposals / exchanges per pair (trace rejected by PTTrace.tla)",
                         {"temps": temps, "prog": prog, "rejected": rej[:2]}, site="ParallelTempering.swap:statistics")
        ck.traces += 1
    return ck.finish()
