#!/bin/sh
# Offline setup: nothing to build (TLA+ specs are interpreted by TLC; harness is pure Python on /venv).
set -e
cd "$(dirname "$0")"
mkdir -p evidence replays
command -v java >/dev/null
test -f /opt/veriftools/tla/tla2tools.jar
/venv/bin/python -c "import numpy, scipy"
echo "setup ok"
