SPECIFICATION TraceSpec
INVARIANT Inside
CONSTRAINT Progress
POSTCONDITION TraceAccepted
CHECK_DEADLOCK FALSE
