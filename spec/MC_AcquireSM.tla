---- MODULE MC_AcquireSM ----
EXTENDS AcquireSM, Json
MCYInit == <<1, -2, 0>>
MCYNew == {-1, 2, 5}
MCOpts == {"bfgs", "diffev"}
Export == Len(hist) = MaxOps => PrintT(ToJson([hist |-> hist, ys |-> ys, inc |-> Incumbent]))
====
