"""C06 -- priors are normalised, sample from themselves, and compose by index.

MC   : PriorExact.tla -- the three log-densities, gradients, supports, the generator requests that make a draw follow the
       density, and JointPrior routing; TLC enumerates every layout (assignment of <= 3/4 parameter indices to <= 3
       components, every type assignment, component order and index order) with probe vectors inside and outside the support.
S->C : every layout is built with the real prior classes and JointPrior (and Posterior with a Gaussian likelihood): value,
       gradient, cost, cost-gradient, bounds, sampled coordinates and the requests made to the module's generator (recorded
       by a stand-in generator) are compared with the TLC values.
C->S : generate_initial_guesses calls are recorded (ranks by cost, indices returned) and validated by PriorTrace.tla.
"""
import json
import math
import os
import numpy as np

from harness.core import Check, run_tlc, must_pass, seed, MachineryError, scratch
from harness import symlin as SL
from harness.c05 import Lin


class FakeRng:
    """stand-in for inference.priors.rng: records what is asked for and answers as PriorExact.tla's Draw1"""

    def __init__(self):
        self.req = []
        self.k = 0
        self.vary = False

    def _g(self, base):
        if not self.vary:
            return base
        self.k += 1
        return base + 0.37 * ((self.k * 7) % 11 - 5) / 5.0

    def normal(self, loc=0.0, scale=1.0, size=None):
        self.req.append(("normal", np.atleast_1d(loc).tolist(), np.atleast_1d(scale).tolist()))
        return np.asarray(loc, dtype=float) + np.asarray(scale, dtype=float) * self._g(0.5)

    def exponential(self, scale=1.0, size=None):
        self.req.append(("exponential", np.atleast_1d(scale).tolist(), [0.0] * np.atleast_1d(scale).size))
        return np.asarray(scale, dtype=float) * abs(self._g(0.25))

    def uniform(self, low=0.0, high=1.0, size=None):
        self.req.append(("uniform", np.atleast_1d(low).tolist(), np.atleast_1d(high).tolist()))
        f = min(max(self._g(0.75), 0.0), 1.0)
        return np.asarray(low, dtype=float) + (np.asarray(high, dtype=float) - np.asarray(low, dtype=float)) * f


class _Offset:
    """a likelihood plus an additive constant"""
    def __init__(self, like, off):
        self.like, self.off = like, off

    def __call__(self, theta):
        return self.like(theta) + self.off

    def gradient(self, theta):
        return self.like.gradient(theta)

    def cost(self, theta):
        return -(self.like(theta) + self.off)

    def cost_gradient(self, theta):
        return -self.like.gradient(theta)


def fr(q):
    return q[0] / q[1]


def build(layout):
    from inference.priors import GaussianPrior, ExponentialPrior, UniformPrior
    comps = []
    for c in layout:
        vs = c["vars"]
        idx = [v - 1 for v in vs]
        if c["type"] == "G":
            comps.append(GaussianPrior(mean=[float(v) for v in vs], sigma=[2.0 ** (v - 2) for v in vs], variable_indices=idx))
        elif c["type"] == "E":
            comps.append(ExponentialPrior(beta=[2.0 ** (v - 1) for v in vs], variable_indices=idx))
        else:
            comps.append(UniformPrior(lower=[float(-v) for v in vs], upper=[float(v + 2) for v in vs], variable_indices=idx))
    return comps


def run(tier):
    import inference.priors as PR
    from inference.priors import JointPrior
    from inference.posterior import Posterior
    from inference.likelihoods import GaussianLikelihood
    ck = Check("C06", tier)
    ck.rule = "one case per TLC-enumerated (layout, probe vector); distinct by construction"
    ck.assumptions = ["numpy's generators produce the distribution they are asked for (draws are decided by parameter identity)",
                      "hyper-parameters are pairwise distinct functions of the variable index, so a mis-routed entry changes the result"]
    maxv = 3 if tier == "quick" else 4
    r = run_tlc("MC_PriorExact", cfg_text="INIT Init\nNEXT Next\nCONSTANTS MaxVars = %d\nINVARIANT Formed\nCHECK_DEADLOCK FALSE\n" % maxv,
                timeout=2400)
    if r.violated:
        ck.violation("spec: PriorExact", {"violated": r.violated}, site="spec")
    must_pass(r, "MC_PriorExact")
    ck.tlc(r, "prior_reference")
    real_rng = PR.rng
    events = []
    ev_ident = []
    try:
        for c in r.printed:
            layout = c["layout"]
            n = len(c["theta"])
            if c.get("wide"):
                # one component over 48 variables (scales from 2^-1 to 2^46): value and cost of the component alone, of the JointPrior
                # around it, and of the JointPrior built from 48 one-variable components (which merges them)
                theta = np.array([fr(t) for t in c["theta"]])
                ty = layout[0]["type"]
                ident = {"layout": [{"type": ty, "variable_indices": "0..%d" % (n - 1)}], "theta": "at the mean / 0 / 1", "n_variables": n}
                ck.case(("wide", ty))
                PR.rng = FakeRng()
                try:
                    whole = build(layout)[0]
                    singles = build([{"type": ty, "vars": [v]} for v in layout[0]["vars"]])
                    objs = [(type(whole).__name__, whole), ("JointPrior", JointPrior(components=[whole], n_variables=n)),
                            ("JointPrior(of 1-variable components)", JointPrior(components=singles, n_variables=n))]
                    want = SL.value(c["value"])
                    for cname, obj in objs:
                        with np.errstate(all="ignore"):
                            val, cost = float(obj(theta)), float(obj.cost(theta))
                        if not SL.close(val, want, scale=SL.magnitude(c["value"])) or not SL.close(cost, -want, scale=SL.magnitude(c["value"])):
                            ck.violation("value / cost: sum of the component log-densities (normalised) and its exact negative",
                                         {**ident, "class": cname, "want": want, "value": val, "cost": cost}, site=f"{cname.split('(')[0]}.__call__:wide")
                except Exception as ex:
                    ck.violation("prior over many variables raised", {**ident, "error": repr(ex)[:300]}, site="JointPrior.__init__")
                continue
            theta = np.array([fr(t) for t in c["theta"]])
            ident = {"layout": [{"type": x["type"], "variable_indices": [v - 1 for v in x["vars"]]} for x in layout], "theta": theta.tolist()}
            ck.case((json.dumps(layout), json.dumps(c["theta"])))
            fake = FakeRng()
            PR.rng = fake
            try:
                comps = build(layout)
                with np.errstate(all="ignore"):
                    alone_before = [(float(cp(theta)), list(cp.variables)) for cp in comps]
                joint = JointPrior(components=comps, n_variables=n)
            except Exception as ex:
                ck.violation("JointPrior construction of a valid layout raised", {**ident, "error": repr(ex)}, site="JointPrior.__init__")
                continue
            # the components are still themselves after a joint prior was built from them, and can be used again (in another order)
            try:
                with np.errstate(all="ignore"):
                    alone_after = [(float(cp(theta)), list(cp.variables)) for cp in comps]
                    joint_again = JointPrior(components=list(reversed(comps)), n_variables=n)
                    same_joint = float(joint_again(theta)) == float(joint(theta)) or SL.close(float(joint_again(theta)), float(joint(theta)), scale=1e3)
                if alone_after != alone_before or not (same_joint or not c["inside"]):
                    ck.violation("components keep their own indices and values after a JointPrior was built from them; the same components in another "
                                 "order give the same joint prior", {**ident, "components_before": alone_before, "components_after": alone_after},
                                 site="JointPrior.__init__:components")
            except Exception as ex:
                ck.violation("a second JointPrior from the same components (reversed order) raised", {**ident, "error": repr(ex)[:300]},
                             site="JointPrior.__init__:components")
            objs = [("JointPrior", joint)]
            if len(layout) == 1 and sorted(layout[0]["vars"]) == list(range(1, n + 1)):
                objs.append((type(comps[0]).__name__, comps[0]))
            for cname, obj in objs:
                with np.errstate(all="ignore"):
                    val, cost = float(obj(theta)), float(obj.cost(theta))
                    grad, cgrad = np.asarray(obj.gradient(theta), dtype=float), np.asarray(obj.cost_gradient(theta), dtype=float)
                if c["inside"]:
                    want = SL.value(c["value"])
                    if not SL.close(val, want, scale=SL.magnitude(c["value"])) or not SL.close(cost, -want, scale=SL.magnitude(c["value"])):
                        ck.violation("value / cost: sum of the component log-densities (normalised) and its exact negative",
                                     {**ident, "class": cname, "want": want, "value": val, "cost": cost}, site=f"{cname}.__call__")
                else:
                    if not (val <= -1e99 and cost >= 1e99):
                        ck.violation("outside the support the log-density is effectively -infinity", {**ident, "class": cname, "value": val},
                                     site=f"{cname}.__call__")
                # gradient: compared for every coordinate that lies in its own component's support
                wantg = np.array([fr(g) for g in c["grad"]])
                if cname == "JointPrior":
                    order = list(range(n))
                else:
                    order = [v - 1 for v in layout[0]["vars"]]          # a component returns its gradient in its own index order
                    wantg = wantg[order]
                types = {v: x["type"] for x in layout for v in x["vars"]}
                ok = grad.shape == wantg.shape and cgrad.shape == wantg.shape
                if ok:
                    for pos, vi in enumerate(order):
                        t, v = theta[vi], vi + 1
                        insup = (types[v] == "G") or (types[v] == "E" and t >= 0) or (types[v] == "U" and -v <= t <= v + 2)
                        if insup and not (SL.close(grad[pos], wantg[pos]) and SL.close(cgrad[pos], -wantg[pos])):
                            ok = False
                if not ok:
                    ck.violation("gradient / cost-gradient entries routed to the component's own indices",
                                 {**ident, "class": cname, "want": wantg, "gradient": grad, "cost_gradient": cgrad}, site=f"{cname}.gradient")
            # a whole-number parameter vector given as an INTEGER array, and a float array modified in place between calls
            if np.all(theta == np.round(theta)):
                ti = theta.astype(int)
                for cname, obj in objs:
                    with np.errstate(all="ignore"):
                        vf, gf = float(obj(theta)), np.asarray(obj.gradient(theta), dtype=float)
                        vi, gi = float(obj(ti)), np.asarray(obj.gradient(ti), dtype=float)
                        ci_, cgi = float(obj.cost(ti)), np.asarray(obj.cost_gradient(ti), dtype=float)
                    if not (vi == vf and np.array_equal(gi, gf) and ci_ == -vf and np.array_equal(cgi, -gf)):
                        ck.violation("an integer-typed parameter vector gives the value and gradient of the equal float vector",
                                     {**ident, "class": cname, "gradient_float": gf, "gradient_integer": gi}, site=f"{cname}.gradient:dtype")
            import copy as _copy
            for cname, obj in objs:
                # a result handed out earlier is the caller's: it does not change when the object is called again
                with np.errstate(all="ignore"):
                    g_first = obj.gradient(theta)
                    keep_ = np.array(g_first, dtype=float).copy()
                    obj.gradient(theta + 0.5)
                    obj.cost_gradient(theta - 0.25)
                if not np.array_equal(np.asarray(g_first, dtype=float), keep_, equal_nan=True):
                    ck.violation("a gradient returned earlier does not change when the object is evaluated again at another point",
                                 {**ident, "class": cname, "returned_first": keep_, "same_array_later": np.asarray(g_first, dtype=float)},
                                 site=f"{cname}.gradient:returned-buffer")
                th_ = theta.copy()
                ref_ = _copy.deepcopy(obj)           # (the reference values come from a copy that is called only once)
                with np.errstate(all="ignore"):
                    v_a = float(obj(th_))
                    th_ += 0.25
                    v_b, g_b = float(obj(th_)), np.array(obj.gradient(th_), dtype=float)
                    f_b, f_g = float(ref_(th_.copy())), np.array(ref_.gradient(th_.copy()), dtype=float)
                    th_ -= 0.25
                    v_c = float(obj(th_))
                if not (v_b == f_b and np.array_equal(g_b, f_g) and v_c == v_a):
                    ck.violation("value / gradient at the current content of a parameter array modified in place between calls",
                                 {**ident, "class": cname, "after_change": v_b, "fresh_array": f_b, "first": v_a, "after_changing_back": v_c},
                                 site=f"{cname}.__call__:stale-state")
            # bounds
            wantb = [tuple(None if x == "none" else fr(x) for x in b) for b in c["bounds"]]
            gotb = [tuple(None if x is None else float(x) for x in b) for b in joint.bounds]
            if gotb != wantb:
                ck.violation("advertised bounds are the support, routed by index", {**ident, "want": wantb, "got": gotb}, site="JointPrior.bounds")
            # sampling: routed coordinates and the requests actually made
            fake.req.clear()
            smp = np.asarray(joint.sample(), dtype=float)
            wantd = np.array([fr(d) for d in c["draw"]])
            if smp.shape != wantd.shape or not np.allclose(smp, wantd, rtol=1e-12, atol=0):
                ck.violation("sampled coordinates routed to the component's own indices", {**ident, "want": wantd, "got": smp},
                             site="JointPrior.sample")
            want_req = sorted((q["kind"], fr(a), fr(b)) for q in c["requests"] for a, b in zip(q["p1"], q["p2"]))
            got_req = sorted((k, float(a), float(b)) for k, p1, p2 in fake.req for a, b in zip(p1, p2))
            if want_req != got_req:
                ck.violation("draws follow the component's own density (distribution family and parameters asked of the generator)",
                             {**ident, "want": want_req, "got": got_req}, site="Prior.sample")
            # posterior = likelihood + prior (value, gradient, cost, cost-gradient)
            J = [[1.0 if (i + j) % 2 == 0 else -2.0 for j in range(n)] for i in range(2)]
            model = Lin(J, [0.5, -1.0])
            like = GaussianLikelihood(y_data=[1.0, 2.0], sigma=[0.5, 2.0], forward_model=model, forward_model_jacobian=model.jac)
            post = Posterior(likelihood=like, prior=joint)
            with np.errstate(all="ignore"):
                pv, pc = float(post(theta)), float(post.cost(theta))
                pg, pcg = np.asarray(post.gradient(theta)), np.asarray(post.cost_gradient(theta))
                lv, lg = float(like(theta)), np.asarray(like.gradient(theta))
                jv, jg = float(joint(theta)), np.asarray(joint.gradient(theta))
            if not (pv == lv + jv and pc == -(lv + jv) and np.array_equal(pg, lg + jg) and np.array_equal(pcg, -(lg + jg))):
                ck.violation("posterior = likelihood + prior (value, gradient, cost, cost-gradient)",
                             {**ident, "posterior": pv, "likelihood": lv, "prior": jv, "cost": pc}, site="Posterior")
            # the same with every prior object (joint, and the bare component when it covers all variables in order), calling
            # gradient and cost-gradient repeatedly: each call returns likelihood gradient + the reference prior gradient
            wantg_all = np.array([fr(g) for g in c["grad"]])
            types_ = {v: x["type"] for x in layout for v in x["vars"]}
            insup_all = all((types_[v + 1] == "G") or (types_[v + 1] == "E" and theta[v] >= 0) or (types_[v + 1] == "U" and -(v + 1) <= theta[v] <= v + 3)
                            for v in range(n))
            for cname, obj in objs:
                if cname != "JointPrior" and [v - 1 for v in layout[0]["vars"]] != list(range(n)):
                    continue
                if not insup_all:
                    continue
                post2 = Posterior(likelihood=like, prior=obj)
                with np.errstate(all="ignore"):
                    seq = [np.array(post2.gradient(theta), dtype=float), -np.array(post2.cost_gradient(theta), dtype=float),
                           np.array(post2.gradient(theta), dtype=float), -np.array(post2.cost_gradient(theta), dtype=float)]
                    pv2 = [float(post2(theta)), -float(post2.cost(theta)), float(post2(theta))]
                wantp = lg + wantg_all
                if not all(g.shape == wantp.shape and all(SL.close(a, b, scale=10.0) for a, b in zip(g, wantp)) for g in seq) \
                        or not all(SL.close(v, lv + SL.value(c["value"]), scale=SL.magnitude(c["value"]) + abs(lv)) for v in pv2):
                    ck.violation("posterior = likelihood + prior (value, gradient, cost, cost-gradient), on every call",
                                 {**ident, "prior_class": cname, "want_gradient": wantp, "gradient_calls": seq, "value_calls": pv2},
                                 site=f"Posterior:{cname}:repeat")
            # initial guesses: best of the prior draws in increasing cost
            if c["inside"] and len(events) < (400 if tier == "quick" else 3000):
                fake.vary = True
                drawn = []
                orig = joint.sample

                def logged():
                    s = orig()
                    drawn.append(np.array(s, dtype=float))
                    return s
                joint.sample = logged
                ng, ns = (3, 7) if len(events) % 3 else (4, 4)        # also as many guesses as draws: all of them, still in increasing cost
                # every other time the log-likelihood carries a large additive constant (an unnormalised likelihood, or many precise data):
                # exp(log-posterior) would under- or overflow, the ranking by cost is unaffected
                off = (0.0, -3000.0, 0.0, 2500.0)[len(events) % 4]
                post_g = post if off == 0.0 else Posterior(likelihood=_Offset(like, off), prior=joint)
                try:
                    guesses = post_g.generate_initial_guesses(n_guesses=ng, prior_samples=ns)
                except Exception as ex:
                    ck.violation("generate_initial_guesses raised", {**ident, "n_guesses": ng, "prior_samples": ns, "error": repr(ex)[:200]},
                                 site="Posterior.generate_initial_guesses")
                    joint.sample = orig
                    fake.vary = False
                    continue
                costs = [float(post.cost(s)) for s in drawn]
                if len(set(costs)) == len(costs) and len(drawn) == ns:
                    ranks = [int(x) + 1 for x in np.argsort(np.argsort(costs))]
                    ret = []
                    for g in guesses:
                        hit = [i + 1 for i, s in enumerate(drawn) if np.array_equal(s, np.asarray(g, dtype=float))]
                        ret.append(hit[0] if len(hit) == 1 else 0)
                    events.append({"ranks": ranks, "n": ng, "returned": ret})
                    ev_ident.append({**ident, "costs": costs, "returned_indices": ret})
                elif len(drawn) != ns:
                    ck.violation("initial guesses are drawn from the prior (prior_samples draws)", {**ident, "draws": len(drawn)},
                                 site="Posterior.generate_initial_guesses")
                fake.vary = False
            if len(ck.samples) < 4 and len(layout) == 3 and not c["inside"]:
                ck.sample({**ident, "spec_gradient": [fr(g) for g in c["grad"]], "spec_bounds": c["bounds"], "spec_draw": [fr(d) for d in c["draw"]]})
    finally:
        PR.rng = real_rng
    ck.traces += len(r.printed)
    if events:
        d = scratch("c06_")
        path = os.path.join(d, "trace.ndjson")
        with open(path, "w") as fh:
            for e in events:
                fh.write(json.dumps(e) + "\n")
        rt = run_tlc("PriorTrace", workers=1, env={"TRACE_FILE": path}, timeout=600)
        if rt.error or rt.violated or any("REJECTED" in x for x in rt.raw_printed):
            raise MachineryError("PriorTrace: %s %s" % (rt.error, rt.violated))
        ck.tlc(rt, "initial_guess_traces")
        import re
        bad = sorted({int(m.group(1)) - 1 for x in rt.raw_printed for m in [re.match(r'<<"BAD", (\d+)>>', x)] if m})
        for i in bad[:100]:
            ck.violation("GuessOK: initial guesses are the best of the prior draws, in increasing cost", ev_ident[i],
                         site="Posterior.generate_initial_guesses")
    support_part(ck)
    routing_part(ck)
    return ck.finish()


def routing_part(ck):
    """one component over an index list that is neither sorted nor contiguous (also lists whose first and last entries span exactly n - 1):
    value and gradient read and write exactly the listed coordinates, alone and inside a JointPrior"""
    from inference.priors import GaussianPrior, ExponentialPrior, UniformPrior, JointPrior
    theta = np.array([0.3, 1.7, 0.9, 2.2, 1.1, 0.6])
    for idx in ([0, 4, 2], [1, 4, 3], [2, 0, 1], [0, 2, 4], [5, 3], [3, 5, 4, 2], [4, 0, 2, 1]):
        n = len(idx)
        mean, sig = np.linspace(0.5, 1.5, n), np.linspace(0.4, 1.3, n)
        beta = np.linspace(0.7, 2.0, n)
        lo, hi = np.linspace(-1.0, 0.0, n), np.linspace(3.0, 4.5, n)
        t = theta[idx]
        for cname, obj, val, grad in (
                ("GaussianPrior", GaussianPrior(mean=mean, sigma=sig, variable_indices=list(idx)),
                 float(np.sum(-0.5 * ((t - mean) / sig) ** 2 - np.log(sig) - 0.5 * np.log(2 * np.pi))), -(t - mean) / sig ** 2),
                ("ExponentialPrior", ExponentialPrior(beta=beta, variable_indices=list(idx)), float(np.sum(-t / beta - np.log(beta))), -1.0 / beta),
                ("UniformPrior", UniformPrior(lower=lo, upper=hi, variable_indices=list(idx)), float(-np.sum(np.log(hi - lo))), np.zeros(n))):
            ck.case(("routing", cname, tuple(idx)))
            try:
                v = float(obj(theta.copy()))
                g = np.asarray(obj.gradient(theta.copy()), dtype=float)
                rest = [k for k in range(6) if k not in idx]
                jp = JointPrior(components=[obj] + ([GaussianPrior(mean=np.zeros(len(rest)), sigma=np.ones(len(rest)), variable_indices=rest)] if rest else []), n_variables=6)
                gj = np.asarray(jp.gradient(theta.copy()), dtype=float)
            except Exception as ex:
                ck.violation("prior raised on a valid index list", {"class": cname, "variable_indices": idx, "error": repr(ex)[:200]}, site=f"{cname}.routing")
                continue
            if not (abs(v - val) <= 1e-12 * (1 + abs(val)) and g.shape == (n,) and np.allclose(g, grad, rtol=1e-12, atol=1e-12)
                    and np.allclose(gj[idx], grad, rtol=1e-12, atol=1e-12)):
                ck.violation("a component reads its own coordinates theta[variable_indices] (value) and returns its gradient in that order (routing by index)",
                             {"class": cname, "variable_indices": idx, "want_value": val, "got_value": v, "want_gradient": grad, "got_gradient": g,
                              "through_JointPrior": gj[idx]}, site=f"{cname}.routing")


def support_part(ck):
    """the advertised bounds of a uniform prior are its support: ON a bound the normalised value, one unit in the last place outside it nothing --
    for bounds that are not binary fractions, far from zero, tiny, negative"""
    from inference.priors import UniformPrior, JointPrior, GaussianPrior
    for lo, hi in ((0.1, 0.3), (3.13, 7.69), (1.07, 4.72), (1e6 + 0.1, 1e6 + 0.7), (-0.7, -0.1), (-1e-9, 3e-9), (1.0 / 3.0, 2.0 / 3.0), (2.0, 4.0)):
        up = UniformPrior(lower=[lo], upper=[hi], variable_indices=[0])
        jp = JointPrior(components=[UniformPrior(lower=[lo], upper=[hi], variable_indices=[1]), GaussianPrior(mean=[0.0], sigma=[1.0], variable_indices=[0])],
                        n_variables=2)
        g0 = float(GaussianPrior(mean=[0.0], sigma=[1.0], variable_indices=[0])(np.array([0.25])))
        want = -math.log(hi - lo)
        for t, inside in ((lo, True), (hi, True), (np.nextafter(lo, -np.inf), False), (np.nextafter(hi, np.inf), False), (0.5 * (lo + hi), True),
                          (np.nextafter(lo, np.inf), True), (np.nextafter(hi, -np.inf), True)):
            ck.case(("support", lo, hi, float(t)))
            v = float(up(np.array([t])))
            vj = float(jp(np.array([0.25, t])))
            ok = (abs(v - want) <= 1e-12 * max(1.0, abs(want)) and abs(vj - want - g0) <= 1e-12 * max(1.0, abs(want))) if inside else (v < -1e50 and vj < -1e50)
            if not ok:
                ck.violation("the advertised bounds are the support of the uniform prior: -log(width) on and between the bounds, no probability one unit in the last place outside",
                             {"lower": lo, "upper": hi, "theta": float(t), "inside": inside, "value": v, "through_JointPrior": vj, "want_inside": want},
                             site="UniformPrior.__call__:support")
