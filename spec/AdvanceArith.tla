---------------------------- MODULE AdvanceArith ----------------------------
(* C08 / C15 -- the stepping arithmetic of the grouped loops, as coded:                                   *)
(*  ParallelTempering.advance(n, swap_interval): k = 50 progress groups; total_cycles = n div interval;    *)
(*     if k < total_cycles: k = total_cycles, cycles = 1  else cycles = total_cycles div k;               *)
(*     k * cycles cycles, then total_cycles mod k cycles, then n mod interval remaining steps.             *)
(*  MarkovChain.advance(m): 100 groups of m div 100 steps, then m mod 100.                                 *)
(* Property: the number of steps taken is exactly the number requested (EqualAdvance), for every n.        *)
EXTENDS Integers
CONSTANTS MaxN, MaxInterval
VARIABLES n, iv
Init == n \in 0..MaxN /\ iv \in 1..MaxInterval
Next == UNCHANGED <<n, iv>>
K0 == 50
TotalCycles == n \div iv
K == IF K0 < TotalCycles THEN TotalCycles ELSE K0
Cycles == IF K0 < TotalCycles THEN 1 ELSE TotalCycles \div K0
PTSteps == (K * Cycles) * iv + (IF TotalCycles % K # 0 THEN (TotalCycles % K) * iv ELSE 0) + (IF n % iv # 0 THEN n % iv ELSE 0)
PTEqualAdvance == PTSteps = n
PTSwaps == K * Cycles + (IF TotalCycles % K # 0 THEN TotalCycles % K ELSE 0)
PTSwapCount == PTSwaps = TotalCycles
ChainSteps == 100 * (n \div 100) + (IF n % 100 # 0 THEN n % 100 ELSE 0)
ChainEqualAdvance == ChainSteps = n
=============================================================================
