---- MODULE MC_Lifecycle ----
EXTENDS Lifecycle, Json
\* histories worth replaying: they contain a load; exported once complete
HasLoad == \E i \in 1..Len(hist) : hist[i][1] = "load"
Export == (Len(hist) = MaxOps /\ HasLoad) => PrintT(ToJson([hist |-> hist]))
====
