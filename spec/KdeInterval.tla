---- MODULE KdeInterval ----
(* C19, code -> spec: for every recorded interval(f) call the ends (quantised to 1/1024) are handed to the reference, which prints the     *)
(* probability mass between them under the estimator's own cumulative function and the densities at the two ends.                        *)
EXTENDS KdeExact, TLCExt, Json, IOUtils
Log == ndJsonDeserialize(IOEnv.TRACE_FILE)
VARIABLES l
Ev == Log[l]
TraceInit == TLCSet(1, 1) /\ l = 1
Hs == [lo |-> Ev.lo, cnt |-> Ev.cnt]
A == <<Ev.a, 1024>>
B == <<Ev.b, 1024>>
Report == PrintT(ToJson([i |-> l, mass |-> SAdd(Cdf(Hs, Ev.k, B), SNeg(Cdf(Hs, Ev.k, A))), pa |-> Pdf(Hs, Ev.k, A), pb |-> Pdf(Hs, Ev.k, B),
                         pm |-> Pdf(Hs, Ev.k, <<Ev.m, 1024>>)]))
TraceNext == l <= Len(Log) /\ l' = l + 1 /\ Ev.a <= Ev.b /\ Report
TraceSpec == TraceInit /\ [][TraceNext]_l
Progress == TLCSet(1, IF l > TLCGet(1) THEN l ELSE TLCGet(1))
TraceAccepted == IF TLCGet(1) = Len(Log) + 1 THEN TRUE ELSE PrintT(<<"REJECTED at line", TLCGet(1)>>) /\ FALSE
====
