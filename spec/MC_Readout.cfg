INIT Init
NEXT Next
CONSTANTS MaxN = 14 MaxBurn = 15 MaxThin = 6
INVARIANT LenIdentity
INVARIANT Ascending
INVARIANT InRange
CHECK_DEADLOCK FALSE
