---- MODULE MC_Acquire ----
EXTENDS Acquire, Json
Pre(s, d) == [i \in 1..d |-> s[i]]
Se(d, ja) == [k |-> "se", ja |-> ja, m |-> Pre(<<1, 1>>, d)]
XSets == { << <<0>>, <<2>> >>, << <<0>>, <<1>> >>, << <<0, 1>>, <<1, 0>> >> }
YSets == { <<1, -2>>, <<0, 3>>, <<2, 2>>, <<0, 12>> }
Diag(v) == [i \in 1..Len(v) |-> [j \in 1..Len(v) |-> IF i = j THEN v[i] ELSE <<0, 1>>]]
Sigs == { Diag(<<<<1, 4>>, <<1, 4>>>>), Diag(<<<<1, 16>>, <<1, 1>>>>) }
Means(d) == { [k |-> "const", th |-> <<1>>], [k |-> "lin", th |-> Pre(<<1, 1, -1>>, 1 + d)] }
Queries(d) == IF d = 1 THEN << <<1>>, <<3>>, <<-1>> >> ELSE << <<1, 1>>, <<0, 0>>, <<2, 0>> >>
VARIABLES pb, cx, out
\* a steeply sloping prior mean (40 per unit): improvement z-scores of several hundred (far-positive side)
Init == /\ \/ \E X \in XSets, ys \in YSets, sg \in Sigs : \E ja \in {-2, 0, 2}, mf \in Means(Len(X[1])) :
               pb = [X |-> X, y |-> ys, sig |-> sg, kern |-> Se(Len(X[1]), ja), mean |-> mf]
           \/ \E X \in {<< <<0>>, <<1>> >>}, ys \in {<<1, -2>>, <<0, 3>>}, sg \in {Diag(<<<<1, 4>>, <<1, 4>>>>)} :
               pb = [X |-> X, y |-> ys, sig |-> sg, kern |-> Se(1, 0), mean |-> [k |-> "lin", th |-> <<1, 40>>]]
        /\ cx = FullContext(pb) /\ out = 0
Q == Queries(Len(pb.X[1]))
\* split a SymLin derivative (rational slope + c ln2) into its two rational parts
R0(s) == s.rat
R1(s) == RSum([i \in 1..Len(s.atoms) |-> s.atoms[i][1]], Len(s.atoms))
Rec(s) == [r0 |-> R0(s), r1 |-> R1(s)]
PointOut(q) == LET mu == PostMean(cx, q)  v == PostCov(cx, q, q)  ym == Ymax(pb)
                   dm == GradMean(cx, pb.kern, q)  dv == GradVar(cx, pb.kern, q) IN
    [q |-> q, mu |-> mu, v |-> v, ymax |-> ym, ucb |-> UCB(mu, v, 2), ucb3 |-> UCB(mu, v, 3), ucb0 |-> UCB(mu, v, 0), ei |-> EI(mu, v, ym), maxvar |-> v,
     gucb |-> [a \in 1..Len(q) |-> GradUCB(Rec(dm[a]), Rec(dv[a]), v, 2)],
     gucb3 |-> [a \in 1..Len(q) |-> GradUCB(Rec(dm[a]), Rec(dv[a]), v, 3)],        \* a kappa other than the default
     gucb0 |-> [a \in 1..Len(q) |-> GradUCB(Rec(dm[a]), Rec(dv[a]), v, 0)],        \* the boundary value kappa = 0 (pure exploitation)
     gei |-> [a \in 1..Len(q) |-> GradEI(Rec(dm[a]), Rec(dv[a]), mu, v, ym)],
     gvar |-> [a \in 1..Len(q) |-> dv[a]]]
Next == /\ out = 0 /\ out' = 1 /\ UNCHANGED <<pb, cx>>
        /\ PrintT(ToJson([pb |-> pb, pts |-> [i \in 1..Len(Q) |-> PointOut(Q[i])]]))
VarOK == \A i \in 1..Len(Q) : VarInPriorRange(cx, Q[i])
====
