---------------------------- MODULE APA_LimitMaps ----------------------------
(* C04, unbounded: the laws of the reflection map for EVERY integer position t and EVERY integer lower limit, for the widths      *)
(* 1..WMaxA -- "no matter how far the raw proposal or trajectory overshoots".  Checked symbolically by Apalache (SMT over the     *)
(* unbounded integers; the quantifier over the literal widths is expanded, so every division has a constant divisor).  TLC       *)
(* checks the same laws on a window of +-R lattice units (MC_LimitsMap); this module removes the window.                          *)
EXTENDS Integers
WMaxA == 12
VARIABLES
    \* @type: Int;
    lo,
    \* @type: Int;
    t
Reflect(l, h, x) ==
    LET w == h - l  d == x - l  q == d \div w  r == d % w
    IN IF q % 2 = 0 THEN l + r ELSE h - r
Flips(l, h, x) == LET w == h - l IN ((x - l) \div w) % 2
ReflectSign(l, h, x) == IF Flips(l, h, x) = 0 THEN 1 ELSE -1
Crossings(l, h, x) == LET w == h - l  d == x - l IN IF d >= 0 THEN d \div w ELSE (-(d \div w))
Laws(l, h, x) ==
       /\ Reflect(l, h, x) >= l /\ Reflect(l, h, x) <= h
       /\ ((x >= l /\ x <= h) => Reflect(l, h, x) = x)
       /\ Reflect(l, h, 2*l - x) = Reflect(l, h, x)
       /\ Reflect(l, h, 2*h - x) = Reflect(l, h, x)
       /\ Reflect(l, h, x + 2*(h - l)) = Reflect(l, h, x)
       /\ ((x - l) % (h - l) # 0 => ReflectSign(l, h, x) = (IF Crossings(l, h, x) % 2 = 0 THEN 1 ELSE -1))
       /\ ((x - l) % (h - l) # 0 => ReflectSign(l, h, 2*h - x) = -ReflectSign(l, h, x))
Fold(x) == IF x < 0 THEN -x ELSE x
Init == lo \in Int /\ t \in Int
Next == UNCHANGED <<lo, t>>
Inv == /\ \A ww \in 1..WMaxA : Laws(lo, lo + ww, t)
       /\ Fold(t) >= 0 /\ (t >= 0 => Fold(t) = t) /\ Fold(-t) = Fold(t)
=============================================================================
