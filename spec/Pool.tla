-------------------------------- MODULE Pool --------------------------------
(* C15 -- a pool of chains advanced together ends in the same state as the chains advanced one after        *)
(* another.  NW worker processes take tasks (chain k, n steps) in any order and finish in any order; the     *)
(* result of task k is stored at index k.  PoolEqualsSerial over every interleaving.                        *)
EXTENDS Integers, Sequences, FiniteSets, TLC
CONSTANTS NT, NW
T == 1..NT
VARIABLES todo, running, res
vars == <<todo, running, res>>
F(kk) == 10 * kk + 3                         \* the (deterministic) result of advancing chain kk with its own generator
Init == todo = T /\ running = {} /\ res = [kk \in T |-> 0]
Take == /\ todo # {} /\ Cardinality(running) < NW
        /\ \E kk \in todo : todo' = todo \ {kk} /\ running' = running \cup {kk}
        /\ UNCHANGED res
Finish == \E kk \in running : running' = running \ {kk} /\ res' = [res EXCEPT ![kk] = F(kk)] /\ UNCHANGED todo
Next == Take \/ Finish
Spec == Init /\ [][Next]_vars /\ WF_vars(Next)
Done == todo = {} /\ running = {}
PoolEqualsSerial == Done => res = [kk \in T |-> F(kk)]
Completes == <>Done
=============================================================================
