----------------------------- MODULE LimitsTrace -----------------------------
(* C04, code -> spec: traces of bounded PCA / HMC / ensemble runs.                                  *)
(* Each event carries, per coordinate, the integer number of ulps (at the scale of the limits) by   *)
(* which the point lies outside the closed limits (0 = inside). EvalsInside / SamplesInside must    *)
(* hold at every step of every run.                                                                 *)
EXTENDS Integers, Sequences, FiniteSets, TLC, TLCExt, Json, IOUtils
Allow == 4
Log == ndJsonDeserialize(IOEnv.TRACE_FILE)
VARIABLES l, sampler, dim, worst, commits
vars == <<l, sampler, dim, worst, commits>>
Ev == Log[l]
RECURSIVE MaxOf(_, _)
MaxOf(s, n) == IF n = 0 THEN 0 ELSE LET m == MaxOf(s, n - 1) IN IF s[n] > m THEN s[n] ELSE m
TraceInit == TLCSet(1, 1) /\ l = 1 /\ sampler = "" /\ dim = 0 /\ worst = 0 /\ commits = 0
TrInit == /\ Ev.ev = "Init" /\ sampler' = Ev.sampler /\ dim' = Ev.n /\ worst' = 0 /\ commits' = 0
TrPoint == /\ Ev.ev \in {"Eval", "Grad", "Commit"} /\ sampler # ""
           /\ Len(Ev.ex) = dim
           /\ worst' = MaxOf(Ev.ex, Len(Ev.ex))
           /\ commits' = commits + (IF Ev.ev = "Commit" THEN 1 ELSE 0)
           /\ UNCHANGED <<sampler, dim>>
TrGaveUp == Ev.ev = "GaveUp" /\ sampler # "" /\ UNCHANGED <<sampler, dim, worst, commits>>
TraceNext == l <= Len(Log) /\ l' = l + 1 /\ (TrInit \/ TrPoint \/ TrGaveUp)
TraceSpec == TraceInit /\ [][TraceNext]_vars
Inside == worst <= Allow                               \* EvalsInside /\ SamplesInside
Progress == TLCSet(1, IF l > TLCGet(1) THEN l ELSE TLCGet(1))
TraceAccepted == IF TLCGet(1) = Len(Log) + 1 THEN TRUE
                 ELSE PrintT(<<"REJECTED at line", TLCGet(1)>>) /\ FALSE
=============================================================================
