---- MODULE KdeCovTrace ----
(* C12, code -> spec: affine covariance of the estimate for each bandwidth-selection mode.  Each event holds the relative deviation of the     *)
(* bandwidth from a*h, of a*pdf'(a t + b) from pdf(t) (relative to the peak) and of the cdf, in units of 1e-9.                             *)
EXTENDS Integers, Sequences, TLC, TLCExt, Json, IOUtils
Log == ndJsonDeserialize(IOEnv.TRACE_FILE)
VARIABLES l
Ev == Log[l]
TraceInit == TLCSet(1, 1) /\ l = 1
\* user and rule-of-thumb bandwidths scale exactly with binary factors; the cross-validated one is found on a grid in log-bandwidth (1e-6)
Tol == IF Ev.mode = "cv" THEN 1000 ELSE 10
Covariant == Ev.h_err_e9 <= Tol /\ Ev.pdf_err_e9 <= Tol * 100 /\ Ev.cdf_err_e9 <= Tol * 100
TraceNext == l <= Len(Log) /\ l' = l + 1 /\ (IF Covariant THEN TRUE ELSE PrintT(<<"BAD", l>>))
TraceSpec == TraceInit /\ [][TraceNext]_l
Progress == TLCSet(1, IF l > TLCGet(1) THEN l ELSE TLCGet(1))
TraceAccepted == IF TLCGet(1) = Len(Log) + 1 THEN TRUE ELSE PrintT(<<"REJECTED at line", TLCGet(1)>>) /\ FALSE
====
