SPECIFICATION Spec
CONSTANTS MaxChains = 7
INVARIANT PairsDisjoint
INVARIANT AtMostHalf
CHECK_DEADLOCK FALSE
