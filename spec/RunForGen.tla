------------------------------ MODULE RunForGen ------------------------------
(* C15 -- generator of time budgets and per-step cost schedules for run_for (spec -> code direction).       *)
(* A schedule is a sequence of cost classes; step j costs Cost[sched[min(j, Len)]] microseconds.            *)
(* Classes span microseconds (far below one progress interval) to minutes (longer than the whole budget).   *)
EXTENDS Integers, Sequences, TLC, Json
CONSTANTS Classes, MaxLen, Budgets
VARIABLES sched, budget, out
Cost(c) == CASE c = 1 -> 20 [] c = 2 -> 40000 [] c = 3 -> 1500000 [] c = 4 -> 7000000 [] c = 5 -> 90000000
Init == /\ sched \in UNION {[1..n -> Classes] : n \in 1..MaxLen} /\ budget \in Budgets /\ out = 0
Next == out = 0 /\ out' = 1 /\ UNCHANGED <<sched, budget>>
        /\ PrintT(ToJson([budget |-> budget, costs |-> [i \in 1..Len(sched) |-> Cost(sched[i])]]))
\* the steps a correct loop must at least take: while the elapsed time is below the budget another step is due
=============================================================================
