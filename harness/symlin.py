"""Evaluation of SymLin values printed by TLC (exact rational coefficients, symbolic atoms).

Trusted base: Python's math functions at exact rational arguments (DESIGN 1.5 / 6b)."""
import math
from fractions import Fraction


def frac(q):
    return Fraction(int(q[0]), int(q[1]))


def atom(a):
    kind = a[0]
    if kind == "ln":
        q = frac(a[1])
        return math.log(q.numerator) - math.log(q.denominator)
    if kind == "lnpi":
        return math.log(math.pi)
    if kind == "ln2":
        return math.log(2.0)
    if kind == "pi":
        return math.pi
    if kind == "ln1p2":
        e = int(a[1])
        return e * math.log(2.0) + math.log1p(2.0 ** (-e)) if e > 0 else math.log1p(2.0 ** e)
    if kind == "r2p":
        e = int(a[1])
        return math.tanh(e * math.log(2.0) / 2.0)
    if kind == "sqrt":
        return math.sqrt(frac(a[1]))
    if kind == "exp":
        return math.exp(frac(a[1]))
    if kind == "erf":
        return math.erf(frac(a[1]))
    if kind == "isqrtpi":
        return 1.0 / math.sqrt(math.pi)
    if kind == "isqrt2pi":
        return 1.0 / math.sqrt(2.0 * math.pi)
    if kind == "Phi":          # standard normal cdf at p/sqrt(r): args <<p_n,p_d>>, <<r_n,r_d>>
        z = float(frac(a[1])) / math.sqrt(frac(a[2]))
        return 0.5 * math.erfc(-z / math.sqrt(2.0))
    if kind == "phi":
        z = float(frac(a[1])) / math.sqrt(frac(a[2]))
        return math.exp(-0.5 * z * z) / math.sqrt(2.0 * math.pi)
    if kind == "ln2sq":
        return math.log(2.0) ** 2
    if kind == "prod":
        return atom(a[1]) * atom(a[2])
    if kind == "isqrt":
        return 1.0 / math.sqrt(frac(a[1]))
    if kind == "pow":          # <<"pow", q, <<n, d>>>> = q^(n/d)
        return float(frac(a[1])) ** float(frac(a[2]))
    raise ValueError("unknown atom " + repr(a))


def value(x):
    """float value of a SymLin record {"rat": [n,d], "atoms": [[[cn,cd], [kind, ...]], ...]}; terms summed largest-first"""
    terms = [float(frac(x["rat"]))]
    for c, a in x["atoms"]:
        terms.append(float(frac(c)) * atom(a))
    return math.fsum(terms)


def magnitude(x):
    """sum of |terms|: the natural scale for a tolerance (cancellation-aware)"""
    t = [abs(float(frac(x["rat"])))]
    for c, a in x["atoms"]:
        t.append(abs(float(frac(c)) * atom(a)))
    return math.fsum(t)


def close(got, want, scale=1.0, rel=1e-9):
    return math.isfinite(got) and abs(got - want) <= rel * max(1.0, abs(want), scale)
