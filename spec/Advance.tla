------------------------------- MODULE Advance -------------------------------
(* C15 -- advancing a sampler adds exactly the requested number of samples.                                 *)
(* State: the number of stored samples / stored log-probabilities / reported chain length of one sampler     *)
(* with `walkers` rows per advance unit (1 for the Markov chains, the number of walkers for the ensemble).   *)
(* Calls: Advance(m) for every m offered (0, below / not divisible by the progress granularity, large),      *)
(* TakeStep (chains only), in any order.                                                                    *)
EXTENDS Integers, Sequences, TLC
CONSTANTS MSet,        \* offered values of m
          Walkers,     \* rows added per unit
          Len0,        \* stored rows of a fresh sampler (1 for chains: the start; 0 for the ensemble)
          MaxCalls
VARIABLES nsamp, nprob, clen, calls
vars == <<nsamp, nprob, clen, calls>>
Init == nsamp = Len0 /\ nprob = Len0 /\ clen = Len0 /\ calls = <<>>
AdvanceBy(m) == /\ Len(calls) < MaxCalls
                /\ nsamp' = nsamp + m * Walkers /\ nprob' = nprob + m * Walkers /\ clen' = clen + m * Walkers
                /\ calls' = Append(calls, m)
TakeStep == /\ Walkers = 1 /\ Len(calls) < MaxCalls
            /\ nsamp' = nsamp + 1 /\ nprob' = nprob + 1 /\ clen' = clen + 1 /\ calls' = Append(calls, -1)
Next == TakeStep \/ \E m \in MSet : AdvanceBy(m)
Spec == Init /\ [][Next]_vars
LenAgree == nsamp = nprob /\ nprob = clen
RECURSIVE Total(_)
Total(s) == IF s = <<>> THEN 0 ELSE (IF Head(s) = -1 THEN 1 ELSE Head(s) * Walkers) + Total(Tail(s))
ExactlyRequested == clen = Len0 + Total(calls)
=============================================================================
