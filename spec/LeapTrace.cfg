SPECIFICATION TraceSpec
INVARIANT ReversibleOffLattice
INVARIANT SecondOrder
CONSTRAINT Progress
POSTCONDITION TraceAccepted
CHECK_DEADLOCK FALSE
