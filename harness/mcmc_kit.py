"""External instrumentation for the MCMC samplers: lattice posteriors, scripted / recording
random generators, generic generator discovery. No library logic is re-implemented here.
"""
import math
import numpy as np

LN2 = math.log(2.0)


# ------------------------------------------------------------------ lattice posteriors

class TablePost:
    """logp(x) = -ln2 * sum_j En[round(x_j)]  (additive integer energy table on an integer lattice).

    Picklable (module-level class) so chains can be shipped to worker processes.
    Records every evaluation point when `log` is a list.
    """

    def __init__(self, table, lo, outside=400, couple=0, log=None):
        self.table = list(table)      # energies of lattice points lo, lo+1, ...
        self.lo = lo
        self.outside = outside
        self.couple = couple          # optional interaction term couple*|x0 - x1| (n >= 2)
        self.log = log

    def energy(self, x):
        e = 0
        xs = [int(round(float(v))) for v in np.atleast_1d(x)]
        for v in xs:
            i = v - self.lo
            e += self.table[i] if 0 <= i < len(self.table) else self.outside
        if self.couple and len(xs) >= 2:
            e += self.couple * abs(xs[0] - xs[1])
        return e

    def __call__(self, x):
        if self.log is not None:
            self.log.append(("eval", [float(v) for v in np.atleast_1d(x)]))
        return -LN2 * self.energy(x)


def tent(lo, hi):
    return [4 * (2 * -v if v < 0 else v) for v in range(lo, hi + 1)]


def twowell(lo, hi):
    # two minima of different depth, multiples of 4
    return [4 * min(abs(v - (lo + 1)), abs(v - (hi - 1)) + 1) for v in range(lo, hi + 1)]


def flat(lo, hi):
    return [0 for _ in range(lo, hi + 1)]


# ------------------------------------------------------------------ generators

class Script:
    """Attempt-keyed script shared by every generator of one sampler.

    attempts: list of dicts {"k": [ints or floats], "u": float, "j": int (optional)}
    A normal draw opens the next attempt when the current one has served all its normals;
    uniform draws return the current attempt's `u` values in order (cycling on the last one).
    After the script is exhausted, closing attempts are served (k = 0, u = tiny): a level move that
    every correct acceptance rule accepts, so the step in progress terminates.
    """

    def __init__(self, attempts, n_normals, unit=1.0, log=None):
        self.attempts = list(attempts)
        self.n = n_normals
        self.unit = unit
        self.t = -1
        self.served = 0
        self.useq = 0
        self.overrun = 0
        self.log = log if log is not None else []

    def _cur(self):
        if 0 <= self.t < len(self.attempts):
            return self.attempts[self.t]
        return {"k": [0] * self.n, "u": [2.0 ** -40], "j": 1}

    def _open(self):
        self.t += 1
        self.served = 0
        self.useq = 0
        if self.t >= len(self.attempts):
            self.overrun += 1

    def next_normals(self, count):
        out = []
        for _ in range(count):
            if self.t < 0 or self.served >= self.n:
                self._open()
            ks = self._cur()["k"]
            out.append(ks[self.served] * self.unit)
            self.served += 1
        self.log.append(("normal", self.t, list(out)))
        return out

    def next_uniform(self):
        if self.t < 0:
            self._open()
        us = self._cur()["u"]
        if not isinstance(us, (list, tuple)):
            us = [us]
        u = us[min(self.useq, len(us) - 1)]
        self.useq += 1
        self.log.append(("uniform", self.t, u))
        return u

    def next_int(self):
        if self.t < 0 or self.served >= self.n:
            self._open()
        self.log.append(("integers", self.t, self._cur().get("j", 1)))
        return self._cur().get("j", 1)


class ScriptedGen:
    """numpy.random.Generator look-alike that serves a Script."""

    def __init__(self, script, who="chain"):
        self.script = script
        self.who = who

    def normal(self, loc=0.0, scale=1.0, size=None):
        if size is None:
            return loc + scale * self.script.next_normals(1)[0]
        n = int(np.prod(size))
        return np.asarray(loc) + np.asarray(scale) * np.array(self.script.next_normals(n)).reshape(size)

    def standard_normal(self, size=None):
        return self.normal(size=size)

    def random(self, size=None):
        if size is None:
            return self.script.next_uniform()
        return np.array([self.script.next_uniform() for _ in range(int(np.prod(size)))]).reshape(size)

    def uniform(self, low=0.0, high=1.0, size=None):
        return low + (high - low) * self.random(size)

    def integers(self, low, high=None, size=None, **kw):
        if high is None:
            low, high = 0, low
        j = self.script.next_int()
        return low + (j - low) % (high - low)

    def shuffle(self, x):
        return None

    def choice(self, a, *args, **kw):
        return a[0]


class RecordingGen:
    """Wraps a real seeded Generator, logging (and optionally quantising) every draw."""

    def __init__(self, seed, log, who="chain", quantise=None, m_bits=8):
        self.g = np.random.default_rng(seed)
        self.log = log
        self.who = who
        self.q = quantise      # None or (scale, clip): normal -> clip(round(z*scale))
        self.m = m_bits

    def normal(self, loc=0.0, scale=1.0, size=None):
        z = self.g.normal(size=size)
        if self.q is not None:
            z = np.clip(np.round(z * self.q[0]), -self.q[1], self.q[1])
            self.log.append(("normal", self.who, np.atleast_1d(z).astype(int).tolist()))
            if size is None:
                z = float(z)
        else:
            self.log.append(("normal", self.who, np.atleast_1d(z).tolist()))
        return loc + scale * z

    def random(self, size=None):
        if self.q is not None:
            i = self.g.integers(0, 2 ** self.m, size=size)
            self.log.append(("uniform", self.who, np.atleast_1d(i).astype(int).tolist()))
            return (2 * i + 1) / 2.0 ** (self.m + 1)
        u = self.g.random(size=size)
        self.log.append(("uniform", self.who, np.atleast_1d(u).tolist()))
        return u

    def integers(self, low, high=None, size=None, **kw):
        v = self.g.integers(low, high, size=size, **kw)
        self.log.append(("integers", self.who, np.atleast_1d(v).astype(int).tolist()))
        return v

    def shuffle(self, x):
        self.g.shuffle(x)
        self.log.append(("shuffle", self.who, [int(v) for v in x]))

    def __getattr__(self, name):
        if name in ("g", "log", "who", "q", "m") or name.startswith("__"):
            raise AttributeError(name)          # not yet initialised (unpickling)
        return getattr(self.g, name)


def find_generators(obj, path="", seen=None, depth=0):
    """All (path, owner, attr) where a numpy Generator (or one of ours) is reachable through vars()/lists."""
    if seen is None:
        seen = set()
    out = []
    if id(obj) in seen or depth > 4:
        return out
    seen.add(id(obj))
    if isinstance(obj, (list, tuple)):
        for i, v in enumerate(obj[:64]):
            if hasattr(v, "__dict__"):
                out += find_generators(v, f"{path}[{i}]", seen, depth + 1)
        return out
    if not hasattr(obj, "__dict__"):
        return out
    for name, v in list(vars(obj).items()):
        if isinstance(v, (np.random.Generator, ScriptedGen, RecordingGen)):
            out.append((f"{path}.{name}", obj, name))
        elif isinstance(v, (list, tuple)) or (hasattr(v, "__dict__") and not callable(v)
                                              and type(v).__module__.startswith("inference")):
            out += find_generators(v, f"{path}.{name}", seen, depth + 1)
    return out


def inject(obj, make):
    """Replace every reachable generator by make(path). Returns number replaced."""
    gens = find_generators(obj)
    for path, owner, name in gens:
        setattr(owner, name, make(path))
    return len(gens)


def freeze_adaptation(chain):
    """Keep proposal widths / step size fixed (tuning is not part of any property; section 2e)."""
    for p in getattr(chain, "params", []) or []:
        p.max_tries = 10 ** 9
        p.chk_int = 10 ** 9
    es = getattr(chain, "ES", None)
    if es is not None:
        es.chk_int = 10 ** 9


def mid(i, m_bits):
    return (2 * i + 1) / 2.0 ** (m_bits + 1)


def to_lattice(v, unit=1.0, tol=1e-9):
    """float -> lattice integer; a residual above tol is a conformance failure (returns None)."""
    a = np.atleast_1d(np.asarray(v, dtype=float)) / unit
    r = np.round(a)
    if not np.all(np.isfinite(a)) or np.max(np.abs(a - r), initial=0.0) > tol:
        return None
    return [int(t) for t in r]
