---- MODULE HdiTrace ----
(* C13, code -> spec: what the real sample_hdi returned (for the list / int / float / column / permuted / affine call variants) *)
EXTENDS Hdi, TLCExt, Json, IOUtils
Log == ndJsonDeserialize(IOEnv.TRACE_FILE)
VARIABLES l
Ev == Log[l]
TraceInit == TLCSet(1, 1) /\ l = 1
\* every variant of the call returned the same Good interval; permutation and affine relations hold; the input was not modified
CaseOK == /\ Good(Ev.s, Ev.k, Ev.r[1], Ev.r[2])
          /\ \A i \in 1..Len(Ev.same) : Ev.same[i] = Ev.r               \* int array, float array, list, 2-D column variants
          /\ Permuted(Ev.r, Ev.rp)
          /\ Affine(Ev.r, Ev.ra, Ev.a, Ev.b)
          /\ Good(Ev.s, Ev.k, Ev.rf[1], Ev.rf[2])                      \* the same sample as non-dyadic floats: end points are sample values, ...
          /\ \E j \in 1..Len(Ev.ric) : Good(Ev.s, Ev.k, Ev.ric[j][1], Ev.ric[j][2])   \* ... and as 64-bit integers beyond 2^53 (up to output rounding)
          /\ Good(Ev.gs, Ev.k, Ev.rg[1], Ev.rg[2])                      \* the sample under a concave monotone map (window widths equal to 7 digits): judged as a sample of its own
          /\ Ev.unchanged
Call == IF CaseOK THEN TRUE ELSE PrintT(<<"BAD", l>>)
TraceNext == l <= Len(Log) /\ l' = l + 1 /\ Call
TraceSpec == TraceInit /\ [][TraceNext]_l
Progress == TLCSet(1, IF l > TLCGet(1) THEN l ELSE TLCGet(1))
TraceAccepted == IF TLCGet(1) = Len(Log) + 1 THEN TRUE ELSE PrintT(<<"REJECTED at line", TLCGet(1)>>) /\ FALSE
====
