---- MODULE MC_Advance ----
EXTENDS Advance, Json
MCM == {0, 1, 7, 99, 100, 101, 201, 250, 351}
Export == Len(calls) = MaxCalls => PrintT(ToJson([calls |-> calls, len |-> clen]))
====
