SPECIFICATION Spec
CONSTANTS N = 3
  Prog <- MCProg
  Beta <- MCBeta
  UDraw <- MCUDraw
  PairSeq <- MCFree
INVARIANT ProbsBelong
INVARIANT PairsDisjoint
INVARIANT EqualAdvance
INVARIANT PipesBounded
INVARIANT ReturnComplete
PROPERTY Terminates
CHECK_DEADLOCK FALSE
