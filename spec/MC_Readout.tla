---- MODULE MC_Readout ----
(* enumerates (n, burn, thin) and exports the documented selection; checks the length identity *)
EXTENDS Readout, Json
CONSTANTS MaxN, MaxBurn, MaxThin
VARIABLES n, burn, thin, out
Init == n \in 1..MaxN /\ burn \in 0..MaxBurn /\ thin \in 1..MaxThin /\ out = 0
Next == out = 0 /\ out' = 1 /\ UNCHANGED <<n, burn, thin>>
        /\ PrintT(ToJson([n |-> n, burn |-> burn, thin |-> thin, ids |-> Select(n, burn, thin)]))
LenIdentity == Len(Select(n, burn, thin)) = Count(n, burn, thin)
Ascending == LET s == Select(n, burn, thin) IN \A i \in 1..(Len(s) - 1) : s[i + 1] = s[i] + thin
InRange == LET s == Select(n, burn, thin) IN \A i \in 1..Len(s) : s[i] >= burn /\ s[i] < n
====
