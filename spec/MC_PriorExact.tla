---- MODULE MC_PriorExact ----
EXTENDS PriorExact, Json
CONSTANTS MaxVars
\* all ordered lists (without repetition) over a set
RECURSIVE Perms(_)
Perms(S) == IF S = {} THEN {<<>>} ELSE UNION {{<<x>> \o p : p \in Perms(S \ {x})} : x \in S}
Probes == << <<<<1, 2>>, <<3, 2>>, <<2, 1>>, <<5, 4>>>>,          \* inside every support
             <<<<1, 2>>, <<-1, 2>>, <<9, 1>>, <<5, 4>>>>,           \* coordinate 2 negative, coordinate 3 beyond its uniform box
             <<<<1, 1>>, <<2, 1>>, <<3, 1>>, <<1, 1>>>> >>          \* whole numbers (also handed over as an integer array)
VARIABLES layout, pi, out
\* layouts: number of variables n, an assignment of variables to at most 3 slots (surjective onto 1..m), an order inside each slot,
\* a type per slot, and the order of the slots in the list handed to JointPrior
\* "wide" layouts: ONE component over WideN variables (hyper-parameters still functions of the index: sigma up to 2^46, beta up to 2^47),
\* probed where every exact intermediate is small (Gaussian at its mean, exponential at 0, uniform at 1); values only
WideN == 48
WideLayout(ty) == << [type |-> ty, vars |-> [i \in 1..WideN |-> i]] >>
WideTheta(ty) == [v \in 1..WideN |-> CASE ty = "G" -> Mean(v) [] ty = "E" -> RZero [] ty = "U" -> ROne]
NarrowInit ==
        /\ \E n \in 2..MaxVars, m \in 1..3 :
             \E asg \in [1..n -> 1..m] :
               /\ \A s \in 1..m : \E v \in 1..n : asg[v] = s
               /\ \E types \in [1..m -> {"G", "E", "U"}], order \in Perms(1..m) :
                    \E inner \in [1..m -> UNION {Perms({v \in 1..n : asg[v] = s}) : s \in 1..m}] :
                       /\ \A s \in 1..m : inner[s] \in Perms({v \in 1..n : asg[v] = s})
                       /\ layout = [k \in 1..m |-> [type |-> types[order[k]], vars |-> inner[order[k]]]]
        /\ pi \in 1..Len(Probes) /\ out = 0
Init == \/ (\E ty \in {"G", "E", "U"} : layout = WideLayout(ty)) /\ pi = 0 /\ out = 0
        \/ NarrowInit
Theta == [v \in 1..NVars(layout) |-> Probes[pi][v]]
Next == /\ out = 0 /\ out' = 1 /\ UNCHANGED <<layout, pi>>
        /\ IF pi = 0
           THEN PrintT(ToJson([wide |-> TRUE, layout |-> layout, theta |-> WideTheta(layout[1].type),
                               value |-> JointValue(layout, WideTheta(layout[1].type))]))
           ELSE PrintT(ToJson([layout |-> layout, theta |-> Theta, inside |-> Inside(layout, Theta),
                          value |-> JointValue(layout, Theta), grad |-> JointGrad(layout, Theta), bounds |-> JointBounds(layout),
                          draw |-> JointDraw(layout), requests |-> [k \in 1..Len(layout) |-> Request(layout[k])]]))
Formed == WellFormed(layout)
====
