----------------------------- MODULE MC_LimitsSM -----------------------------
(* Exhaustive exploration of the limit state machine; every history is exported with the spec      *)
(* state after each call so that the replayer can hold the real chain to it.                        *)
EXTENDS Limits, Json
MCBoxes == {<<-2, 3>>, <<1, 4>>, <<-5, -1>>, <<2, 2>>, <<3, -1>>}
Export == Len(hist) = MaxCalls =>
             PrintT(ToJson([hist |-> hist, alo |-> AllowedLo, ahi |-> AllowedHi]))
\* one line per history prefix state: allowed region after the last call
ExportAll == PrintT(ToJson([hist |-> hist, alo |-> AllowedLo, ahi |-> AllowedHi,
                             nn |-> nonneg, box |-> box]))
=============================================================================
