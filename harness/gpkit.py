"""Construction of real inference.gp objects from the kernel / mean descriptions that the TLA+ reference modules print."""
import math
import numpy as np

LN2 = math.log(2.0)


def fr(q):
    return q[0] / q[1]


def build_kernel(kd, d, n):
    """returns (kernel object, theta list) for description kd in `d` dimensions and `n` data points"""
    from inference.gp.covariance import (SquaredExponential, RationalQuadratic, WhiteNoise, HeteroscedasticNoise, ChangePoint,
                                         CompositeCovariance)
    k = kd["k"]
    if k == "se":
        # a^2 = 2^ja; 1/(2 L_i^2) = m_i ln2
        return SquaredExponential(), [0.5 * kd["ja"] * LN2] + [-0.5 * math.log(2.0 * m * LN2) for m in kd["m"]]
    if k == "rq":
        # c_i = 1/(2 L_i^2)
        return RationalQuadratic(), [0.5 * kd["ja"] * LN2, math.log(kd["kk"])] + [0.5 * math.log(1.0 / (2.0 * fr(c))) for c in kd["c"]]
    if k == "wn":
        return WhiteNoise(), [0.5 * kd["j"] * LN2]
    if k == "hn":
        return HeteroscedasticNoise(), [0.5 * j * LN2 for j in kd["js"]]
    if k == "sum":
        parts = [build_kernel(p, d, n) for p in kd["parts"]]
        obj = parts[0][0]
        for p in parts[1:]:
            obj = obj + p[0]
        theta = [t for p in parts for t in p[1]]
        return obj, theta
    if k == "cp":
        parts = [build_kernel(p, d, n) for p in kd["parts"]]
        obj = ChangePoint(kernels=[p[0] for p in parts], axis=kd["axis"] - 1)
        theta = [t for p in parts for t in p[1]]
        for c in kd["cs"]:
            theta += [float(c), 1.0 / LN2]
        return obj, theta
    raise ValueError(k)


def build_mean(md):
    from inference.gp.mean import ConstantMean, LinearMean, QuadraticMean
    cls = {"const": ConstantMean, "lin": LinearMean, "quad": QuadraticMean}[md["k"]]
    return cls(), [float(t) for t in md["th"]]


def rmat(m):
    return np.array([[fr(v) for v in row] for row in m], dtype=float)


def rvec(v):
    return np.array([fr(x) for x in v], dtype=float)


def mean_consistency(md, X, shift):
    """m(x_i) through build_mean and through __call__ on the translated data, with non-dyadic hyper-parameters: the two code paths are the
    same function also far from the origin.  Returns the largest difference in units of the mean's scale."""
    import numpy as np
    mean, mth = build_mean(md)
    th = np.array([0.3, 0.7, -1.3, 0.9, 1.7][:len(mth)], dtype=float)
    Xs = np.asarray(X, dtype=float) + shift
    mean.pass_spatial_data(Xs)
    a = np.asarray(mean.build_mean(th), dtype=float)
    b = np.array([float(np.squeeze(mean(x, th))) for x in Xs])
    c = np.asarray(mean.mean_and_gradients(th)[0], dtype=float)
    scale = max(1.0, float(np.max(np.abs(a))))
    return float(max(np.max(np.abs(a - b)), np.max(np.abs(a - c))) / scale)
