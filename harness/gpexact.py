"""GpExact.tla: TLC run + construction of the real GpRegressor for each exported problem (shared by C02, C11, C16)."""
import json
import math
import numpy as np

from harness.core import run_tlc, must_pass
from harness import symlin as SL
from harness import gpkit as G

def install_atoms():
    """kept for callers: all atom kinds are now evaluated by harness.symlin directly"""
    return


def explore(ck, label="gp_reference", focus="all"):
    install_atoms()
    r = run_tlc("MC_GpExact", cfg_text="INIT Init\nNEXT Next\nCONSTANT Focus = \"%s\"\nCONSTANT Deep = %s\nINVARIANT VarRange\nINVARIANT CovSymmetric\nINVARIANT Shortcut\nINVARIANT OrderIndep\n"
                                       "CHECK_DEADLOCK FALSE\n" % (focus, "TRUE" if getattr(ck, "tier", "quick") == "thorough" else "FALSE"), timeout=3000)
    if r.violated:
        ck.violation("spec: GpExact " + ",".join(r.violated), {"violated": r.violated}, site="spec")
    must_pass(r, "MC_GpExact")
    ck.tlc(r, label)
    return r.printed


def regressor(pb, variant="auto", order=None, xint=False, units=0, xshift=0.0):
    """variant: 'err' (y_err = sqrt of the diagonal), 'cov' (y_cov matrix), 'covlist' (y_cov as nested lists), 'errlist', 'none'"""
    from inference.gp import GpRegressor
    X = np.array(pb["X"], dtype=float)
    y = np.array(pb["y"], dtype=float)
    sig = G.rmat(pb["sig"])
    n, d = X.shape
    if order is not None:
        X, y, sig = X[order], y[order], sig[np.ix_(order, order)]
    cov, cth = G.build_kernel(pb["kern"], d, n)
    mean, mth = G.build_mean(pb["mean"])
    hp = np.array(list(mth) + list(cth), dtype=float)
    if units:
        # the same problem in units 2^units times larger: data, data errors, prior mean and prior amplitude (single-amplitude kernels)
        c_ = 2.0 ** units
        y, sig = y * c_, sig * c_ * c_
        hp[:len(mth)] *= c_
        hp[len(mth)] += np.log(c_)
    if xshift:
        X = X + xshift               # the whole problem translated (whole-number coordinates stay exact in doubles)
    if xint:
        X = X.astype(int)            # whole-number coordinates given as an integer array
    kw = {}
    diagonal = not np.any(sig - np.diag(np.diag(sig)))         # exact: the errors may have been scaled to tiny units
    if variant == "auto":
        variant = "none" if not sig.any() else ("err" if diagonal else "cov")
    if variant == "err":
        kw["y_err"] = np.sqrt(np.diag(sig))
    elif variant == "errlist":
        kw["y_err"] = [float(v) for v in np.sqrt(np.diag(sig))]
    elif variant == "cov":
        kw["y_cov"] = sig
    elif variant == "covlist":
        kw["y_cov"] = [[float(v) for v in row] for row in sig]
    import warnings
    with warnings.catch_warnings(), np.errstate(all="ignore"):
        warnings.simplefilter("ignore")          # bounds estimation on tiny data sets warns; bounds are not used here
        gp = GpRegressor(x=X if d > 1 else X[:, 0], y=y, hyperpars=hp, kernel=cov, mean=mean, **kw)
    return gp, hp, diagonal


def close(a, b, scale=1.0, rel=1e-9):
    a, b = np.asarray(a, dtype=float), np.asarray(b, dtype=float)
    return a.shape == b.shape and bool(np.all(np.isfinite(a))) and \
        bool(np.all(np.abs(a - b) <= rel * max(1.0, scale, float(np.max(np.abs(b), initial=0.0)))))


def ident(pb):
    return {"X": pb["X"], "y": pb["y"], "sig": [[G.fr(v) for v in row] for row in pb["sig"]], "kernel": pb["kern"], "mean": pb["mean"]}
