---- MODULE MC_Select ----
EXTENDS Select
MCPoints == -2..2
MCScore == [p \in -2..2 |-> CASE p = -2 -> 3 [] p = -1 -> 1 [] p = 0 -> 2 [] p = 1 -> 5 [] p = 2 -> 4]
====
