SPECIFICATION Spec
CONSTANTS StepSizes = {1, 50, 101} MaxOps = 4
INVARIANT RoundTrip
INVARIANT Export
PROPERTY ContinuationEqual
CHECK_DEADLOCK FALSE
