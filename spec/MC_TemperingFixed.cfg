SPECIFICATION Spec
CONSTANTS N = 3
  Prog <- MCProg
  Beta <- MCBeta
  UDraw <- MCUDraw
  PairSeq <- MCFixed
INVARIANT ProbsBelong
INVARIANT EqualAdvance
INVARIANT Terminal
CHECK_DEADLOCK FALSE
