---- MODULE MC_PiecewiseLinear ----
EXTENDS PiecewiseLinear, Json, SequencesExt
CONSTANTS MaxCells, PMax
Steps == {<<1, 1>>, <<2, 1>>, <<1, 2>>}            \* cell widths: uniform and non-uniform dyadic grids
Ts == {<<0, 1>>, <<1, 4>>, <<1, 2>>, <<3, 4>>}
Special == { [x |-> <<<<0, 1>>, <<1, 1>>, <<3, 1>>>>, p |-> <<<<100000, 1>>, <<100001, 1>>, <<100000, 1>>>>],       \* |delta| < 1e-5: near-zero branch
             [x |-> <<<<-5, 2>>, <<-2, 1>>, <<0, 1>>, <<4, 1>>>>, p |-> <<<<0, 1>>, <<3, 1>>, <<3, 1>>, <<1, 8>>>>] }
RECURSIVE Cum(_, _)
Cum(ws, n) == IF n = 0 THEN <<0, 1>> ELSE RAdd(Cum(ws, n - 1), ws[n])
VARIABLES tab, out
Init == /\ \/ \E n \in 1..MaxCells : \E ws \in [1..n -> Steps], ps \in [1..(n + 1) -> 0..PMax] :
                 /\ tab = [x |-> [i \in 1..(n + 1) |-> Cum(ws, i - 1)], p |-> [i \in 1..(n + 1) |-> RInt(ps[i])]]
                 /\ \E i \in 1..n : ps[i] + ps[i + 1] > 0
           \/ tab \in Special
        /\ out = 0
Positive == {i \in 1..NCells(tab) : RLess(RZero, CellArea(tab, i))}
Next == /\ out = 0 /\ out' = 1 /\ UNCHANGED tab
        /\ PrintT(ToJson([x |-> tab.x, p |-> tab.p, mass |-> [i \in 1..NCells(tab) |-> CellMass(tab, i)],
                          draws |-> SetToSeq({[i |-> i, t |-> t, u |-> UOf(tab, i, t), s |-> SampleAt(tab, i, t)] : i \in Positive, t \in Ts})]))
Ref == Ascending(tab) /\ MassesSumToOne(tab) /\ \A i \in Positive : UMonotone(tab, i) /\ UEnds(tab, i)
====
