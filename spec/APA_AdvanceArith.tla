---------------------------- MODULE APA_AdvanceArith ----------------------------
(* C08 / C15, unbounded: the stepping arithmetic of the grouped loops (AdvanceArith.tla, as coded) takes exactly the requested      *)
(* number of steps and makes exactly n div interval exchange rounds for EVERY n >= 0, for the swap intervals 1..MaxIv (literal,   *)
(* so that every division has a constant divisor).  Checked symbolically by Apalache; TLC checks the same identities for          *)
(* n <= MaxN (MC_AdvanceArith).                                                                                                  *)
EXTENDS Integers
MaxIv == 40
VARIABLES
    \* @type: Int;
    n
K0 == 50
TotalCycles(iv) == n \div iv
K(iv) == IF K0 < TotalCycles(iv) THEN TotalCycles(iv) ELSE K0
Cycles(iv) == IF K0 < TotalCycles(iv) THEN 1 ELSE TotalCycles(iv) \div K0
\* K * Cycles without a product of two unknowns: either TotalCycles * 1 or 50 * (TotalCycles div 50)
KCycles(iv) == IF K0 < TotalCycles(iv) THEN TotalCycles(iv) ELSE K0 * (TotalCycles(iv) \div K0)
Rest(iv) == IF TotalCycles(iv) % K(iv) # 0 THEN TotalCycles(iv) % K(iv) ELSE 0
\* TotalCycles % K: K is either TotalCycles (remainder 0) or 50
RestLin(iv) == IF K0 < TotalCycles(iv) THEN 0 ELSE TotalCycles(iv) % K0
PTSteps(iv) == KCycles(iv) * iv + RestLin(iv) * iv + (IF n % iv # 0 THEN n % iv ELSE 0)
PTSwaps(iv) == KCycles(iv) + RestLin(iv)
ChainSteps == 100 * (n \div 100) + (IF n % 100 # 0 THEN n % 100 ELSE 0)
Init == n \in Nat
Next == UNCHANGED n
Inv == /\ ChainSteps = n
       /\ \A iv \in 1..MaxIv : PTSteps(iv) = n /\ PTSwaps(iv) = TotalCycles(iv)
=============================================================================
