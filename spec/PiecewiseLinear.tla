--------------------------- MODULE PiecewiseLinear ---------------------------
(***************************************************************************)
(* C20 -- sampling a tabulated density: the samples follow the piecewise-   *)
(* linear interpolant of the table (x_0 < ... < x_n, p_i >= 0) exactly.     *)
(*   cell i carries mass   m_i = 1/2 (p_i + p_{i+1}) (x_{i+1} - x_i) / Z    *)
(*   inside cell i the density is linear; with t in [0,1] the local         *)
(*   coordinate and d_i = (p_{i+1} - p_i)/(p_{i+1} + p_i), the CDF is       *)
(*         (1 - d) t + d t^2 = u                                            *)
(*   Sample(i, u) = x_i + t(u) (x_{i+1} - x_i).                             *)
(* TLC works backwards (chooses t, computes u), so everything is rational.  *)
(***************************************************************************)
EXTENDS Rational, FiniteSets, TLC
NCells(tab) == Len(tab.x) - 1
Dx(tab, i) == RSub(tab.x[i + 1], tab.x[i])
CellArea(tab, i) == RMul(RMul(<<1, 2>>, RAdd(tab.p[i], tab.p[i + 1])), Dx(tab, i))
TotalArea(tab) == RSum([i \in 1..NCells(tab) |-> CellArea(tab, i)], NCells(tab))
CellMass(tab, i) == RDiv(CellArea(tab, i), TotalArea(tab))
Delta(tab, i) == RDiv(RSub(tab.p[i + 1], tab.p[i]), RAdd(tab.p[i + 1], tab.p[i]))
UOf(tab, i, t) == LET d == Delta(tab, i) IN RAdd(RMul(RSub(ROne, d), t), RMul(d, RMul(t, t)))
SampleAt(tab, i, t) == RAdd(tab.x[i], RMul(t, Dx(tab, i)))
Ascending(tab) == \A i \in 1..NCells(tab) : RLess(tab.x[i], tab.x[i + 1])
\* properties of the reference itself
MassesSumToOne(tab) == RSum([i \in 1..NCells(tab) |-> CellMass(tab, i)], NCells(tab)) = ROne
UMonotone(tab, i) == \A t1, t2 \in {<<0, 1>>, <<1, 4>>, <<1, 2>>, <<3, 4>>, <<1, 1>>} :
                        RLess(t1, t2) => RLeq(UOf(tab, i, t1), UOf(tab, i, t2))
UEnds(tab, i) == UOf(tab, i, RZero) = RZero /\ UOf(tab, i, ROne) = ROne
=============================================================================
