"""C02 -- GP regression returns the exact Gaussian-process posterior.

MC   : GpExact.tla on KernelExact.tla: m(q) + K_qx (K_xx + S)^-1 (y - m(x)) and K_qq - K_qx (K_xx + S)^-1 K_xq in exact rationals
       for every enumerated problem (1-3 data points in 1-D / 2-D, SE / RQ / +white / +heteroscedastic noise, constant / linear /
       quadratic mean, zero / uniform / per-point / full data-error covariance); TLC checks symmetry, 0 <= var <= prior variance,
       order independence, and that leave-one-out by deletion equals the inverse-diagonal shortcut.
S->C : every problem is built with the real GpRegressor (hyper-parameters passed explicitly): __call__, build_posterior,
       build_posterior(mean_only=True), with y_err and with the equivalent y_cov (arrays and lists), with the training set in given
       and reversed order.
"""
import numpy as np

from harness.core import Check
from harness import gpexact as GE
from harness import gpkit as G


def run(tier):
    ck = Check("C02", tier)
    ck.rule = "one case per TLC-enumerated GP problem (data, noise, kernel, mean), each evaluated through 4-7 call variants"
    ck.assumptions = ["rational kernel families (KernelExact.tla); 1e-9 tolerance relative to the prior variance / data scale",
                      "the stabilising jitter (1e-12 amplitude^2) is below the tolerance"]
    probs = GE.explore(ck)
    for c in probs:
        pb = c["pb"]
        Q = np.array(c["Q"], dtype=float)
        idn = GE.ident(pb)
        ck.case(str(idn))
        want_mu = G.rvec(c["mean"])
        want_cov = G.rmat(c["cov"])
        prior = G.rvec(c["prior"])
        scale = float(max(np.max(prior), 1.0))
        yscale = float(np.max(np.abs(pb["y"])) + 1.0)
        n = len(pb["X"])
        has_hn = pb["kern"]["k"] == "sum" and any(p["k"] == "hn" for p in pb["kern"]["parts"])
        variants = [("auto", None)]
        sig = G.rmat(pb["sig"])
        if sig.any():
            if np.allclose(sig, np.diag(np.diag(sig))):
                variants += [("cov", None), ("errlist", None), ("covlist", None)]
            else:
                variants += [("covlist", None)]
        if n > 1 and not has_hn:
            variants.append(("auto", list(range(n))[::-1]))
        variants.append(("auto:integer-typed x", None))
        if pb["kern"]["k"] in ("se", "rq"):
            variants.append(("auto:units 2^-20", None))
        base_mu, base_cov, base_prior, base_scale, base_yscale = want_mu, want_cov, prior, scale, yscale
        for variant, order in variants:
            what = {"errors_given_as": variant, "training_order": order}
            xint = variant.endswith("integer-typed x")
            units = -20 if variant.endswith("units 2^-20") else 0
            variant = variant.split(":")[0]
            c_ = 2.0 ** units
            try:
                gp, hp, _ = GE.regressor(pb, variant, order, xint=xint, units=units)
                q = Q if Q.shape[1] > 1 else Q[:, 0]
                mu, sd = gp(q)
                mu2, S2 = gp.build_posterior(q)
                mu3 = gp.build_posterior(q, mean_only=True)
                if units:       # back to the units of the reference
                    mu, mu2, mu3 = np.asarray(mu) / c_, np.asarray(mu2) / c_, np.asarray(mu3) / c_
                    sd, S2 = np.asarray(sd) / c_, np.asarray(S2) / (c_ * c_)
            except Exception as ex:
                ck.violation("GpRegressor raised on a valid problem", {**idn, **what, "error": repr(ex)[:300]}, site="GpRegressor")
                continue
            if not (GE.close(mu, want_mu, yscale) and GE.close(mu2, want_mu, yscale) and GE.close(mu3, want_mu, yscale)):
                ck.violation("predictive mean = m(q) + K_qx (K_xx + S)^-1 (y - m(x)) (point-wise, joint and mean-only calls agree)",
                             {**idn, **what, "want": want_mu, "call": mu, "build_posterior": mu2, "mean_only": mu3}, site="GpRegressor.mean")
            if what["errors_given_as"] == "auto" and order is None:
                # path independence: other hyper-parameters set (and used) in between, compared with a fresh regressor in the same state,
                # then the original ones restored
                try:
                    gp.set_hyperparameters(hp + 0.37)
                    mu_o, sd_o = gp(q)
                    fresh, _, _ = GE.regressor(pb, variant, order)
                    fresh.set_hyperparameters(hp + 0.37)
                    mu_f, sd_f = fresh(q)
                    gp.set_hyperparameters(hp)
                    mu_r, sd_r = gp(q)
                    if not (np.allclose(mu_o, mu_f, rtol=1e-10, atol=1e-12) and np.allclose(sd_o, sd_f, rtol=1e-10, atol=1e-12)
                            and np.array_equal(np.asarray(mu_r), np.asarray(mu)) and np.array_equal(np.asarray(sd_r), np.asarray(sd))):
                        ck.violation("predictions depend only on the data and the current hyper-parameters (not on hyper-parameters set and used before)",
                                     {**idn, "after_change": mu_o, "fresh_regressor_same_state": mu_f, "first": mu, "after_restoring": mu_r},
                                     site="GpRegressor.set_hyperparameters:stale-state")
                except Exception as ex:
                    ck.violation("GpRegressor raised on a valid problem", {**idn, **what, "error": repr(ex)[:300]}, site="GpRegressor")
            var = np.asarray(sd, dtype=float) ** 2
            if not (GE.close(var, np.diag(want_cov), scale) and GE.close(S2, want_cov, scale)):
                ck.violation("predictive (co)variance = K_qq - K_qx (K_xx + S)^-1 K_xq",
                             {**idn, **what, "want": want_cov, "call_variance": var, "build_posterior": S2}, site="GpRegressor.variance")
            elif np.any(var < -1e-9 * scale) or np.any(var > prior * (1 + 1e-9) + 1e-9):
                ck.violation("predictive variances lie between zero and the prior variance", {**idn, **what, "variance": var, "prior": prior},
                             site="GpRegressor.variance")
        if len(ck.samples) < 3 and n == 3 and pb["mean"]["k"] == "lin":
            ck.sample({**idn, "queries": c["Q"], "spec_mean": want_mu.tolist(), "spec_cov_diag": np.diag(want_cov).tolist()})
    ck.traces += len(probs)
    return ck.finish()
