SPECIFICATION Spec
CONSTANTS NS = 2 MaxOps = 4 Alias = FALSE
INVARIANT UserArraysUnchanged
INVARIANT NonInterference
CHECK_DEADLOCK FALSE
