---- MODULE ReadoutTrace ----
(* C14, code -> spec: every recorded get_interval call must satisfy IntervalOK *)
EXTENDS Readout, TLCExt, Json, IOUtils
Log == ndJsonDeserialize(IOEnv.TRACE_FILE)
VARIABLES l, okv
vars == <<l, okv>>
Ev == Log[l]
TraceInit == TLCSet(1, 1) /\ l = 1 /\ okv = TRUE
\* a failing call is reported by index (one line each) instead of as an invariant violation, so that ALL of them are found in one pass
\* (self-check of the specification: with all ranks distinct the top fraction is unique and is the set Top)
DistinctRanks == Cardinality({Ev.rank[i] : i \in 1..Len(Ev.rank)}) = Len(Ev.rank)
Call == LET ok == /\ IntervalOK(Ev.n, Ev.burn, Ev.thin, Ev.f8, Ev.m, Ev.rank, Ev.ids, Ev.pids, Ev.ndim)
                  /\ (DistinctRanks => TopAgrees(Select(Ev.n, Ev.burn, Ev.thin), Ev.rank, Ev.f8))
        IN okv' = ok /\ (IF ok THEN TRUE ELSE PrintT(<<"BAD", l>>))
TraceNext == l <= Len(Log) /\ l' = l + 1 /\ Call
TraceSpec == TraceInit /\ [][TraceNext]_vars
Holds == okv
Progress == TLCSet(1, IF l > TLCGet(1) THEN l ELSE TLCGet(1))
TraceAccepted == IF TLCGet(1) = Len(Log) + 1 THEN TRUE ELSE PrintT(<<"REJECTED at line", TLCGet(1)>>) /\ FALSE
====
