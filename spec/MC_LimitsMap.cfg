INIT MInit
NEXT MNext
CONSTANTS LoMin = 3 LoMax = 2 WMax = 5 R = 30
INVARIANT Laws
INVARIANT FoldLaws
CHECK_DEADLOCK FALSE
