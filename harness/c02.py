"""C02 -- GP regression returns the exact Gaussian-process posterior.

MC   : GpExact.tla on KernelExact.tla: m(q) + K_qx (K_xx + S)^-1 (y - m(x)) and K_qq - K_qx (K_xx + S)^-1 K_xq in exact rationals
       for every enumerated problem (1-3 data points in 1-D / 2-D, SE / RQ / +white / +heteroscedastic noise, constant / linear /
       quadratic mean, zero / uniform / per-point / full data-error covariance); TLC checks symmetry, 0 <= var <= prior variance,
       order independence, and that leave-one-out by deletion equals the inverse-diagonal shortcut.
S->C : every problem is built with the real GpRegressor (hyper-parameters passed explicitly): __call__, build_posterior,
       build_posterior(mean_only=True), with y_err and with the equivalent y_cov (arrays and lists), with the training set in given
       and reversed order.
"""
import json
import numpy as np

from harness.core import Check
from harness import gpexact as GE
from harness import gpkit as G


def run(tier):
    ck = Check("C02", tier)
    ck.rule = "one case per TLC-enumerated GP problem (data, noise, kernel, mean), each evaluated through 4-7 call variants"
    ck.assumptions = ["rational kernel families (KernelExact.tla); 1e-9 tolerance relative to the prior variance / data scale",
                      "the stabilising jitter (1e-12 amplitude^2) is below the tolerance"]
    probs = GE.explore(ck)
    for c in probs:
        pb = c["pb"]
        Q = np.array(c["Q"], dtype=float)
        idn = GE.ident(pb)
        ck.case(str(idn))
        want_mu = G.rvec(c["mean"])
        want_cov = G.rmat(c["cov"])
        prior = G.rvec(c["prior"])
        scale = float(max(np.max(prior), 1.0))
        yscale = float(np.max(np.abs(pb["y"])) + 1.0)
        n = len(pb["X"])
        has_hn = pb["kern"]["k"] == "sum" and any(p["k"] == "hn" for p in pb["kern"]["parts"])
        variants = [("auto", None)]
        sig = G.rmat(pb["sig"])
        if sig.any():
            if np.allclose(sig, np.diag(np.diag(sig))):
                variants += [("cov", None), ("errlist", None), ("covlist", None)]
            else:
                variants += [("covlist", None)]
        if n > 1 and not has_hn:
            variants.append(("auto", list(range(n))[::-1]))
        variants.append(("auto:integer-typed x", None))
        Xa = np.array(pb["X"], dtype=float)
        stationary = "cp" not in json.dumps(pb["kern"])                           # a change-point is tied to its location
        if stationary and np.all((Xa.sum(axis=0) * 4096.0 / n) == np.round(Xa.sum(axis=0) * 4096.0 / n)):
            variants.append(("auto:coordinates shifted by 2^40", None))       # (data mean exactly representable there)
        if pb["kern"]["k"] in ("se", "rq"):
            variants.append(("auto:units 2^-20", None))
        base_mu, base_cov, base_prior, base_scale, base_yscale = want_mu, want_cov, prior, scale, yscale
        for variant, order in variants:
            what = {"errors_given_as": variant, "training_order": order}
            xint = variant.endswith("integer-typed x")
            units = -20 if variant.endswith("units 2^-20") else 0
            xshift = (2.0 ** 40 + 1234567 * 2.0 ** -12) if variant.endswith("shifted by 2^40") else 0.0      # a full 53-bit mantissa
            variant = variant.split(":")[0]
            c_ = 2.0 ** units
            try:
                gp, hp, _ = GE.regressor(pb, variant, order, xint=xint, units=units, xshift=xshift)
                q = (Q + xshift) if Q.shape[1] > 1 else (Q + xshift)[:, 0]
                mu, sd = gp(q)
                mu2, S2 = gp.build_posterior(q)
                mu3 = gp.build_posterior(q, mean_only=True)
                if units:       # back to the units of the reference
                    mu, mu2, mu3 = np.asarray(mu) / c_, np.asarray(mu2) / c_, np.asarray(mu3) / c_
                    sd, S2 = np.asarray(sd) / c_, np.asarray(S2) / (c_ * c_)
            except Exception as ex:
                ck.violation("GpRegressor raised on a valid problem", {**idn, **what, "error": repr(ex)[:300]}, site="GpRegressor")
                continue
            # a joint call with exactly as many query points as data points (the query points repeated cyclically): the same posterior, row by row
            try:
                nd = len(np.atleast_1d(gp.y))
                rows = [(i + 1) % len(Q) for i in range(nd)]
                qn = (Q[rows] + xshift) if Q.shape[1] > 1 else (Q[rows] + xshift)[:, 0]
                mu_n, S_n = gp.build_posterior(qn)
                mu_n, S_n = np.asarray(mu_n, dtype=float) / c_, np.asarray(S_n, dtype=float) / (c_ * c_)
                if not (GE.close(mu_n, np.asarray(want_mu)[rows], yscale) and GE.close(S_n, np.asarray(want_cov)[np.ix_(rows, rows)], scale)):
                    ck.violation("joint posterior at as many query points as there are data points = the exact posterior at those points",
                                 {**idn, **what, "query_rows": rows, "want_mean": np.asarray(want_mu)[rows], "got_mean": mu_n}, site="GpRegressor.build_posterior:same-count")
            except Exception as ex:
                ck.violation("GpRegressor raised on a valid problem", {**idn, **what, "error": repr(ex)[:300]}, site="GpRegressor")
            # one query point given as a FLAT array of its coordinates (two or more dimensions): the posterior at that one point
            if Q.shape[1] > 1:
                try:
                    for i_ in range(len(Q)):
                        q1 = (Q[i_] + xshift).copy()
                        m1_, S1_ = gp.build_posterior(q1)
                        m1o = gp.build_posterior(q1, mean_only=True)
                        m1_, m1o, S1_ = np.asarray(m1_, dtype=float).ravel() / c_, np.asarray(m1o, dtype=float).ravel() / c_, np.asarray(S1_, dtype=float).ravel() / (c_ * c_)
                        if not (m1_.shape == (1,) and m1o.shape == (1,) and S1_.shape == (1,) and GE.close(m1_, np.asarray(want_mu)[i_:i_ + 1], yscale)
                                and GE.close(m1o, np.asarray(want_mu)[i_:i_ + 1], yscale) and GE.close(S1_, np.asarray(want_cov)[i_, i_:i_ + 1], scale)):
                            ck.violation("joint / mean-only posterior at ONE query point given as a flat array = the exact posterior at that point",
                                         {**idn, **what, "query": q1, "want_mean": np.asarray(want_mu)[i_], "build_posterior": m1_, "mean_only": m1o},
                                         site="GpRegressor.build_posterior:flat-point")
                            break
                except Exception as ex:
                    ck.violation("GpRegressor raised on a valid problem", {**idn, **what, "error": repr(ex)[:300]}, site="GpRegressor")
            if not (GE.close(mu, want_mu, yscale) and GE.close(mu2, want_mu, yscale) and GE.close(mu3, want_mu, yscale)):
                ck.violation("predictive mean = m(q) + K_qx (K_xx + S)^-1 (y - m(x)) (point-wise, joint and mean-only calls agree)",
                             {**idn, **what, "want": want_mu, "call": mu, "build_posterior": mu2, "mean_only": mu3}, site="GpRegressor.mean")
            if what["errors_given_as"] == "auto" and order is None:
                # path independence: other hyper-parameters set (and used) in between, compared with a fresh regressor in the same state,
                # then the original ones restored
                try:
                    hp += 0.37                                   # the caller's own array (the one given at construction), modified IN PLACE
                    gp.set_hyperparameters(hp)
                    mu_o, sd_o = gp(q)
                    fresh, _, _ = GE.regressor(pb, variant, order)
                    fresh.set_hyperparameters(hp.copy())
                    mu_f, sd_f = fresh(q)
                    hp -= 0.37
                    gp.set_hyperparameters(hp)
                    mu_r, sd_r = gp(q)
                    if not (np.allclose(mu_o, mu_f, rtol=1e-10, atol=1e-12) and np.allclose(sd_o, sd_f, rtol=1e-10, atol=1e-12)
                            and np.allclose(mu_r, mu, rtol=1e-10, atol=1e-12) and np.allclose(sd_r, sd, rtol=1e-10, atol=1e-12)):
                        ck.violation("predictions depend only on the data and the current hyper-parameters (not on hyper-parameters set and used before)",
                                     {**idn, "after_change": mu_o, "fresh_regressor_same_state": mu_f, "first": mu, "after_restoring": mu_r},
                                     site="GpRegressor.set_hyperparameters:stale-state")
                    # ... and the public scores evaluated at OTHER hyper-parameters in between (a scan of the likelihood surface) leave them alone
                    other = hp + 0.61
                    for fn in ("marginal_likelihood", "loo_likelihood", "marginal_likelihood_gradient", "loo_likelihood_gradient"):
                        getattr(gp, fn)(other.copy())
                        mu_s, sd_s = gp(q)
                        mu_s2, S_s2 = gp.build_posterior(q)
                        if not (np.allclose(mu_s, mu_r, rtol=1e-10, atol=1e-12) and np.allclose(sd_s, sd_r, rtol=1e-10, atol=1e-12)
                                and np.allclose(mu_s2, mu_r, rtol=1e-10, atol=1e-12)
                                and np.allclose(np.sqrt(np.abs(np.diag(np.atleast_2d(S_s2)))), sd_r, rtol=1e-7, atol=1e-9)):
                            ck.violation("predictions depend only on the data and the current hyper-parameters (not on hyper-parameters a score was evaluated at in between)",
                                         {**idn, "score_called": fn, "before": [mu_r, sd_r], "after": [mu_s, sd_s]}, site="GpRegressor.score:stale-state")
                            break
                except Exception as ex:
                    ck.violation("GpRegressor raised on a valid problem", {**idn, **what, "error": repr(ex)[:300]}, site="GpRegressor")
            var = np.asarray(sd, dtype=float) ** 2
            if not (GE.close(var, np.diag(want_cov), scale) and GE.close(S2, want_cov, scale)):
                ck.violation("predictive (co)variance = K_qq - K_qx (K_xx + S)^-1 K_xq",
                             {**idn, **what, "want": want_cov, "call_variance": var, "build_posterior": S2}, site="GpRegressor.variance")
            elif np.any(var < -1e-9 * scale) or np.any(var > prior * (1 + 1e-9) + 1e-9):
                ck.violation("predictive variances lie between zero and the prior variance", {**idn, **what, "variance": var, "prior": prior},
                             site="GpRegressor.variance")
        # far beyond a SHARP change-point (transition 2^-11 wide, all points >= 1 to its right) the prior is the second kernel's: the posterior
        # is the one of the plain problem with that kernel
        if pb["kern"]["k"] in ("se", "rq") and Q.shape[1] == 1:
            from inference.gp import GpRegressor
            ck.case(str(idn) + "sharp-cp")
            try:
                first = {"k": "se", "ja": 0, "m": [3]}
                cpk, cth = G.build_kernel({"k": "cp", "parts": [first, pb["kern"]], "axis": 1, "cs": [-3]}, 1, n)
                cth = list(cth)
                cth[-1] = 2.0 ** -11 / np.log(2.0)
                meanc, mthc = G.build_mean(pb["mean"])
                sig_ = G.rmat(pb["sig"])
                gpc = GpRegressor(x=np.array(pb["X"], dtype=float)[:, 0], y=np.array(pb["y"], dtype=float), y_cov=sig_ if sig_.any() else None,
                                  hyperpars=np.array(list(mthc) + cth), kernel=cpk, mean=meanc)
                with np.errstate(all="ignore"):
                    mu_c, sd_c = gpc(Q[:, 0])
                    mu_c2, S_c2 = gpc.build_posterior(Q[:, 0])
                if not (GE.close(mu_c, base_mu, base_yscale) and GE.close(mu_c2, base_mu, base_yscale) and GE.close(np.asarray(sd_c) ** 2, np.diag(base_cov), base_scale)
                        and GE.close(S_c2, base_cov, base_scale)):
                    ck.violation("far to the right of a sharp change-point the posterior is that of the second kernel alone",
                                 {**idn, "change_point": -3, "width": cth[-1], "want_mean": base_mu, "got_mean": mu_c, "got_variance": np.asarray(sd_c) ** 2},
                                 site="ChangePoint.__call__:far-side")
            except Exception as ex:
                ck.violation("GpRegressor with a sharp change-point raised", {**idn, "error": repr(ex)[:300]}, site="ChangePoint.__call__:far-side")
        # two regressors built from the SAME kernel and mean objects (other data for the second one) are independent of each other
        try:
            from inference.gp import GpRegressor
            kinst, cth_ = G.build_kernel(pb["kern"], Q.shape[1], n)
            minst, mth_ = G.build_mean(pb["mean"])
            hp_ = np.array(list(mth_) + list(cth_), dtype=float)
            Xf = np.array(pb["X"], dtype=float)
            sig_ = G.rmat(pb["sig"])
            kw_ = {"y_cov": sig_} if sig_.any() else {}
            import warnings as _w
            with _w.catch_warnings(), np.errstate(all="ignore"):
                _w.simplefilter("ignore")
                gA = GpRegressor(x=Xf if Q.shape[1] > 1 else Xf[:, 0], y=np.array(pb["y"], dtype=float), hyperpars=hp_.copy(), kernel=kinst, mean=minst, **kw_)
                gB = GpRegressor(x=(Xf * 1.5 + 0.25) if Q.shape[1] > 1 else (Xf * 1.5 + 0.25)[:, 0], y=np.array(pb["y"], dtype=float) + 1.0,
                                 hyperpars=hp_.copy(), kernel=kinst, mean=minst, **kw_)
                gA.set_hyperparameters(hp_.copy())
                qq = Q if Q.shape[1] > 1 else Q[:, 0]
                muA, sdA = gA(qq)
            ck.case(str(idn) + "shared-kernel")
            if not (GE.close(muA, base_mu, base_yscale) and GE.close(np.asarray(sdA) ** 2, np.diag(base_cov), base_scale)):
                ck.violation("a regressor is unaffected by another regressor built from the same covariance-function and mean-function objects",
                             {**idn, "want_mean": base_mu, "got_mean": muA, "second_regressor_x": (Xf * 1.5 + 0.25).tolist()}, site="GpRegressor.__init__:shared-kernel")
        except Exception as ex:
            ck.violation("regressors sharing a kernel object raised", {**idn, "error": repr(ex)[:300]}, site="GpRegressor.__init__:shared-kernel")
        # m(x) and m(q) are the same function also far from the origin (data translated by ~2^40, non-dyadic mean parameters)
        try:
            err = G.mean_consistency(pb["mean"], pb["X"], 2.0 ** 40 + 1234567 * 2.0 ** -12)
            if not err <= 1e-9:
                ck.violation("the mean function used for m(x) (build_mean) and for m(q) (__call__) is one function, also for coordinates far from zero",
                             {**idn, "relative_difference": err, "coordinates_translated_by": 2.0 ** 40}, site="MeanFunction.__call__:far")
        except Exception as ex:
            ck.violation("mean function raised on translated data", {**idn, "error": repr(ex)[:200]}, site="MeanFunction.__call__:far")
        if len(ck.samples) < 3 and n == 3 and pb["mean"]["k"] == "lin":
            ck.sample({**idn, "queries": c["Q"], "spec_mean": want_mu.tolist(), "spec_cov_diag": np.diag(want_cov).tolist()})
    ck.traces += len(probs)
    return ck.finish()
