------------------------------ MODULE KernelId ------------------------------
(***************************************************************************)
(* C01 -- identities of a one-attempt Metropolis-Hastings kernel on a       *)
(* finite lattice, evaluated on tables.  The tables are either derived from *)
(* the specification's own operators (Samplers.tla) or OBSERVED: tabulated  *)
(* by the harness from the real sampler by serving every (k, u) draw as the *)
(* first attempt of a step from every lattice point (DESIGN section 2f:     *)
(* the property's identity is the oracle).                                  *)
(*                                                                         *)
(* Obs[c][x][k][u] = index (1..NP) of the point reached from point x with   *)
(* displacement index k and uniform index u, or 0 when the move leaves the  *)
(* tabulated region (free proposals).  En[c][x] = energy / T of point x;    *)
(* Wt[c][x] = 2 * lattice weight (1 at a mirror point, 2 elsewhere).        *)
(* Tables are bound ONCE into state variables by Init (TLC re-evaluates     *)
(* large constants at every reference otherwise).                           *)
(***************************************************************************)
EXTENDS Integers, Sequences, FiniteSets, TLC
CONSTANTS NC, NP, NK, NU, Obs, En, Wt
RECURSIVE Pow2(_)
Pow2(n) == IF n = 0 THEN 1 ELSE 2 * Pow2(n - 1)
VARIABLES c, obs, cnt
Pts(i) == 1..NP[i]
Init == /\ c \in 1..NC
        /\ obs = Obs[c]
        /\ cnt = [x \in Pts(c) |-> [y \in Pts(c) |->
                    Cardinality({ku \in (1..NK) \X (1..NU) : obs[x][ku[1]][ku[2]] = y})]]
Next == UNCHANGED <<c, obs, cnt>>
Emax == CHOOSE e \in {En[c][x] : x \in Pts(c)} : \A x \in Pts(c) : En[c][x] <= e
\* proposals are reversible: y reachable from x iff x reachable from y
SupportSymmetric == \A x, y \in Pts(c) : (cnt[x][y] > 0) <=> (cnt[y][x] > 0)
\* detailed balance of the attempt kernel w.r.t. w(x) * 2^-E(x)/T by exact counting over all (k, u)
DetailedBalance == \A x, y \in Pts(c) : x # y =>
        Wt[c][x] * Pow2(Emax - En[c][x]) * cnt[x][y] = Wt[c][y] * Pow2(Emax - En[c][y]) * cnt[y][x]
\* the kernel can reach every point of the region
RECURSIVE Reach(_, _)
Reach(S, n) == IF n = 0 THEN S ELSE Reach(S \cup {y \in Pts(c) : \E x \in S : cnt[x][y] > 0}, n - 1)
Irreducible == Reach({1}, NP[c]) = Pts(c)

\* ---- the chain that is actually STORED when rejected proposals are retried inside the step (DESIGN section 6, F1) ----
\* escape count a(x) = number of (k,u) draws that leave x; the stored ("jump") chain moves x -> y with probability cnt[x][y]/a(x)
Esc(x) == Cardinality({ku \in (1..NK) \X (1..NU) : obs[x][ku[1]][ku[2]] # x})
\* it is reversible w.r.t. pi * a (follows from DetailedBalance) ...
JumpBalancePiA == \A x, y \in Pts(c) : (x # y /\ Esc(x) > 0 /\ Esc(y) > 0) =>
        Wt[c][x] * Pow2(Emax - En[c][x]) * cnt[x][y] = Wt[c][y] * Pow2(Emax - En[c][y]) * cnt[y][x]
\* ... and NOT w.r.t. pi unless the escape probability is constant: TLC is expected to refute this one
JumpBalancePi == \A x, y \in Pts(c) : (x # y /\ Esc(x) > 0 /\ Esc(y) > 0) =>
        Wt[c][x] * Pow2(Emax - En[c][x]) * cnt[x][y] * Esc(y) = Wt[c][y] * Pow2(Emax - En[c][y]) * cnt[y][x] * Esc(x)
=============================================================================
