"""C10 -- covariance and mean functions are valid and their gradients are exact.

MC   : KernelExact.tla -- SE / RQ / white / heteroscedastic noise, sums of any length, change-points with 2, 3 (and 4) kernels,
       change-point inside a sum; values, the data-covariance builder (pairwise + documented diagonal terms), every
       hyper-parameter gradient written from the kernel definitions, mean functions and their gradients -- all exact
       (rationals, ln / ln2 / ln2^2 atoms) on rational families; TLC checks symmetry, exact positive-definiteness where it fits
       32 bits, and gradient-list length = number of parameters.
S->C : every (point set, kernel, mean) case is built with the real classes: __call__, build_covariance,
       covariance_and_gradients, labels / n_params / bounds concatenation, build_mean, __call__ of the mean, mean_and_gradients.
"""
import json
import numpy as np

from harness.core import Check, run_tlc, must_pass, seed
from harness import symlin as SL
from harness import gpkit as G


def smat(m):
    return np.array([[SL.value(v) for v in row] for row in m], dtype=float)


def close(a, b, scale=1.0, rel=1e-9):
    a, b = np.asarray(a, dtype=float), np.asarray(b, dtype=float)
    return a.shape == b.shape and bool(np.all(np.isfinite(a))) and bool(np.all(np.abs(a - b) <= rel * max(1.0, scale, float(np.max(np.abs(b), initial=0.0)))))


def run(tier):
    ck = Check("C10", tier)
    ck.rule = "one case per TLC-enumerated (point set, kernel composition, mean function); distinct by construction"
    ck.assumptions = ["families with rational kernel values: SE with 1/(2L^2) = m ln2, RQ with alpha in {1,2}, noise variances 2^j, change-point width 1/ln2",
                      "the stabilising jitter is a free parameter: builder - pairwise must be a small non-negative multiple of the identity (<= 1e-9 amplitude^2; the code's is 1e-12 amplitude^2) plus the noise variances",
                      "change-points with 4 kernels only on a two-point set, sums inside change-points not enumerated (32-bit exact arithmetic)"]
    r = run_tlc("MC_KernelExact", cfg_text="INIT Init\nNEXT Next\nCONSTANT Deep = %s\nINVARIANT ValidCov\nINVARIANT GradCount\nCHECK_DEADLOCK FALSE\n" % ("TRUE" if tier == "thorough" else "FALSE"), timeout=1800)
    if r.violated:
        ck.violation("spec: KernelExact " + ",".join(r.violated), {"violated": r.violated}, site="spec")
    must_pass(r, "MC_KernelExact")
    ck.tlc(r, "kernel_reference")
    seen_k = set()
    for c in r.printed:
        X = np.array(c["X"], dtype=float)
        Q = np.array(c["Q"], dtype=float)
        n, d = X.shape
        kd, md = c["kern"], c["mean"]
        kkey = (json.dumps(c["X"]), json.dumps(kd))
        ident = {"X": c["X"], "kernel": kd}
        ck.case((kkey, json.dumps(md)))
        if kkey not in seen_k:
            seen_k.add(kkey)
            try:
                cov, theta = G.build_kernel(kd, d, n)
                theta = np.array(theta, dtype=float)
                # the kernel object first receives ANOTHER data set (one more point), then this one: nothing of the first may survive
                cov.pass_spatial_data(np.vstack([X, X[-1:] + 1.0]))
                cov.pass_spatial_data(X)
                cname = type(cov).__name__
                want_call, want_q, want_build = G.rmat(c["call"]), G.rmat(c["callq"]), G.rmat(c["build"])
                if cov.n_params != c["npar"] or len(cov.hyperpar_labels) != c["npar"] or len(theta) != c["npar"]:
                    ck.violation("n_params / labels: those of the components concatenated in order",
                                 {**ident, "spec": c["npar"], "n_params": cov.n_params, "labels": len(cov.hyperpar_labels)}, site=f"{cname}.n_params")
                got_call = np.asarray(cov(X, X, theta), dtype=float)
                got_q = np.asarray(cov(Q, X, theta), dtype=float)
                if not (close(got_call, want_call) and close(got_q, want_q)):
                    ck.violation("pairwise covariance value K(u, v) (noise kernels contribute nothing off the data covariance)",
                                 {**ident, "want": want_call, "got": got_call, "want_query": want_q, "got_query": got_q}, site=f"{cname}.__call__")
                # K(u, v) entry by entry: as many query points as data points (the query rows repeated cyclically) give the rows found above
                Qn = np.resize(Q, (n, d)) if len(Q) != n else np.vstack([Q, Q])[1:n + 1]
                rows = [i % len(Q) for i in range(n)] if len(Q) != n else [(i + 1) % len(Q) for i in range(n)]
                got_qn = np.asarray(cov(Qn, X, theta), dtype=float)
                if got_qn.shape != (n, n) or not close(got_qn, got_q[rows]) and close(got_q, want_q):
                    ck.violation("pairwise covariance value K(u, v): each entry depends on its own pair of points only (as many query points as data points)",
                                 {**ident, "query": Qn, "want": got_q[rows], "got": got_qn}, site=f"{cname}.__call__:same-shape")
                B = np.asarray(cov.build_covariance(theta), dtype=float)
                K2, grads = cov.covariance_and_gradients(theta)
                K2 = np.asarray(K2, dtype=float)
                # builder = pairwise + documented diagonal terms (+ a small non-negative jitter on the diagonal)
                for nm, M in (("build_covariance", B), ("covariance_and_gradients[0]", K2)):
                    diff = M - want_build
                    off = diff - np.diag(np.diag(diff))
                    amp = float(np.max(np.diag(want_build)))
                    if M.shape != want_build.shape or np.max(np.abs(off)) > 1e-9 * amp or np.min(np.diag(diff)) < -1e-9 * amp \
                            or np.max(np.diag(diff)) > 1e-9 * amp:
                        ck.violation("data-covariance builder = generic pairwise evaluation + documented diagonal terms (noise variances, small jitter)",
                                     {**ident, "method": nm, "want": want_build, "got": M}, site=f"{cname}.build_covariance")
                    elif not np.allclose(M, M.T, rtol=0, atol=1e-12 * amp) or np.min(np.linalg.eigvalsh(0.5 * (M + M.T))) < -1e-9 * amp:
                        ck.violation("symmetric positive-semidefinite covariance", {**ident, "method": nm, "got": M}, site=f"{cname}.build_covariance")
                if len(grads) != c["npar"]:
                    ck.violation("gradient list has one matrix per hyper-parameter, components concatenated in order",
                                 {**ident, "spec": c["npar"], "got": len(grads)}, site=f"{cname}.covariance_and_gradients")
                else:
                    for p in range(c["npar"]):
                        want_g = smat(c["grads"][p])
                        got_g = np.asarray(grads[p], dtype=float)
                        if not close(got_g, want_g, scale=float(np.max(np.abs(want_build)))):
                            ck.violation("hyper-parameter gradient matrix = true partial derivative of the covariance",
                                         {**ident, "parameter_index": p, "label": cov.hyperpar_labels[p] if p < len(cov.hyperpar_labels) else None,
                                          "want": want_g, "got": got_g}, site=f"{cname}.covariance_and_gradients")
                            break
                # far to the right of a SHARP change-point (transition 2^-11 wide at -3 on the first axis) the covariance is the second kernel's:
                # pairwise evaluation, the data-covariance builder and the value of covariance_and_gradients all agree with the plain kernel
                if kd["k"] in ("se", "rq") and float(np.min(X[:, 0])) > -2.5 and float(np.min(Q[:, 0])) > -2.5:
                    cpk, cth = G.build_kernel({"k": "cp", "parts": [{"k": "se", "ja": 0, "m": [3] * d}, kd], "axis": 1, "cs": [-3]}, d, n)
                    cth = np.array(cth, dtype=float)
                    cth[-1] = 2.0 ** -11 / np.log(2.0)
                    cpk.pass_spatial_data(X)
                    with np.errstate(all="ignore"):
                        c_call, c_q = np.asarray(cpk(X, X, cth), dtype=float), np.asarray(cpk(Q, X, cth), dtype=float)
                        c_build = np.asarray(cpk.build_covariance(cth), dtype=float)
                        c_kg = np.asarray(cpk.covariance_and_gradients(cth)[0], dtype=float)
                    sc_ = float(np.max(np.abs(want_call)))
                    if not (close(c_call, want_call, sc_) and close(c_q, want_q, sc_) and np.all(np.isfinite(c_build)) and np.all(np.isfinite(c_kg))
                            and np.max(np.abs(c_build - want_build)) <= 1e-8 * sc_ and np.max(np.abs(c_kg - want_build)) <= 1e-8 * sc_):
                        ck.violation("far to the right of a sharp change-point the covariance (pairwise, builder, value of covariance_and_gradients) is the "
                                     "second kernel's", {**ident, "change_point": -3, "width": float(cth[-1]), "want": want_call, "pairwise": c_call, "builder": c_build},
                                     site="ChangePoint.__call__:far-side")
                # RQ / SE pairwise evaluation on a translated point set (stationary kernels): K(u + S, v + S) = K(u, v), also for S ~ 2^40
                if "cp" not in json.dumps(kd):
                    S_ = 2.0 ** 40 + 1234567 * 2.0 ** -12
                    cov_s, _ = G.build_kernel(kd, d, n)
                    cov_s.pass_spatial_data(X + S_)
                    with np.errstate(all="ignore"):
                        s_call, s_q = np.asarray(cov_s(X + S_, X + S_, theta), dtype=float), np.asarray(cov_s(Q + S_, X + S_, theta), dtype=float)
                        s_build = np.asarray(cov_s.build_covariance(theta), dtype=float)
                    sc_ = float(np.max(np.abs(want_build)))
                    if not (close(s_call, want_call, sc_) and close(s_q, want_q, sc_) and np.max(np.abs(s_build - want_build)) <= 1e-8 * sc_):
                        ck.violation("a stationary covariance function gives the same values on a point set translated far from the origin",
                                     {**ident, "translated_by": S_, "want": want_call, "pairwise": s_call}, site=f"{cname}.__call__:far")
                # change-point bounds given by the user: each location / width parameter (by its label) gets ITS bound
                cps = [kd] if kd["k"] == "cp" else [p_ for p_ in kd.get("parts", []) if p_["k"] == "cp"]
                for cpd in cps:
                    from inference.gp.covariance import ChangePoint
                    import re as _re
                    nk = len(cpd["parts"])
                    lb = [(-1.0 - i, 2.0 + i) for i in range(nk - 1)]
                    wb = [(0.01 * (i + 1), 0.5 * (i + 1)) for i in range(nk - 1)]
                    cpo = ChangePoint(kernels=[G.build_kernel(p_, d, n)[0] for p_ in cpd["parts"]], axis=cpd["axis"] - 1, location_bounds=lb, width_bounds=wb)
                    cpo.pass_spatial_data(X)
                    cpo.estimate_hyperpar_bounds(np.array([0.5, -1.0, 2.0, 1.5])[:n])
                    wrong = []
                    for lab, bnd in zip(cpo.hyperpar_labels, cpo.bounds):
                        m_ = _re.search(r"ChngPnt(\d+) (location|width)", lab)
                        if m_:
                            want_b = (lb if m_.group(2) == "location" else wb)[int(m_.group(1))]
                            if tuple(float(v) for v in bnd) != tuple(float(v) for v in want_b):
                                wrong.append({"label": lab, "bound": [float(v) for v in bnd], "given": list(want_b)})
                    if wrong or len(cpo.bounds) != len(cpo.hyperpar_labels):
                        ck.violation("bounds follow the order of the hyper-parameters and labels: each change-point location / width gets the bound given for it",
                                     {**ident, "mismatched": wrong[:3]}, site="ChangePoint.estimate_hyperpar_bounds")
                # bounds of a composite are those of the components concatenated in order
                y = np.array([0.5, -1.0, 2.0, 1.5])[:n]
                cov.estimate_hyperpar_bounds(y)
                comps = getattr(cov, "components", None)
                if comps is not None:
                    cat = [b for cc in comps for b in cc.bounds]
                    if list(cov.bounds) != cat or len(cov.bounds) != c["npar"]:
                        ck.violation("bounds of a composite = bounds of its components concatenated in order", {**ident, "n_bounds": len(cov.bounds)},
                                     site=f"{cname}.estimate_hyperpar_bounds")
                elif len(cov.bounds) != c["npar"]:
                    ck.violation("one bound per hyper-parameter", {**ident, "n_bounds": len(cov.bounds), "npar": c["npar"]},
                                 site=f"{cname}.estimate_hyperpar_bounds")
                # a composite built in steps from an existing composite: A = k1 + .. + k(m-1), then B = A + km and C = km' + A.  B is the
                # full sum; A is still the sum of ITS components afterwards (value, labels, parameter count)
                if kd["k"] == "sum" and len(kd["parts"]) >= 2:
                    parts = [G.build_kernel(p_, d, n) for p_ in kd["parts"]]
                    A_ = parts[0][0]
                    for p_ in parts[1:-1]:
                        A_ = A_ + p_[0]
                    thA = np.array([t for p_ in parts[:-1] for t in p_[1]], dtype=float)
                    A_.pass_spatial_data(X)
                    before = (A_.n_params, list(A_.hyperpar_labels), np.asarray(A_(X, X, thA), dtype=float).copy())
                    B_ = A_ + parts[-1][0]
                    C_ = G.build_kernel(kd["parts"][-1], d, n)[0] + A_
                    B_.pass_spatial_data(X)
                    C_.pass_spatial_data(X)
                    after = (A_.n_params, list(A_.hyperpar_labels), np.asarray(A_(X, X, thA), dtype=float))
                    okA = before[0] == after[0] == len(thA) and before[1] == after[1] and np.array_equal(before[2], after[2])
                    okB = B_.n_params == c["npar"] and close(np.asarray(B_(X, X, theta), dtype=float), want_call, sc_ := float(np.max(np.abs(want_call))))
                    okC = C_.n_params == c["npar"]
                    if not (okA and okB and okC):
                        ck.violation("a composite's value, labels and parameter count are those of its components (also after it was used to build another composite)",
                                     {**ident, "A_n_params_before_after": [before[0], after[0]], "A_labels_after": after[1], "B_n_params": B_.n_params,
                                      "C_n_params": C_.n_params, "spec_n_params": c["npar"]}, site="CompositeCovariance.__add__")
                if len(ck.samples) < 3 and kd["k"] == "sum" and any(p["k"] == "cp" for p in kd["parts"]):
                    ck.sample({**ident, "theta": theta.tolist(), "spec_build": want_build.tolist(), "n_gradients": c["npar"]})
            except Exception as ex:
                ck.violation("kernel evaluation raised", {**ident, "error": repr(ex)}, site="covariance")
        # mean function
        try:
            mean, mth = G.build_mean(md)
            mth = np.array(mth)
            mean.pass_spatial_data(X)
            mname = type(mean).__name__
            want_mx, want_mq = G.rvec(c["mx"]), G.rvec(c["mq"])
            got_mx = np.asarray(mean.build_mean(mth), dtype=float)
            m2, mg = mean.mean_and_gradients(mth)
            got_pts = np.array([float(np.squeeze(mean(q, mth))) for q in Q])
            got_x = np.array([float(np.squeeze(mean(x, mth))) for x in X])
            if not (close(got_mx, want_mx) and close(np.asarray(m2, dtype=float), want_mx) and close(got_pts, want_mq) and close(got_x, want_mx)):
                ck.violation("mean function value (build_mean, mean_and_gradients, __call__ agree with the definition)",
                             {"X": c["X"], "mean": md, "want": want_mx, "build_mean": got_mx, "call_at_queries": got_pts, "want_queries": want_mq},
                             site=f"{mname}.build_mean")
            # the generic evaluation on SEVERAL points at once (all query points, all data points): one value per point
            try:
                arr_q, arr_x = np.asarray(mean(Q, mth), dtype=float), np.asarray(mean(X, mth), dtype=float)
                if arr_q.ndim == 0 and arr_x.ndim == 0 and md["k"] == "const":       # (a constant mean may answer with the one value)
                    arr_q, arr_x = np.full(len(Q), float(arr_q)), np.full(len(X), float(arr_x))
                if arr_q.size == len(Q) and arr_x.size == len(X):                      # (a single point may come back as a scalar)
                    arr_q, arr_x = arr_q.reshape(-1), arr_x.reshape(-1)
                if arr_q.shape != (len(Q),) or arr_x.shape != (len(X),) or not (close(arr_q, want_mq, scale=1.0 + float(np.max(np.abs(want_mq)))) and
                                                                               close(arr_x, want_mx, scale=1.0 + float(np.max(np.abs(want_mx))))):
                    ck.violation("mean function value (__call__ on an array of points returns the value at each point)",
                                 {"X": c["X"], "mean": md, "want_queries": want_mq, "got_queries": arr_q, "want_data": want_mx, "got_data": arr_x},
                                 site=f"{mname}.__call__:array")
            except Exception as ex:
                ck.violation("mean function raised when evaluated on an array of points", {"X": c["X"], "mean": md, "error": repr(ex)[:200]}, site=f"{mname}.__call__:array")
            first_ = mean.build_mean(mth)
            keep_ = np.array(first_, dtype=float).copy()
            mean.build_mean(mth + 0.5)
            mean.mean_and_gradients(mth - 0.25)
            if not np.array_equal(np.asarray(first_, dtype=float), keep_):
                ck.violation("a mean vector returned earlier does not change when the mean function is evaluated again with other parameters",
                             {"X": c["X"], "mean": md, "returned_first": keep_, "same_array_later": np.asarray(first_, dtype=float)}, site=f"{mname}.build_mean:returned-buffer")
            err = G.mean_consistency(md, c["X"], 2.0 ** 40 + 1234567 * 2.0 ** -12)
            if not err <= 1e-9:
                ck.violation("build_mean, mean_and_gradients and __call__ are one function, also for coordinates far from zero (non-dyadic parameters)",
                             {"X": c["X"], "mean": md, "relative_difference": err, "coordinates_translated_by": 2.0 ** 40}, site=f"{mname}.__call__:far")
            want_mg = np.array([[G.fr(v) for v in row] for row in c["mgrads"]]).T        # [param][point]
            got_mg = np.array([np.asarray(g, dtype=float) for g in mg])
            if not close(got_mg, want_mg):
                ck.violation("mean-function parameter gradients are the true partial derivatives",
                             {"X": c["X"], "mean": md, "want": want_mg, "got": got_mg}, site=f"{mname}.mean_and_gradients")
            if mean.n_params != len(md["th"]) or len(mean.hyperpar_labels) != len(md["th"]):
                ck.violation("mean function n_params / labels", {"mean": md, "n_params": mean.n_params}, site=f"{mname}.n_params")
        except Exception as ex:
            ck.violation("mean evaluation raised", {"X": c["X"], "mean": md, "error": repr(ex)}, site="mean")
    ck.traces += len(r.printed)
    return ck.finish()
