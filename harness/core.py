"""Shared machinery: TLC runner, verdict bookkeeping, evidence and replay files.

Nothing in here knows anything about inference-tools; every expected value used by a
check comes from TLC output parsed here, never from a Python re-implementation.
"""
import json
import os
import re
import shutil
import subprocess
import sys
import tempfile
import time
import atexit

VERIF = os.path.dirname(os.path.dirname(os.path.abspath(__file__)))
SPEC = os.path.join(VERIF, "spec")
REPO = os.environ.get("VERIF_REPO", "/repo")
EVID = os.path.join(VERIF, "evidence")
REPLAYS = os.path.join(VERIF, "replays")
TLA_JAR = "/opt/veriftools/tla/tla2tools.jar"
TLA_DEPS = "/opt/veriftools/tla/CommunityModules-deps.jar"

_scratch_dirs = []


class MachineryError(Exception):
    """TLC crash, parse error, harness bug: exit 2, never a property verdict."""


def scratch(prefix="verif_"):
    d = tempfile.mkdtemp(prefix=prefix, dir=os.environ.get("VERIF_SCRATCH", "/tmp"))
    _scratch_dirs.append(d)
    return d


@atexit.register
def _cleanup():
    for d in _scratch_dirs:
        shutil.rmtree(d, ignore_errors=True)


def seed():
    try:
        return int(os.environ.get("VERIF_SEED", "0"))
    except ValueError:
        return 0


# --------------------------------------------------------------------------- TLC

class TlcRun:
    def __init__(self):
        self.stdout = ""
        self.generated = 0
        self.distinct = 0
        self.depth = 0
        self.printed = []          # parsed JSON objects from PrintT(ToJson(..)) lines
        self.raw_printed = []      # other PrintT lines (TLA+ value syntax)
        self.violated = []         # names of violated invariants / properties
        self.error = None          # other TLC errors (text)
        self.wall = 0.0
        self.coverage = {}         # action name -> (distinct, total) when -coverage given
        self.cmd = ""
        self.ok = False            # finished without violation or error


_JSON_LINE = re.compile(r'^"(\{.*\}|\[.*\])"$')


def _unescape(s):
    # TLC prints a TLA+ string: backslash-escaped quotes and backslashes
    return json.loads('"' + s + '"')


def run_tlc(module, cfg=None, files=None, workers=16, timeout=600, simulate=None, depth=None,
            env=None, extra=None, coverage=False, dfs=False, deadlock=False, seed_=None,
            expect_json_lines=None, cfg_text=None, extra_files=None, javaopts=None):
    """Run TLC on spec/<module>.tla in a scratch copy of the spec directory.

    cfg: name of a cfg file in spec/ (default <module>.cfg); cfg_text overrides it with literal text.
    extra_files: {name: text} written next to the specs (generated MC modules, data).
    """
    d = scratch("tlc_")
    for f in os.listdir(SPEC):
        if f.endswith(".tla") or f.endswith(".cfg"):
            shutil.copy(os.path.join(SPEC, f), d)
    for name, text in (extra_files or {}).items():
        with open(os.path.join(d, name), "w") as fh:
            fh.write(text)
    cfgname = cfg or (module + ".cfg")
    if cfg_text is not None:
        cfgname = module + "_gen.cfg"
        with open(os.path.join(d, cfgname), "w") as fh:
            fh.write(cfg_text)
    jopts = ["-XX:+UseParallelGC", "-Xss16m"]
    if dfs:
        jopts.append("-Dtlc2.tool.queue.IStateQueue=StateDeque")
    jopts += javaopts or []
    cmd = ["java"] + jopts + ["-cp", TLA_JAR + ":" + TLA_DEPS, "tlc2.TLC",
                              "-workers", str(workers), "-metadir", os.path.join(d, "meta"),
                              "-noGenerateSpecTE", "-config", cfgname]
    if simulate is not None:
        cmd += ["-simulate", simulate]
    if depth is not None:
        cmd += ["-depth", str(depth)]
    if coverage:
        cmd += ["-coverage", "1"]
    if deadlock:
        cmd += ["-deadlock"]
    if seed_ is not None:
        cmd += ["-seed", str(seed_)]
    cmd += extra or []
    cmd += [module]
    e = dict(os.environ)
    e.update(env or {})
    r = TlcRun()
    r.cmd = " ".join(cmd)
    r.dir = d
    t0 = time.time()
    try:
        p = subprocess.run(cmd, cwd=d, env=e, stdout=subprocess.PIPE, stderr=subprocess.STDOUT,
                           timeout=timeout, text=True, errors="replace")
    except subprocess.TimeoutExpired as ex:
        subprocess.run(["pkill", "-f", d], check=False)
        raise MachineryError(f"TLC timed out after {timeout}s: {module} {cfgname}") from ex
    r.wall = time.time() - t0
    r.stdout = p.stdout
    r.returncode = p.returncode
    for line in p.stdout.splitlines():
        m = _JSON_LINE.match(line)
        if m:
            try:
                r.printed.append(json.loads(_unescape(m.group(1))))
            except Exception as ex:      # interleaved output: machinery failure, not a verdict
                raise MachineryError(f"unparsable PrintT line from TLC: {line[:200]}") from ex
            continue
        if line.startswith("<<") or line.startswith('"') or line.startswith("[") or line.startswith("{"):
            r.raw_printed.append(line)
        m = re.match(r"^(\d+) states generated, (\d+) distinct states found", line)
        if m:
            r.generated, r.distinct = int(m.group(1)), int(m.group(2))
        m = re.match(r"^The depth of the complete state graph search is (\d+)", line)
        if m:
            r.depth = int(m.group(1))
        m = re.match(r"^Error: Invariant (\S+) is violated", line)
        if m:
            r.violated.append(m.group(1))
        m = re.match(r"^Error: Action property (\S+) is violated", line)
        if m:
            r.violated.append(m.group(1))
        m = re.match(r"^Error: Temporal properties were violated", line)
        if m:
            r.violated.append("TemporalProperty")
        m = re.match(r"^Error: Assumption .* is false", line)
        if m:
            r.violated.append("ASSUME")
        m = re.match(r"^Error: Deadlock reached", line)
        if m:
            r.violated.append("Deadlock")
        m = re.match(r"^<(\w+) line \d+, col \d+ to line \d+, col \d+ of module (\w+)>: (\d+):(\d+)", line)
        if m:
            r.coverage[m.group(1)] = (int(m.group(3)), int(m.group(4)))
    r.violated = list(dict.fromkeys(r.violated))
    # simulation mode prints a different summary
    if simulate is not None and r.generated == 0:
        m = re.search(r"(\d+) states checked", p.stdout)
        if m:
            r.generated = r.distinct = int(m.group(1))
    if "Error:" in p.stdout and not r.violated:
        idx = p.stdout.index("Error:")
        r.error = p.stdout[idx: idx + 3000]
    if workers != 1 and simulate is None:
        # several workers print in no fixed order: a canonical order, so that any selection by index downstream is reproducible
        r.printed.sort(key=lambda d_: json.dumps(d_, sort_keys=True))
    if expect_json_lines is not None and len(r.printed) != expect_json_lines:
        raise MachineryError(f"expected {expect_json_lines} JSON lines from TLC, got {len(r.printed)}")
    r.ok = (not r.violated) and r.error is None and ("Model checking completed. No error has been found." in p.stdout
                                                     or simulate is not None and p.returncode in (0,))
    return r


def run_apalache(module, inv="Inv", init="Init", next_="Next", length=0, timeout=900):
    """symbolic check of a state invariant with Apalache (SMT over unbounded integers); returns dict(ok, wall_s, outcome)"""
    d = scratch("apa_")
    shutil.copy(os.path.join(SPEC, module + ".tla"), d)
    t0 = time.time()
    try:
        p = subprocess.run(["apalache-mc", "check", f"--init={init}", f"--next={next_}", f"--inv={inv}", f"--length={length}",
                            f"--out-dir={d}/out", module + ".tla"], cwd=d, stdout=subprocess.PIPE, stderr=subprocess.STDOUT, text=True, timeout=timeout)
    except subprocess.TimeoutExpired as ex:
        raise MachineryError(f"Apalache timed out after {timeout}s: {module}") from ex
    out = p.stdout
    if "The outcome is: NoError" in out:
        return {"ok": True, "wall_s": round(time.time() - t0, 1), "outcome": "NoError", "cmd": f"apalache-mc check --inv={inv} --length={length} {module}.tla"}
    if "The outcome is: Error" in out and "invariant" in out:
        bad = [l.split("I@")[0].strip() for l in out.splitlines() if "violated" in l]
        return {"ok": False, "wall_s": round(time.time() - t0, 1), "outcome": "; ".join(bad)[:300], "cmd": f"apalache-mc check --inv={inv} {module}.tla"}
    raise MachineryError("Apalache failed on %s: %s" % (module, out[-600:]))


def must_pass(r, what):
    """TLC run that is pure machinery (enumeration/export): any failure is exit 2."""
    if r.error is not None or r.violated:
        raise MachineryError(f"{what}: TLC failed: violated={r.violated} error={r.error}\ncmd={r.cmd}\n"
                             + r.stdout[-3000:])
    return r


def tla_int_seq(xs):
    return "<<" + ", ".join(tla_val(x) for x in xs) + ">>"


def tla_val(v):
    if isinstance(v, bool):
        return "TRUE" if v else "FALSE"
    if isinstance(v, int):
        return str(v) if v >= 0 else f"(0 - {-v})" if False else str(v)
    if isinstance(v, str):
        return json.dumps(v)
    if isinstance(v, (list, tuple)):
        return "<<" + ", ".join(tla_val(x) for x in v) + ">>"
    if isinstance(v, dict):
        return "[" + ", ".join(f"{k} |-> {tla_val(x)}" for k, x in v.items()) + "]"
    raise TypeError(type(v))


# ------------------------------------------------------------------- verdict bookkeeping

class Check:
    """Collects what a check covered, violations, known findings; writes the evidence file."""

    def __init__(self, pid, tier, level="model_checking"):
        self.pid = pid
        self.tier = tier
        self.level = level
        self.t0 = time.time()
        self.states = 0
        self.transitions = 0
        self.traces = 0
        self.evaluations = 0
        self.nontrivial = set()
        self.nontrivial_count = 0
        self.samples = []
        self.violations = []
        self.known_hits = {}
        self.notes = {}
        self.parts = {}
        self.assumptions = []
        self.rule = ""
        self.tlc_cmds = []
        self.known = load_known(pid)

    # -- coverage
    def tlc(self, r, part):
        self.states += r.distinct
        self.transitions += r.generated
        self.parts.setdefault(part, {})
        self.parts[part].update({"tlc_states": r.distinct, "tlc_transitions": r.generated,
                                 "tlc_wall_s": round(r.wall, 2)})
        if r.coverage:
            self.parts[part]["actions_never_taken"] = sorted(k for k, v in r.coverage.items() if v[1] == 0)
        self.tlc_cmds.append(r.cmd.split("tlc2.TLC", 1)[-1].strip())

    def count(self, part, key, n=1):
        self.parts.setdefault(part, {})
        self.parts[part][key] = self.parts[part].get(key, 0) + n

    def case(self, key=None, nontrivial=True):
        self.evaluations += 1
        if nontrivial:
            if key is None:
                self.nontrivial_count += 1
            else:
                self.nontrivial.add(key)

    def sample(self, obj, limit=6):
        if len(self.samples) < limit:
            self.samples.append(obj)

    # -- verdicts
    def violation(self, clause, detail, site=None):
        """Record a violation. `site` is the identity used for known-finding matching."""
        site = site or clause
        for k in self.known:
            if k.get("status") == "known" and _match(k, site, detail):
                hits = self.known_hits.setdefault(k["id"], {"entry": k, "n": 0, "first": detail})
                hits["n"] += 1
                return False
        self.violations.append({"clause": clause, "site": site, "detail": detail})
        return True

    def finish(self):
        os.makedirs(EVID, exist_ok=True)
        wall = time.time() - self.t0
        for kid, h in self.known_hits.items():
            print(f"KNOWN-FINDING: property={self.pid} {kid}: {h['entry']['what']} (observed {h['n']}x this run)")
        replay_paths = []
        if self.violations:
            os.makedirs(os.path.join(REPLAYS, self.pid), exist_ok=True)
            per = {}
            for v in self.violations:
                key = (v["clause"], v["site"])
                per[key] = per.get(key, 0) + 1
                if per[key] > 3 or len(replay_paths) >= 30:
                    continue
                path = os.path.join(REPLAYS, self.pid, f"{self.tier}_{len(replay_paths):03d}.json")
                with open(path, "w") as fh:
                    json.dump({"property": self.pid, "tier": self.tier, "seed": seed(), **v}, fh, indent=1, default=_js)
                replay_paths.append(path)
                print(f"VIOLATION property={self.pid} replay={path}")
                print(f"  clause: {v['clause']}  site: {v['site']}")
                print("  detail: " + json.dumps(v["detail"], default=_js)[:600])
            for key, n in per.items():
                print(f"  [{n} violation(s)] {key[1]}: {key[0]}")
        nd = len(self.nontrivial) + self.nontrivial_count
        cov = {
            "states": self.states,
            "transitions": self.transitions,
            "traces_validated_against_impl": self.traces,
            "evaluations": self.evaluations,
            "distinct_nontrivial": nd,
            "rule": self.rule,
            "samples": self.samples or [{"note": "no samples recorded"}],
            "parts": self.parts,
            "tlc_cmds": self.tlc_cmds[:12],
            "known_findings_observed": {k: h["n"] for k, h in self.known_hits.items()},
        }
        cov.update(self.notes)
        ev = {
            "property_id": self.pid,
            "tier": self.tier,
            "seed": seed(),
            "level": self.level,
            "coverage": cov,
            "assumptions": self.assumptions,
            "wall_s": round(wall, 2),
            "violations": len(self.violations),
        }
        # seedtest runs must not overwrite the evidence of the unchanged tree
        with open(os.path.join(EVID, self.pid + os.environ.get("VERIF_EVID_SUFFIX", "") + ".json"), "w") as fh:
            json.dump(ev, fh, indent=1, default=_js)
        print(f"[{self.pid}] tier={self.tier} states={self.states} transitions={self.transitions} "
              f"impl_cases={self.evaluations} nontrivial={nd} traces={self.traces} "
              f"violations={len(self.violations)} known={len(self.known_hits)} wall={wall:.1f}s")
        return 1 if self.violations else 0


def _js(o):
    try:
        import numpy as np
        if isinstance(o, np.ndarray):
            return o.tolist()
        if isinstance(o, (np.integer,)):
            return int(o)
        if isinstance(o, (np.floating,)):
            return float(o)
        if isinstance(o, (np.bool_,)):
            return bool(o)
    except Exception:
        pass
    if isinstance(o, (set, frozenset)):
        return sorted(o)
    return repr(o)


def _match(entry, site, detail):
    if entry.get("site") != site:
        return False
    cond = entry.get("where")
    if not cond:
        return True
    # every key of `where` must equal the corresponding key of the detail
    return isinstance(detail, dict) and all(detail.get(k) == v for k, v in cond.items())


def load_known(pid):
    path = os.path.join(VERIF, "known_findings.json")
    if not os.path.exists(path):
        return []
    with open(path) as fh:
        data = json.load(fh)
    return [e for e in data.get("findings", []) if e.get("property") == pid]
