"""C13 -- sample_hdi returns the shortest interval holding the requested fraction.

MC   : Hdi.tla -- AlgorithmIsGood for every sample of length 2..MaxLen over a few levels and every fraction k/16 (TLC).
S->C : every enumerated (sample, fraction) is passed to the real sample_hdi as list, int array, float array, one column of a
       2-D array next to other columns, in permuted order and after an affine map.
C->S : the results are recorded and HdiTrace.tla evaluates Good (any optimal window is accepted), equality of the call
       variants, permutation invariance, affine covariance, input-unchanged; plus larger seeded random samples with ties.
"""
import json
import os
import warnings
import numpy as np

from harness.core import Check, run_tlc, must_pass, seed, MachineryError, scratch


def _pair(r):
    r = np.asarray(r, dtype=float).ravel()
    if r.shape != (2,) or not np.all(r == np.round(r)):
        return [-999, -999]
    return [int(r[0]), int(r[1])]


def _case(s, k, rng):
    from inference.pdf.hdi import sample_hdi
    f = k / 16.0
    arr = np.array(s, dtype=np.int64)
    keep = arr.copy()
    flt = arr.astype(float)
    keepf = flt.copy()
    with warnings.catch_warnings():
        warnings.simplefilter("ignore")
        r = _pair(sample_hdi(arr, f))
        same = [_pair(sample_hdi(flt, f)), _pair(sample_hdi(list(s), f))]
        if min(s) >= 0:
            # unsigned and narrow integer dtypes are accepted input too (differences of neighbours must not wrap)
            same += [_pair(sample_hdi(arr.astype(np.uint8), f)), _pair(sample_hdi(arr.astype(np.uint16), f)), _pair(sample_hdi(arr.astype(np.int8), f))]
        # 2-D: the sample as the middle column between two other columns; every column is treated independently
        other = rng.integers(0, 9, size=(len(s), 2))
        two = np.column_stack([other[:, 0], arr, other[:, 1]])
        keep2 = two.copy()
        res2 = np.asarray(sample_hdi(two, f), dtype=float)
        same.append(_pair(res2[:, 1]) if res2.shape == (2, 3) else [-998, -998])
        res2l = np.asarray(sample_hdi(two.tolist(), f), dtype=float)              # the same 2-D input as a list of lists
        same.append(_pair(res2l[:, 1]) if res2l.shape == (2, 3) else [-995, -995])
        tiny = np.asarray(sample_hdi(flt * 2.0 ** -60, f), dtype=float).ravel() * 2.0 ** 60      # very small magnitudes (exact power-of-two scaling)
        same.append(_pair(tiny))
        c0 = _pair(sample_hdi(other[:, 0].copy(), f))
        same.append(r if (res2.shape == (2, 3) and _pair(res2[:, 0]) == c0) else [-997, -997])
        one_col = np.asarray(sample_hdi(arr.reshape(-1, 1), f), dtype=float)
        same.append(_pair(one_col))
        perm = rng.permutation(len(s))
        rp = _pair(sample_hdi(arr[perm], f))
        a, b = int(rng.integers(1, 4)), int(rng.integers(-3, 6))
        ra = _pair(sample_hdi(a * arr + b, f))
        # one work array re-filled IN PLACE between two calls (the same object, other values): the interval of its current content
        buf = flt.copy()
        sample_hdi(buf, f)
        buf *= a
        buf += b
        if _pair(sample_hdi(buf, f)) != ra:
            ra = [-994, -994]
        lst = [float(v) for v in s]
        sample_hdi(lst, f)
        lst[:] = [float(a * v + b) for v in s]
        if _pair(sample_hdi(lst, f)) != ra:
            ra = [-993, -993]
        # non-dyadic float values (0.1 x - 0.37: lo + (hi - lo) is not hi in doubles) and whole numbers beyond 2^53 (int64): the end points are
        # mapped back to the lattice by EXACT look-up, -996 if an end point is not one of the sample values
        fmap = {float(0.1 * v - 0.37): int(v) for v in s}
        rf_raw = np.asarray(sample_hdi(np.array([0.1 * v - 0.37 for v in s]), f), dtype=float).ravel()
        rf = [fmap.get(float(v), -996) for v in rf_raw] if rf_raw.shape == (2,) else [-996, -996]
        # whole numbers beyond 2^53 as int64 (2^60 + 100 x): the result is a float array, so an end point is known only up to the
        # rounding of a double (256 at that magnitude); every lattice pair that rounds to the returned pair is a candidate
        big = 2 ** 60
        ri_raw = np.asarray(sample_hdi(np.array([big + 100 * int(v) for v in s], dtype=np.int64), f), dtype=float).ravel()
        vals = sorted(set(int(v) for v in s))
        ric = [[a_, b_] for a_ in vals for b_ in vals if ri_raw.shape == (2,) and float(big + 100 * a_) == ri_raw[0] and float(big + 100 * b_) == ri_raw[1]]
        # ... and beyond 2^63 as uint64 (2^63 + 100 x): the same candidates must be compatible with that result too
        bigu = 2 ** 63
        ru_raw = np.asarray(sample_hdi(np.array([bigu + 100 * int(v) for v in s], dtype=np.uint64), f), dtype=float).ravel()
        ric = [pr for pr in ric if ru_raw.shape == (2,) and float(bigu + 100 * pr[0]) == ru_raw[0] and float(bigu + 100 * pr[1]) == ru_raw[1]]
        if not ric:
            ric = [[-996, -996]]
        # a CONCAVE monotone map g(v) = M (v - min) - (v - min)^2 with M = 2^25 .. 2^27: windows of equal lattice width get widths that
        # differ only in the 8th significant digit (the shortest is the right-most of them), so a ranking of the windows in reduced
        # precision picks a longer one; all values are whole numbers below 2^31 and the transformed sample is judged by Good itself
        lo_s = min(s)
        rng_s = max(max(s) - lo_s, 1)
        M = 2 ** 27 if rng_s <= 15 else (2 ** 26 if rng_s <= 31 else 2 ** 25)
        gs = [M * (int(v) - lo_s) - (int(v) - lo_s) ** 2 for v in s]
        rg_f = np.asarray(sample_hdi(np.array(gs, dtype=float), f), dtype=float).ravel()
        rg_i = np.asarray(sample_hdi(np.array(gs, dtype=np.int64), f), dtype=float).ravel()
        if rg_f.shape != (2,) or not np.array_equal(rg_f, rg_i):
            rg = [-992, -992]
        else:
            rg = [int(v) if float(v).is_integer() and abs(v) < 2 ** 31 else -996 for v in rg_f]
    unchanged = bool(np.array_equal(arr, keep) and np.array_equal(flt, keepf) and np.array_equal(two, keep2)
                     and arr.shape == keep.shape and two.shape == keep2.shape)
    return {"s": [int(v) for v in s], "k": int(k), "r": r, "same": same, "rp": rp, "ra": ra, "a": a, "b": b, "unchanged": unchanged, "rf": rf, "ric": ric, "gs": gs, "rg": rg}


def large_part(ck):
    """samples with more than 2^16 candidate windows (and more than 2^17 points): the shortest window, found independently"""
    from inference.pdf.hdi import sample_hdi
    rng = np.random.default_rng(seed() + 131)
    for n, f, where in ((140001, 0.5, 0.1), (140001, 0.5, 0.8), (300000, 0.25, 0.3), (70000, 0.05, 0.55)):
        # a uniform background with one denser stretch placed at a chosen quantile: the shortest window lies there
        x = rng.uniform(0.0, 1.0, size=n)
        m = int(0.3 * n)
        x[:m] = where + 0.05 * rng.uniform(0.0, 1.0, size=m)
        rng.shuffle(x)
        keep = x.copy()
        ck.case(("large", n, f, where))
        try:
            lo, hi = (float(v) for v in np.asarray(sample_hdi(x, f), dtype=float).ravel())
        except Exception as ex:
            ck.violation("sample_hdi raised on a large sample", {"n": n, "fraction": f, "error": repr(ex)[:200]}, site="sample_hdi:large")
            continue
        srt = np.sort(keep)
        inside = int(np.sum((srt >= lo) & (srt <= hi)))
        # the shortest window holding as many points as the returned one (any correct answer is at most that long)
        best = float(np.min(srt[inside - 1:] - srt[:n - inside + 1]))
        ok = (lo in set(srt[[np.searchsorted(srt, lo)]].tolist()) and hi in set(srt[[min(np.searchsorted(srt, hi), n - 1)]].tolist())
              and inside >= f * n and (hi - lo) <= best * (1 + 1e-12) and np.array_equal(x, keep))
        if not ok:
            ck.violation("Good: end points are sample values, at least the requested fraction inside, no shorter interval with as many points (large sample)",
                         {"n": n, "fraction": f, "candidate_windows": n - int(f * n), "returned": [lo, hi], "points_inside": inside, "requested": f * n,
                          "length": hi - lo, "shortest_with_as_many": best}, site="sample_hdi:large")


def run(tier):
    ck = Check("C13", tier)
    ck.rule = ("one case per enumerated (sample, fraction k/16) -- each run through 8 call variants -- plus seeded random larger samples; "
               "non-trivial = distinct (sample, fraction)")
    ck.assumptions = ["integer-valued samples and dyadic fractions (non-dyadic fractions only move L inside the modelled nondeterminism)"]
    maxlen, levels = (5, 4) if tier == "quick" else (6, 5)
    r = run_tlc("MC_Hdi", cfg_text=("INIT Init\nNEXT Next\nCONSTANTS Den = 16 MaxLen = %d Levels = %d\nINVARIANT AlgGood\nCHECK_DEADLOCK FALSE\n"
                                    % (maxlen, levels)), timeout=2400)
    if r.violated:
        ck.violation("spec: AlgorithmIsGood", {"violated": r.violated}, site="spec")
    must_pass(r, "MC_Hdi")
    ck.tlc(r, "hdi_model")
    rng = np.random.default_rng(seed() + 6)
    cases = r.printed
    if tier == "thorough" and len(cases) > 60000:
        idx = rng.choice(len(cases), size=60000, replace=False)
        cases = [cases[i] for i in idx]
    events = []
    for c in cases:
        try:
            events.append(_case(c["s"], c["k"], rng))
        except Exception as ex:
            ck.violation("sample_hdi raised", {"s": c["s"], "fraction": c["k"] / 16, "error": repr(ex)}, site="sample_hdi")
        ck.case(("enum", tuple(c["s"]), c["k"]))
    nrand = 150 if tier == "quick" else 1500
    for i in range(nrand):
        n = int(rng.integers(2, 41))
        s = rng.integers(-20, 21, size=n) if i % 3 else rng.integers(0, 4, size=n) * 7
        k = int(rng.integers(1, 16))
        try:
            events.append(_case([int(v) for v in s], k, rng))
        except Exception as ex:
            ck.violation("sample_hdi raised", {"s": [int(v) for v in s], "fraction": k / 16, "error": repr(ex)}, site="sample_hdi")
        ck.case(("rand", i))
    d = scratch("c13_")
    path = os.path.join(d, "trace.ndjson")
    with open(path, "w") as fh:
        for e in events:
            fh.write(json.dumps(e) + "\n")
    rt = run_tlc("HdiTrace", workers=1, env={"TRACE_FILE": path}, timeout=2400)
    if rt.error or rt.violated or any("REJECTED" in x for x in rt.raw_printed):
        raise MachineryError("HdiTrace: %s %s" % (rt.error, rt.violated))
    ck.tlc(rt, "hdi_results")
    ck.traces += len(events)
    import re
    bad = sorted({int(m.group(1)) - 1 for x in rt.raw_printed for m in [re.match(r'<<"BAD", (\d+)>>', x)] if m})
    for i in bad[:300]:
        e = events[i]
        ck.violation("Good / call-variant equality / permutation invariance / affine covariance / input unchanged",
                     {"sample": e["s"], "fraction": e["k"] / 16, "returned": e["r"], "variants[float,list,(uint8,uint16,int8),column,list-of-lists column,scaled by 2^-60,other-column,one-column]": e["same"],
                      "permuted": e["rp"], "float_values_0.1x-0.37 (as lattice values)": e.get("rf"), "int64_values_2^60+100x (candidate lattice pairs)": e.get("ric"), "concave_map_sample": e.get("gs"), "concave_map_returned": e.get("rg"), "affine": {"a": e["a"], "b": e["b"], "returned": e["ra"]}, "input_unchanged": e["unchanged"]},
                     site="sample_hdi")
    ck.sample({"part": "hdi", "sample": events[len(events) // 2]["s"], "fraction": events[len(events) // 2]["k"] / 16,
               "returned": events[len(events) // 2]["r"]})
    large_part(ck)
    return ck.finish()
