---- MODULE MC_LikeExact ----
EXTENDS LikeExact, Json
CONSTANTS MaxN
Rows == {<<1, 0>>, <<0, 1>>, <<1, 2>>, <<-1, 3>>}
GSmall == {[j |-> j, r |-> r] : j \in {-2, 0, 3}, r \in {<<0, 1>>, <<1, 1>>, <<-3, 1>>, <<1, 2>>, <<-7, 4>>}}
GHuge == {[j |-> 0, r |-> <<300, 1>>], [j |-> 0, r |-> <<-125, 1>>]}           \* residuals of hundreds of sigma
GScale == {[j |-> 40, r |-> <<0, 1>>], [j |-> 0 - 40, r |-> <<0, 1>>], [j |-> 6, r |-> <<0, 1>>], [j |-> 6, r |-> <<3, 1>>]}            \* uncertainties of 2^+-40 (any scale) and 64 (a whole number, also handed over in narrow integer types)
GData == GSmall \cup GHuge \cup GScale
LData == {[j |-> j, q |-> q] : j \in {-2, 0, 3}, q \in {<<"rat", 1, 1>>, <<"rat", 2, 1>>, <<"rat", 1, 3>>, <<"rat", 5, 2>>,
                                                         <<"pow2", 40>>, <<"pow2", -40>>, <<"pow2", 600>>, <<"pow2", -1100>>, <<"pow2", 1100>>}}
Three == {[j |-> j, r |-> r] : j \in {0, 3}, r \in {<<1, 1>>, <<-3, 1>>, <<1, 2>>}}
         \cup {[j |-> j, q |-> q] : j \in {0, 3}, q \in {<<"rat", 1, 1>>, <<"rat", 1, 3>>, <<"pow2", -40>>}}
Rep == 32
VARIABLES kind, data, jac, out
Init == /\ kind \in {"gauss", "cauchy", "logistic"}
        /\ \E n \in 1..MaxN : /\ data \in [1..n -> IF kind = "logistic" THEN LData ELSE GData]
                              /\ jac \in [1..n -> Rows]
        /\ Cardinality({i \in DOMAIN data : data[i] \in GHuge}) <= 1      \* keeps the exact rationals inside 32 bits
        /\ Len(data) >= 3 => \A i \in DOMAIN data : data[i] \in Three        \* (three data: small denominators only, same reason)
        /\ out = 0
Next == /\ out = 0 /\ out' = 1 /\ UNCHANGED <<kind, data, jac>>
        /\ PrintT(ToJson([kind |-> kind, data |-> data, jac |-> jac, value |-> Value(kind, data), grad |-> Gradient(kind, data, jac),
                          cost |-> Cost(kind, data), costgrad |-> CostGradient(kind, data, jac),
                          \* the same data set repeated Rep times (independent data: log-densities add): thousands of data points
                          rep |-> Rep, value_rep |-> SScale(RInt(Rep), Value(kind, data)),
                          grad_rep |-> [a \in 1..Len(Gradient(kind, data, jac)) |-> SScale(RInt(Rep), Gradient(kind, data, jac)[a])]]))
\* cost and cost-gradient are the exact negatives (checked on the reference itself)
NegConsistent == Cost(kind, data).rat = RNeg(Value(kind, data).rat)
====
