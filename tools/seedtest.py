#!/venv/bin/python
"""Apply a seeded change to /repo, confirm its demonstration, run the registered check(s), undo it.

usage: tools/seedtest.py <seed-dir> <name> <Cxx> [<Cyy> ...] [--tier quick|thorough] [--keep-only]
Copies <seed-dir> (patch.diff, demo.py, meta.json) to /verif/seeded/<name>/ and appends the outcome to meta.json.
Never commits anything to /repo; the working tree is restored with `git checkout -- .` afterwards.
"""
import json, os, shutil, subprocess, sys, time

args = [a for a in sys.argv[1:] if not a.startswith("--")]
tier = "quick"
if "--tier" in sys.argv:
    tier = sys.argv[sys.argv.index("--tier") + 1]
    args = [a for a in args if a != tier]
src, name, pids = args[0], args[1], args[2:]
dst = os.path.join("/verif/seeded", name)
if os.path.abspath(src) != os.path.abspath(dst):
    os.makedirs(dst, exist_ok=True)
    for f in ("patch.diff", "demo.py", "meta.json"):
        if os.path.exists(os.path.join(src, f)):
            shutil.copy(os.path.join(src, f), dst)
# With --scratch the change is applied to a scratch git worktree of /repo's HEAD (outside /repo and /verif) and the SAME checks are
# pointed at it through VERIF_REPO, so that /repo itself stays untouched (needed while background runs use /repo).
SCRATCH = "--scratch" in sys.argv
TREE = "/repo"
if SCRATCH:
    TREE = "/tmp/seedrepo_%d" % os.getpid()
    subprocess.run(f"git -C /repo worktree add -q --detach {TREE} HEAD", shell=True, check=True)
env = dict(os.environ, PYTHONPATH=TREE, MPLBACKEND="Agg")


def sh(cmd, **kw):
    return subprocess.run(cmd, shell=True, stdout=subprocess.PIPE, stderr=subprocess.STDOUT, text=True, **kw)


assert sh(f"git -C {TREE} status --porcelain --untracked-files=no").stdout.strip() == "", "repo not clean"
res = {"tree": "scratch worktree via VERIF_REPO" if SCRATCH else "/repo", "ran_at_repo_commit": sh("git -C /repo rev-parse --short HEAD").stdout.strip(), "tier": tier}
demo = os.path.join(dst, "demo.py")
d0 = subprocess.run(["/venv/bin/python", demo], env=env, cwd="/tmp", stdout=subprocess.PIPE, stderr=subprocess.STDOUT, text=True, timeout=600)
res["demo_exit_without_change"] = d0.returncode
ap = sh(f"git -C {TREE} apply {dst}/patch.diff")
if ap.returncode != 0:
    ap = sh(f"git -C {TREE} apply --3way {dst}/patch.diff")
res["patch_applies"] = ap.returncode == 0
try:
    if ap.returncode == 0:
        d1 = subprocess.run(["/venv/bin/python", demo], env=env, cwd="/tmp", stdout=subprocess.PIPE, stderr=subprocess.STDOUT, text=True, timeout=600)
        res["demo_exit_with_change"] = d1.returncode
        res["demo_output_tail"] = d1.stdout[-400:]
        if "--no-tests" not in sys.argv:
            t = sh(f"cd {TREE} && env -u INFERENCE_TOOLS_VERIF PYTHONPATH={TREE} /venv/bin/python -m pytest -q -p no:cacheprovider -x 2>&1 | tail -1")
            res["test_suite_with_change"] = t.stdout.strip()
        res["checks"] = {}
        for pid in pids:
            t0 = time.time()
            c = sh(f"cd /verif && VERIF_REPO={TREE} VERIF_EVID_SUFFIX=.seedtest ./check {pid} --tier {tier}")
            lines = [l for l in c.stdout.splitlines() if l.startswith("VIOLATION") or l.startswith("  [") or l.startswith("MACHINERY")]
            res["checks"][pid] = {"exit": c.returncode, "detected": c.returncode == 1, "wall_s": round(time.time() - t0, 1),
                                  "summary": [l.strip()[:300] for l in lines if l.startswith("  [")][:6] or [l[:300] for l in lines[:3]]}
finally:
    if SCRATCH:
        sh(f"git -C /repo worktree remove --force {TREE}; git -C /repo worktree prune")
    else:
        sh("git -C /repo checkout -- . && git -C /repo reset -q")
mp = os.path.join(dst, "meta.json")
meta = json.load(open(mp)) if os.path.exists(mp) else {}
meta.setdefault("runs", []).append(res)
meta["what_was_run"] = f"tools/seedtest.py: demo.py without/with the change (PYTHONPATH=/repo), repository test suite with the change, ./check {' '.join(pids)} --tier {tier} with the change, then git checkout -- ."
json.dump(meta, open(mp, "w"), indent=1)
print(name, json.dumps({k: v for k, v in res.items() if k != "demo_output_tail"}, indent=None)[:900])
