------------------------------ MODULE Tempering ------------------------------
(***************************************************************************)
(* C08 (and the exchange clause of C03, the pool clause of C15) --          *)
(* ParallelTempering: one master and N worker processes joined by FIFO      *)
(* pipes, plus a shutdown event.                                            *)
(*                                                                         *)
(* Worker: the command loop of tempering_process, one action per poll /     *)
(* receive / step / reply.  Master: take_steps, swap (ask all, receive all, *)
(* pair, Metropolis test per pair, two update_position sends),              *)
(* return_chains, shutdown; one action per send and per blocking receive.   *)
(*                                                                         *)
(* Chain state is abstract but data-carrying: a position is a token         *)
(* <<origin worker, serial>> whose untempered energy is a fixed function;   *)
(* Beta[w] = 4/T_w in {4, 2, 1}; energies are multiples of 4 in ln2 units,  *)
(* so stored (tempered) values E*Beta/4 and the exchange test are exact.    *)
(***************************************************************************)
EXTENDS Integers, Sequences, FiniteSets, TLC
CONSTANTS N,            \* number of chains / worker processes
          Prog,         \* master program: sequence of <<"steps", n>> | <<"swap">> | <<"return">> | <<"shutdown">>
          Beta,         \* Beta[w] = 4 / temperature
          UDraw,        \* UDraw[r][i]: exponent e of the uniform draw u = 2^-e used in swap round r for the pair with lower index i
          PairSeq       \* <<>> : the pairing of each round is free (any set of disjoint valid pairs);
                        \* otherwise PairSeq[r] is the pairing used in round r (fixed seeds)
W == 1..N
VARIABLES pcM, ip, k, inbox, outbox, chain, wst, wreg, evt, got, round, pairs, returned
vars == <<pcM, ip, k, inbox, outbox, chain, wst, wreg, evt, got, round, pairs, returned>>

\* untempered energy of a position token (ln2 units, multiple of 4)
Energy(tok) == 4 * ((3 * tok[1] + 5 * tok[2]) % 5)
\* a chain: number of samples, current position, stored value tp = E * Beta (i.e. 4 * tempered), history of operations
StepChain(w, c) == [len |-> c.len + 1, pos |-> <<w, c.len + 1>>, tp |-> Energy(<<w, c.len + 1>>) * Beta[w],
                    hist |-> Append(c.hist, "step")]
\* update_position as coded: replace the last point, store probability * inv_temp
Install(w, c, tok, E) == [c EXCEPT !.pos = tok, !.tp = E * Beta[w], !.hist = Append(c.hist, "swap")]
InitChain(w) == [len |-> 1, pos |-> <<w, 1>>, tp |-> Energy(<<w, 1>>) * Beta[w], hist |-> <<>>]

ValidPairing(P) == /\ \A p \in P : p[1] \in W /\ p[2] \in W /\ p[1] < p[2]
                   /\ \A p, q \in P : p # q => {p[1], p[2]} \cap {q[1], q[2]} = {}
Pairings == {P \in SUBSET (W \X W) : ValidPairing(P) /\ Cardinality(P) = N \div 2}
\* exchange test for pair <<i,j>> with u = 2^-e:
\*   accept iff u <= exp((1/T_i - 1/T_j)(L_j - L_i)) = 2^((Beta_i - Beta_j)(E_i - E_j)/4)     (L = -ln2 * E)
Accept(i, j, Ei, Ej, e) == LET x == (Beta[i] - Beta[j]) * (Ei - Ej) IN  x >= 0 \/ -x <= 4 * e

Init == /\ pcM = "fetch" /\ ip = 1 /\ k = 1
        /\ inbox = [w \in W |-> <<>>] /\ outbox = [w \in W |-> <<>>]
        /\ chain = [w \in W |-> InitChain(w)]
        /\ wst = [w \in W |-> "poll"] /\ wreg = [w \in W |-> <<>>]
        /\ evt = FALSE /\ got = [w \in W |-> <<>>] /\ round = 0 /\ pairs = {} /\ returned = <<>>
Cmd == Prog[ip]
Send(w, m) == inbox' = [inbox EXCEPT ![w] = Append(@, m)]

\* ---- master -------------------------------------------------------------------------------------
MFetch == /\ pcM = "fetch" /\ ip <= Len(Prog) /\ k' = 1
          /\ pcM' = (CASE Cmd[1] = "steps" -> "steps_send" [] Cmd[1] = "swap" -> "pos_send"
                       [] Cmd[1] = "return" -> "ret_send" [] Cmd[1] = "shutdown" -> "shutdown")
          /\ UNCHANGED <<ip, inbox, outbox, chain, wst, wreg, evt, got, round, pairs, returned>>
MSendAll(here, msg, next) ==
          /\ pcM = here /\ k <= N /\ Send(k, msg)
          /\ k' = (IF k = N THEN 1 ELSE k + 1) /\ pcM' = (IF k = N THEN next ELSE here)
          /\ UNCHANGED <<ip, outbox, chain, wst, wreg, evt, got, round, pairs, returned>>
MRecvAll(here, next) ==                      \* blocking recv from worker k, in index order
          /\ pcM = here /\ k <= N /\ outbox[k] # <<>>
          /\ got' = [got EXCEPT ![k] = Head(outbox[k])]
          /\ outbox' = [outbox EXCEPT ![k] = Tail(@)]
          /\ k' = (IF k = N THEN 1 ELSE k + 1) /\ pcM' = (IF k = N THEN next ELSE here)
          /\ UNCHANGED <<ip, inbox, chain, wst, wreg, evt, round, pairs, returned>>
MStepsDone == /\ pcM = "steps_done" /\ \A w \in W : got[w] = <<"advance_complete">>
              /\ pcM' = "fetch" /\ ip' = ip + 1
              /\ UNCHANGED <<k, inbox, outbox, chain, wst, wreg, evt, got, round, pairs, returned>>
MPair == /\ pcM = "pair"
         /\ IF PairSeq = <<>> THEN \E P \in Pairings : pairs' = P ELSE pairs' = PairSeq[round + 1]
         /\ round' = round + 1 /\ pcM' = "test"
         /\ UNCHANGED <<ip, k, inbox, outbox, chain, wst, wreg, evt, got, returned>>
MTest == /\ pcM = "test"                     \* one pair per action; sends to disjoint workers commute
         /\ IF pairs = {} THEN /\ pcM' = "fetch" /\ ip' = ip + 1 /\ UNCHANGED <<inbox, pairs>>
            ELSE \E p \in pairs :
                   LET i == p[1]  j == p[2]
                       Ei == got[i][3] \div Beta[i]  Ej == got[j][3] \div Beta[j]   \* master un-tempers the reported values
                       e == UDraw[round][i]
                   IN /\ pairs' = pairs \ {p} /\ UNCHANGED <<pcM, ip>>
                      /\ IF Accept(i, j, Ei, Ej, e)
                         THEN inbox' = [inbox EXCEPT ![i] = Append(@, <<"update", got[j][2], Ej>>),
                                                      ![j] = Append(@, <<"update", got[i][2], Ei>>)]
                         ELSE UNCHANGED inbox
         /\ UNCHANGED <<k, outbox, chain, wst, wreg, evt, got, round, returned>>
MReturned == /\ pcM = "ret_done" /\ returned' = [w \in W |-> got[w][2]]
             /\ pcM' = "fetch" /\ ip' = ip + 1
             /\ UNCHANGED <<k, inbox, outbox, chain, wst, wreg, evt, got, round, pairs>>
MShutdown == /\ pcM = "shutdown" /\ evt' = TRUE /\ pcM' = "join"
             /\ UNCHANGED <<ip, k, inbox, outbox, chain, wst, wreg, got, round, pairs, returned>>
MJoin == /\ pcM = "join" /\ (\A w \in W : wst[w] = "dead") /\ pcM' = "fetch" /\ ip' = ip + 1
         /\ UNCHANGED <<k, inbox, outbox, chain, wst, wreg, evt, got, round, pairs, returned>>
Master == \/ MFetch
          \/ MSendAll("steps_send", <<"advance", Cmd[2]>>, "steps_recv") \/ MRecvAll("steps_recv", "steps_done") \/ MStepsDone
          \/ MSendAll("pos_send", <<"send_position">>, "pos_recv") \/ MRecvAll("pos_recv", "pair") \/ MPair \/ MTest
          \/ MSendAll("ret_send", <<"send_chain">>, "ret_recv") \/ MRecvAll("ret_recv", "ret_done") \/ MReturned
          \/ MShutdown \/ MJoin

\* ---- worker w: the command loop of tempering_process ----------------------------------------------
WPoll(w) == /\ wst[w] = "poll"
            /\ IF evt THEN wst' = [wst EXCEPT ![w] = "dead"] /\ UNCHANGED <<inbox, wreg>>
               ELSE /\ inbox[w] # <<>> /\ wreg' = [wreg EXCEPT ![w] = Head(inbox[w])]
                    /\ inbox' = [inbox EXCEPT ![w] = Tail(@)] /\ wst' = [wst EXCEPT ![w] = "run"]
            /\ UNCHANGED <<pcM, ip, k, outbox, chain, evt, got, round, pairs, returned>>
WStep(w) == /\ wst[w] = "run" /\ wreg[w][1] = "advance" /\ wreg[w][2] > 0
            /\ chain' = [chain EXCEPT ![w] = StepChain(w, @)]
            /\ wreg' = [wreg EXCEPT ![w] = <<"advance", @[2] - 1>>]
            /\ UNCHANGED <<pcM, ip, k, inbox, outbox, wst, evt, got, round, pairs, returned>>
WReply(w) == /\ wst[w] = "run"
             /\ \/ /\ wreg[w][1] = "advance" /\ wreg[w][2] = 0
                   /\ outbox' = [outbox EXCEPT ![w] = Append(@, <<"advance_complete">>)] /\ UNCHANGED chain
                \/ /\ wreg[w][1] = "send_position"
                   /\ outbox' = [outbox EXCEPT ![w] = Append(@, <<"position", chain[w].pos, chain[w].tp>>)]
                   /\ UNCHANGED chain
                \/ /\ wreg[w][1] = "update" /\ chain' = [chain EXCEPT ![w] = Install(w, @, wreg[w][2], wreg[w][3])]
                   /\ UNCHANGED outbox
                \/ /\ wreg[w][1] = "send_chain"
                   /\ outbox' = [outbox EXCEPT ![w] = Append(@, <<"chain", chain[w]>>)] /\ UNCHANGED chain
             /\ wst' = [wst EXCEPT ![w] = "poll"]
             /\ UNCHANGED <<pcM, ip, k, inbox, wreg, evt, got, round, pairs, returned>>
Worker(w) == WPoll(w) \/ WStep(w) \/ WReply(w)

Next == Master \/ \E w \in W : Worker(w)
Spec == Init /\ [][Next]_vars /\ WF_vars(Master) /\ \A w \in W : WF_vars(Worker(w))

\* ---- properties -------------------------------------------------------------------------------------
ProbsBelong == \A w \in W : chain[w].tp = Energy(chain[w].pos) * Beta[w]                   \* C03 under exchanges
PairsDisjoint == ValidPairing(pairs)                                                       \* each chain in at most one pair
Done == ip > Len(Prog)
StepsIn(c) == Cardinality({n \in 1..Len(c.hist) : c.hist[n] = "step"})
RECURSIVE Requested(_)
Requested(n) == IF n = 0 THEN 0 ELSE Requested(n - 1) + (IF Prog[n][1] = "steps" THEN Prog[n][2] ELSE 0)
EqualAdvance == Done => \A w \in W : StepsIn(chain[w]) = Requested(Len(Prog))            \* every chain advanced by the requested number of steps
\* a worker never holds two unanswered requests that need a reply; pipes stay short
PipesBounded == \A w \in W : Len(inbox[w]) <= 3 /\ Len(outbox[w]) <= 1
\* what return_chains hands back is the complete chain each worker holds at that moment
ReturnComplete == (returned # <<>> /\ pcM = "fetch" /\ ip <= Len(Prog) /\ Prog[ip - 1][1] = "return") =>
                      \A w \in W : returned[w].len = 1 + StepsIn(returned[w])
Terminates == <>(Done /\ \A w \in W : wst[w] = "dead")
=============================================================================
