"""progress -- the progress display (extra coverage, no listed property): ProgressTrace.tla on the captured terminal output of real
MarkovChain.advance / run_for and EnsembleSampler.advance calls under a simulated clock."""
import json
import os
import re
import sys

import numpy as np

from harness.core import Check, run_tlc, scratch, MachineryError, seed

PCT = re.compile(r"^\r  tick   \[ (-?\d+)% complete  \|  ETA: (-?\d+) sec \]\s*$")
FIN = re.compile(r"^\r  tick   \[ complete - (-?\d+) steps taken in (-?\d+):(-?\d+):(-?\d+) \]\s*$")
CNT = re.compile(r"^\r  tick   \[ (-?\d+) steps taken, time remaining: (-?\d+):(-?\d+):(-?\d+) \]\s*$")
PTP = re.compile(r"^\r  \[ Running ParallelTempering - (-?\d+)% complete   ETA: (-?\d+) sec \]\s*$")
PTD = re.compile(r"^\r  \[ Running ParallelTempering - complete! \]\s*$")
PTC = re.compile(r"^\r  \[ Running ParallelTempering - time remaining: (-?\d+):(-?\d+):(-?\d+) \]\s*$")
ITR = re.compile(r"^\r  EnsembleSampler:   \[ (\d+) / (\d+) iterations completed(?:  \|  ETA: (-?\d+) sec)? \]\s*$")


def _quad(x):
    return -0.5 * float(np.sum(np.asarray(x, dtype=float) ** 2))


class Clock:
    def __init__(self):
        self.t = 1000.0003

    def __call__(self):
        return self.t


class Capture:
    """stands in for sys.stdout: every write becomes an event, stamped with the simulated time and the work done so far"""
    def __init__(self, clock, done, t0, events):
        self.clock, self.done, self.t0, self.ev = clock, done, t0, events

    def ms(self):
        return int(round((self.clock.t - self.t0) * 1000))

    def write(self, s):
        if s.strip() == "":
            return len(s)
        if PTD.match(s):
            self.ev.append({"ev": "PtDone", "cyc": self.done()[0], "steps": self.done()[1], "t": self.ms(), "text": s.strip()})
            return len(s)
        m = PTC.match(s)
        if m:
            g = [max(-2 ** 18, min(2 ** 18, int(v))) for v in m.groups()]
            self.ev.append({"ev": "PtCount", "h": g[0], "mi": g[1], "s": g[2], "cyc": self.done()[0], "t": self.ms(), "text": s.strip()})
            return len(s)
        m = PTP.match(s)
        if m:
            g = [str(max(-2 ** 18, min(2 ** 18, int(v)))) for v in m.groups()]
            self.ev.append({"ev": "PtPct", "pct": int(g[0]), "eta": int(g[1]), "cyc": self.done()[0], "t": self.ms(), "text": s.strip()})
            return len(s)
        for rx, name in ((PCT, "Pct"), (FIN, "Final"), (CNT, "Count"), (ITR, "Iter")):
            m = rx.match(s)
            if m:
                g = [None if v is None else str(max(-2 ** 18, min(2 ** 18, int(v)))) for v in m.groups()]     # (32-bit arithmetic in TLC)
                if name == "Pct":
                    e = {"ev": "Pct", "pct": int(g[0]), "eta": int(g[1]), "steps": self.done()}
                elif name in ("Final", "Count"):
                    e = {"ev": name, "steps": int(g[0]), "h": int(g[1]), "mi": int(g[2]), "s": int(g[3]), "done": self.done()}
                else:
                    e = {"ev": "Iter", "k": int(g[0]), "total": int(g[1]), "plain": g[2] is None, "eta": int(g[2] or 0), "done": self.done()}
                e["t"] = self.ms()
                e["text"] = s.strip()
                self.ev.append(e)
                return len(s)
        self.ev.append({"ev": "Other", "text": s[:120], "t": self.ms()})
        return len(s)

    def flush(self):
        pass


def run(tier):
    import inference.mcmc.base as base
    import inference.mcmc.utilities as util
    import inference.mcmc.ensemble as ens
    from inference.mcmc.base import MarkovChain
    from inference.mcmc import EnsembleSampler
    ck = Check("progress", tier)
    ck.rule = "one case per captured call (advance / run_for of a counting chain, advance of the real ensemble sampler), display on and off"
    rng = np.random.default_rng(seed() + 5)
    events, runs = [], []

    class TickChain(MarkovChain):
        def __init__(self, display, clock, cost):
            self.chain_length = 1
            self.n_parameters = 1
            self.clock, self.cost = clock, cost
            self.ProgressPrinter = util.ChainProgressPrinter(display=display, leading_msg="tick")

        def take_step(self):
            self.chain_length += 1
            self.clock.t += self.cost

        def get_parameter(self, index, burn=1, thin=1):
            return np.zeros(0)

        def get_probabilities(self, burn=1, thin=1):
            return np.zeros(0)

        def get_sample(self, burn=1, thin=1):
            return np.zeros((0, 1))

    real = (base.time, util.time, ens.time, sys.stdout)
    ms = [0, 1, 99, 100, 101, 250, 1234] + ([int(v) for v in rng.integers(2, 5000, size=6)] if tier == "thorough" else [777])
    costs = [0.0037, 0.5, 41.0] if tier == "quick" else [0.0037, 0.013, 0.5, 7.3, 41.0]
    budgets = [0.0, 2.0, 75.0, 3700.0]
    try:
        for display in (True, False):
            for cost in costs:
                for m in ms:
                    clock = Clock()
                    base.time = util.time = clock
                    ch = TickChain(display, clock, cost)
                    ev = [{"ev": "Begin", "call": "advance", "m": m, "display": display, "t": 0}]
                    sys.stdout = Capture(clock, lambda ch=ch: ch.chain_length - 1, clock.t, ev)
                    err = None
                    try:
                        ch.advance(m)
                    except Exception as ex:
                        err = repr(ex)
                    sys.stdout = real[3]
                    ev.append({"ev": "End", "added": ch.chain_length - 1})
                    ck.case(("advance", display, cost, m))
                    ident = {"call": "advance(%d)" % m, "display_progress": display, "seconds_per_step": cost}
                    if err:
                        ck.violation("advance raised", {**ident, "error": err}, site="MarkovChain.advance")
                        continue
                    runs.append((len(events), len(events) + len(ev), ident))
                    events += ev
                for budget in budgets:
                    if budget / cost > 2e5:
                        continue
                    clock = Clock()
                    base.time = util.time = clock
                    ch = TickChain(display, clock, cost)
                    ev = [{"ev": "Begin", "call": "run_for", "m": int(round(budget * 1000)), "display": display, "t": 0}]
                    sys.stdout = Capture(clock, lambda ch=ch: ch.chain_length - 1, clock.t, ev)
                    err = None
                    try:
                        ch.run_for(minutes=budget / 60.0)
                    except Exception as ex:
                        err = repr(ex)
                    sys.stdout = real[3]
                    ev.append({"ev": "End", "added": ch.chain_length - 1})
                    ck.case(("run_for", display, cost, budget))
                    ident = {"call": "run_for(minutes=%g)" % (budget / 60.0), "display_progress": display, "seconds_per_step": cost}
                    if err:
                        ck.violation("run_for raised", {**ident, "error": err}, site="MarkovChain.run_for")
                        continue
                    runs.append((len(events), len(events) + len(ev), ident))
                    events += ev
            for n_it in (1, 3, 10) + ((57,) if tier == "thorough" else ()):
                for cost in (0.004, 1.7):
                    clock = Clock()
                    ens.time = util.time = clock

                    def post(x, clock=clock, cost=cost):
                        clock.t += cost
                        return -0.5 * float(np.sum(np.asarray(x) ** 2))
                    base.time = clock
                    sm = EnsembleSampler(posterior=post, starting_positions=np.random.default_rng(3).normal(size=(6, 2)), display_progress=display)
                    sm.rng = np.random.default_rng(11)
                    ev = [{"ev": "Begin", "call": "ensemble", "m": n_it, "display": display, "t": 0}]
                    sys.stdout = Capture(clock, lambda sm=sm: int(sm.n_iterations) + (0), clock.t, ev)
                    err = None
                    n0 = int(sm.n_iterations)
                    try:
                        sm.advance(n_it)
                    except Exception as ex:
                        err = repr(ex)
                    sys.stdout = real[3]
                    ev.append({"ev": "End", "added": int(sm.n_iterations) - n0})
                    ck.case(("ensemble", display, cost, n_it))
                    ident = {"call": "EnsembleSampler.advance(%d)" % n_it, "display_progress": display, "seconds_per_posterior_call": cost}
                    if err:
                        ck.violation("advance raised", {**ident, "error": err}, site="EnsembleSampler.advance")
                        continue
                    runs.append((len(events), len(events) + len(ev), ident))
                    events += ev
        # ParallelTempering.advance: real worker processes, the master's clock simulated (each take_steps call costs its steps x 3 ms)
        import inference.mcmc.parallel as par
        from inference.mcmc import GibbsChain
        real_par_time = par.time
        pt_calls = [("pt_advance", n, si) for n, si in ((23, 5), (7, 10), (161, 3), (250, 5), (100, 2)) + (((534, 10), (53, 1)) if tier == "thorough" else ())]
        # ParallelTempering.run_for: budget in simulated milliseconds (6 s, 3 s, 0 s, 1.2 s; more at the thorough tier)
        pt_calls += [("pt_run_for", b, si) for b, si in ((6000, 5), (3000, 7), (0, 5), (1200, 11)) + (((9000, 3), (4020, 13)) if tier == "thorough" else ())]
        for pt_call, n_adv, si in pt_calls:
            clock = Clock()
            par.time = clock
            chains = [GibbsChain(posterior=_quad, start=np.array([0.1 * (i + 1), 0.2]), widths=np.array([0.5, 0.5]),
                                 temperature=T, display_progress=False) for i, T in enumerate((1.0, 2.0))]
            pt = par.ParallelTempering(chains)
            cnt = {"cyc": 0, "steps": 0}
            real_take, real_swap = pt.take_steps, pt.swap

            def take(nn, real_take=real_take, cnt=cnt, clock=clock):
                real_take(nn)
                cnt["steps"] += nn
                clock.t += 0.003 * nn

            def swp(real_swap=real_swap, cnt=cnt):
                real_swap()
                cnt["cyc"] += 1
            pt.take_steps, pt.swap = take, swp
            ev = [{"ev": "Begin", "call": pt_call, "m": n_adv, "si": si, "cms": 3 * si, "display": True, "t": 0}]
            sys.stdout = Capture(clock, lambda cnt=cnt: (cnt["cyc"], cnt["steps"]), clock.t, ev)
            err = None
            try:
                if pt_call == "pt_advance":
                    pt.advance(n_adv, swap_interval=si)
                else:
                    pt.run_for(minutes=n_adv / 60000.0, swap_interval=si)
            except Exception as ex:
                err = repr(ex)
            sys.stdout = real[3]
            try:
                got = pt.return_chains()
                added = int(got[0].chain_length) - 1
            except Exception as ex:
                err = err or repr(ex)
                added = -1
            pt.shutdown()
            par.time = real_par_time
            ev.append({"ev": "End", "added": added})
            ck.case((pt_call, n_adv, si))
            ident = {"call": "ParallelTempering.advance(%d, swap_interval=%d)" % (n_adv, si) if pt_call == "pt_advance"
                     else "ParallelTempering.run_for(minutes=%g, swap_interval=%d)" % (n_adv / 60000.0, si), "simulated_ms_per_cycle": 3 * si}
            if err:
                ck.violation("ParallelTempering.advance raised", {**ident, "error": err}, site="ParallelTempering.advance")
                continue
            runs.append((len(events), len(events) + len(ev), ident))
            events += ev
    finally:
        base.time, util.time, ens.time, sys.stdout = real
    d = scratch("progress_")
    path = os.path.join(d, "trace.ndjson")
    with open(path, "w") as fh:
        for e in events:
            fh.write(json.dumps({k: v for k, v in e.items() if k != "text"}) + "\n")
    rt = run_tlc("ProgressTrace", cfg_text="SPECIFICATION TraceSpec\nCONSTRAINT Progress\nPOSTCONDITION TraceAccepted\nCHECK_DEADLOCK FALSE\n",
                 workers=1, env={"TRACE_FILE": path}, timeout=900)
    if rt.error or rt.violated or any("REJECTED" in x for x in rt.raw_printed):
        raise MachineryError("ProgressTrace: %s %s %s" % (rt.error, rt.violated, [x for x in rt.raw_printed if "REJECTED" in x][:1]))
    ck.tlc(rt, "progress_traces")
    ck.traces += len(runs)
    ck.count("progress_traces", "events", len(events))
    ck.count("progress_traces", "messages", sum(1 for e in events if e["ev"] in ("Pct", "Final", "Count", "Iter", "PtPct", "PtDone", "PtCount")))
    bad = sorted({int(m.group(1)) - 1 for x in rt.raw_printed for m in [re.match(r'<<"BAD", (\d+)>>', x)] if m})
    for i in bad[:40]:
        ident = next((r[2] for r in runs if r[0] <= i < r[1]), {})
        ck.violation("progress display: message sequence / percentage and step counts / ETA / h:mm:ss of the elapsed, remaining or budgeted time / "
                     "silence when the display is off", {**ident, "event": events[i]}, site="ChainProgressPrinter:" + events[i]["ev"])
    if runs:
        s, e, ident = runs[len(runs) // 3]
        ck.sample({"part": "progress", **ident, "first_messages": [x.get("text") for x in events[s:e] if "text" in x][:3]})
    return ck.finish()
