"""C16 -- GP derivative predictions are the derivatives of the GP prediction.

MC   : GpExact.tla -- grad mu(q) = grad m(q) + SUM alpha_i dk(q, x_i)/dq, grad sigma^2(q) = -2 (dk_q)' K^-1 k_q and the gradient
       covariance (prior a^2/L^2 on the diagonal minus the part explained by the data), obtained by differentiating the posterior
       expressions of C02 with the squared-exponential kernel's spatial derivative; exact (rational multiples of ln2 and ln2^2).
S->C : gradient() and spatial_derivatives() of the real regressor, single and batched query points, 1-D and 2-D, every mean function;
       the gradient covariance must be symmetric positive-semidefinite and no larger than the prior.
"""
import numpy as np

from harness.core import Check, seed
from harness import gpexact as GE
from harness import gpkit as G
from harness import symlin as SL


def fd_part(ck, tier):
    """Problems outside the exact families, judged by the property's own relation: the predicted mean of the gradient and the reported
    derivative of the variance are the (central finite-difference) derivatives of the regressor's own predictive mean and variance.
    (a) a user-defined mean function with ONE hyper-parameter, m(x) = theta0 * (1 + x_0 / 2); (b) QuadraticMean with very small quadratic
    coefficients on coordinates up to 1e6; (c) LinearMean in two dimensions."""
    import warnings
    from inference.gp import GpRegressor, SquaredExponential
    from inference.gp.mean import MeanFunction, QuadraticMean, LinearMean

    class Ramp(MeanFunction):
        def __init__(self):
            self.bounds = [(-10.0, 10.0)]
            self.n_params = 1
            self.hyperpar_labels = ["Ramp amplitude"]

        def pass_spatial_data(self, x):
            self.x = np.asarray(x, dtype=float)

        def estimate_hyperpar_bounds(self, y):
            pass

        def __call__(self, q, theta):
            return float(theta[0] * (1.0 + 0.5 * np.asarray(q, dtype=float).reshape(-1)[0]))

        def build_mean(self, theta):
            return theta[0] * (1.0 + 0.5 * self.x[:, 0])

        def mean_and_gradients(self, theta):
            return self.build_mean(theta), [1.0 + 0.5 * self.x[:, 0]]

        def spatial_gradient(self, q, theta):
            g = np.zeros(self.x.shape[1])
            g[0] = 0.5 * theta[0]
            return g

    class RampNoGradient(Ramp):
        """the same mean written by a user who implemented the abstract methods only: the base class's spatial_gradient applies"""
        spatial_gradient = MeanFunction.spatial_gradient
    rng = np.random.default_rng(seed() + 16)
    problems = []
    x1 = np.array([0.0, 0.7, 1.9, 3.2, 4.0])
    problems.append(("user-defined one-parameter mean, 1-D", x1, np.sin(x1) + 0.5 * x1, Ramp(), np.array([0.8, 0.2, 0.1]), np.array([[0.4], [2.5], [3.7]]), 1.0))
    problems.append(("user-defined mean without a spatial_gradient method (a refusal is accepted, a wrong derivative is not)", x1, np.sin(x1) + 0.5 * x1, RampNoGradient(),
                     np.array([0.8, 0.2, 0.1]), np.array([[0.4], [2.5], [3.7]]), 1.0))
    x2 = rng.uniform(-1, 1, size=(6, 2))
    problems.append(("user-defined one-parameter mean, 2-D", x2, x2[:, 0] - x2[:, 1] ** 2, Ramp(), np.array([0.8, 0.2, 0.1, -0.2]), np.array([[0.1, 0.2], [-0.5, 0.6]]), 1.0))
    xb = np.array([0.0, 2.0e5, 4.5e5, 7.0e5, 1.0e6])
    problems.append(("QuadraticMean, tiny quadratic coefficient, coordinates to 1e6", xb, 1e-6 * xb + 3e-9 * (xb - 5e5) ** 2 * 1e-3, QuadraticMean(),
                     np.array([0.5, 1e-6, 3e-9, 0.0, np.log(2.0e5)]), np.array([[1.0e5], [6.3e5], [9.9e5]]), 1.0e5))
    problems.append(("LinearMean, 2-D", x2, x2[:, 0] - x2[:, 1], LinearMean(), np.array([0.3, 0.9, -1.1, 0.1, -0.2, 0.3]), np.array([[0.1, 0.2], [-0.5, 0.6]]), 1.0))
    for label, x, y, mean, hp, Q, hscale in problems:
        ck.case(("fd", label))
        try:
            with warnings.catch_warnings(), np.errstate(all="ignore"):
                warnings.simplefilter("ignore")
                gp = GpRegressor(x=x, y=y, y_err=np.full(len(y), 0.1), hyperpars=hp, kernel=SquaredExponential, mean=mean)
                d = Q.shape[1]
                gm, gc = gp.gradient(Q if d > 1 else Q[:, 0])
                dm, dv = gp.spatial_derivatives(Q if d > 1 else Q[:, 0])
                gm, dm, dv = (np.asarray(a, dtype=float).reshape(len(Q), d) for a in (gm, dm, dv))
                h = 1e-4 * hscale
                fd_m, fd_v = np.zeros((len(Q), d)), np.zeros((len(Q), d))
                for i, q in enumerate(Q):
                    for k in range(d):
                        e = np.zeros(d)
                        e[k] = h
                        qa, qb = (q + e).reshape(1, d), (q - e).reshape(1, d)
                        (ma, sa), (mb, sb) = gp(qa if d > 1 else qa[:, 0]), gp(qb if d > 1 else qb[:, 0])
                        fd_m[i, k] = (float(ma[0]) - float(mb[0])) / (2 * h)
                        fd_v[i, k] = (float(sa[0]) ** 2 - float(sb[0]) ** 2) / (2 * h)
        except NotImplementedError as ex:
            if isinstance(mean, RampNoGradient):
                continue                 # refused: nothing wrong is reported to the user
            ck.violation("derivative prediction raised", {"problem": label, "error": repr(ex)[:300]}, site="GpRegressor.gradient")
            continue
        except Exception as ex:
            ck.violation("derivative prediction raised", {"problem": label, "error": repr(ex)[:300]}, site="GpRegressor.gradient")
            continue
        sm = max(float(np.max(np.abs(fd_m))), 1e-12)
        sv = max(float(np.max(np.abs(fd_v))), 1e-12)
        if not (np.all(np.abs(gm - fd_m) <= 1e-5 * sm) and np.all(np.abs(dm - fd_m) <= 1e-5 * sm)):
            ck.violation("predicted mean of the spatial gradient = spatial derivative of the predictive mean (mean-function slope included)",
                         {"problem": label, "finite_difference_of_the_predictive_mean": fd_m, "gradient": gm, "spatial_derivatives": dm}, site="GpRegressor.gradient:mean")
        if not np.all(np.abs(dv - fd_v) <= 1e-4 * sv + 1e-9):
            ck.violation("reported derivative of the predictive variance = spatial derivative of the predictive variance",
                         {"problem": label, "finite_difference_of_the_predictive_variance": fd_v, "got": dv}, site="GpRegressor.spatial_derivatives:variance")


def run(tier):
    ck = Check("C16", tier)
    ck.rule = "one case per TLC-enumerated squared-exponential GP problem with <= 2 data points, evaluated at 3 query points singly and batched"
    ck.assumptions = ["only SquaredExponential supports derivative predictions (gradient_terms)"]
    GE.install_atoms()
    probs = [c for c in GE.explore(ck, focus="se") if c["gmean"]]
    for c in probs:
        pb = c["pb"]
        idn = GE.ident(pb)
        Q = np.array(c["Q"], dtype=float)
        d = Q.shape[1]
        ck.case(str(idn))
        want_gm = np.array([[SL.value(v) for v in row] for row in c["gmean"]])            # [query][dim]
        want_gv = np.array([[SL.value(v) for v in row] for row in c["gvar"]])
        want_gc = np.array([[[SL.value(v) for v in row] for row in m] for m in c["gcov"]])  # [query][dim][dim]
        scale = float(max(1.0, np.max(np.abs(want_gm)), np.max(np.abs(want_gc))))
        try:
            gp, hp, _ = GE.regressor(pb)
            q = Q if d > 1 else Q[:, 0]
            gm_b, gc_b = gp.gradient(q)
            dm_b, dv_b = gp.spatial_derivatives(q)
            singles = [(gp.gradient(Q[i] if d > 1 else Q[i, 0]), gp.spatial_derivatives(Q[i] if d > 1 else Q[i, 0])) for i in range(len(Q))]
        except Exception as ex:
            ck.violation("derivative prediction raised", {**idn, "error": repr(ex)[:300]}, site="GpRegressor.gradient")
            continue
        gm_b, gc_b, dm_b, dv_b = (np.asarray(a, dtype=float) for a in (gm_b, gc_b, dm_b, dv_b))
        nq = len(Q)
        try:
            gm_b2, dm_b2, dv_b2 = gm_b.reshape(nq, d), dm_b.reshape(nq, d), dv_b.reshape(nq, d)
            gc_b2 = gc_b.reshape(nq, d, d)
        except Exception:
            ck.violation("shapes of the batched derivative predictions", {**idn, "gradient_mean": list(gm_b.shape), "gradient_cov": list(gc_b.shape)},
                         site="GpRegressor.gradient")
            continue
        if not (GE.close(gm_b2, want_gm, scale) and GE.close(dm_b2, want_gm, scale)):
            ck.violation("predicted mean of the spatial gradient = spatial derivative of the predictive mean (mean-function slope included)",
                         {**idn, "want": want_gm, "gradient": gm_b2, "spatial_derivatives": dm_b2}, site="GpRegressor.gradient:mean")
        if not GE.close(dv_b2, want_gv, scale):
            ck.violation("reported derivative of the predictive variance = spatial derivative of the predictive variance",
                         {**idn, "want": want_gv, "got": dv_b2}, site="GpRegressor.spatial_derivatives:variance")
        if not GE.close(gc_b2, want_gc, scale):
            ck.violation("gradient covariance = prior gradient covariance minus the part explained by the data",
                         {**idn, "want": want_gc, "got": gc_b2}, site="GpRegressor.gradient:covariance")
        else:
            for i in range(nq):
                M = gc_b2[i]
                prior = np.diag([2.0 ** pb["kern"]["ja"] * 2 * m * np.log(2.0) for m in pb["kern"]["m"]])
                if not np.allclose(M, M.T, atol=1e-12 * scale) or np.min(np.linalg.eigvalsh(0.5 * (M + M.T))) < -1e-9 * scale \
                        or np.min(np.linalg.eigvalsh(prior - 0.5 * (M + M.T))) < -1e-9 * scale:
                    ck.violation("gradient covariance symmetric positive-semidefinite and no larger than the prior", {**idn, "query": c["Q"][i], "got": M},
                                 site="GpRegressor.gradient:covariance")
        for i, ((g1, c1), (m1, v1)) in enumerate(singles):
            ok = (GE.close(np.asarray(g1, dtype=float).reshape(d), want_gm[i], scale) and GE.close(np.asarray(m1, dtype=float).reshape(d), want_gm[i], scale)
                  and GE.close(np.asarray(v1, dtype=float).reshape(d), want_gv[i], scale) and GE.close(np.asarray(c1, dtype=float).reshape(d, d), want_gc[i], scale))
            if not ok:
                ck.violation("single-point derivative predictions agree with the batched ones and the reference",
                             {**idn, "query": c["Q"][i], "want_mean": want_gm[i], "got_mean": g1, "want_cov": want_gc[i], "got_cov": c1},
                             site="GpRegressor.gradient:single")
                break
        # (a) the scores evaluated at OTHER hyper-parameters in between must not change the derivative predictions of the fitted model;
        # (b) whole-number query points given as integers (array, list) give the derivatives of the equal float points
        try:
            other = hp + 0.37
            with np.errstate(all="ignore"):
                gp.marginal_likelihood(other)
                gp.loo_likelihood(other)
                gp.marginal_likelihood_gradient(other)
            gm_a, gc_a = gp.gradient(q)                       # (read right after the scores, before anything re-builds the model)
            dm_a, dv_a = gp.spatial_derivatives(q)
            # ... and other hyper-parameters SET and used in between (compared with a regressor without history), then restored
            gp.set_hyperparameters(other)
            dm_o, dv_o = gp.spatial_derivatives(q)
            gm_o, gc_o = gp.gradient(q)
            fresh, _, _ = GE.regressor(pb)
            fresh.set_hyperparameters(other.copy())
            dm_f, dv_f = fresh.spatial_derivatives(q)
            gm_f, gc_f = fresh.gradient(q)
            gp.set_hyperparameters(hp)
            path_ok = all(np.allclose(np.asarray(a_, dtype=float), np.asarray(b_, dtype=float), rtol=1e-10, atol=1e-12)
                          for a_, b_ in ((dm_o, dm_f), (dv_o, dv_f), (gm_o, gm_f), (gc_o, gc_f)))
            gm_c, gc_c = gp.gradient(q)
            dm_c, dv_c = gp.spatial_derivatives(q)
            qi = Q.astype(int) if d > 1 else Q[:, 0].astype(int)
            gm_i, gc_i = gp.gradient(qi)
            dm_i, dv_i = gp.spatial_derivatives(qi)
            dm_l, dv_l = gp.spatial_derivatives(qi.tolist())
            ck.case(str(idn) + "again")
            same = lambda a, b: np.asarray(a, dtype=float).shape == np.asarray(b, dtype=float).shape and np.allclose(np.asarray(a, dtype=float), np.asarray(b, dtype=float), rtol=1e-12, atol=1e-12 * scale)
            if not (path_ok and same(gm_c, gm_b) and same(gc_c, gc_b) and same(dm_c, dm_b) and same(dv_c, dv_b)
                    and same(gm_a, gm_b) and same(gc_a, gc_b) and same(dm_a, dm_b) and same(dv_a, dv_b)):
                ck.violation("derivative predictions of the fitted model do not depend on scores evaluated at other hyper-parameters in between",
                             {**idn, "gradient_mean_before": gm_b, "gradient_mean_after": gm_c, "variance_derivative_at_other_hyperpars": dv_o,
                              "same_from_a_regressor_without_history": dv_f}, site="GpRegressor.gradient:stale-state")
            if not (same(gm_i, gm_b) and same(gc_i, gc_b) and same(dm_i, dm_b) and same(dv_i, dv_b) and same(dm_l, dm_b) and same(dv_l, dv_b)):
                ck.violation("integer-typed query points give the derivative predictions of the equal float points",
                             {**idn, "float_points": dm_b, "integer_points": dm_i, "variance_derivative_float": dv_b, "variance_derivative_integer": dv_i},
                             site="GpRegressor.spatial_derivatives:dtype")
        except Exception as ex:
            ck.violation("derivative prediction raised (repeated / integer-typed query)", {**idn, "error": repr(ex)[:300]}, site="GpRegressor.gradient")
        # the whole problem translated by ~2^40 (squared-exponential prior: the derivative predictions do not change)
        Xa = np.array(pb["X"], dtype=float)
        if np.all((Xa.sum(axis=0) * 4096.0 / len(Xa)) == np.round(Xa.sum(axis=0) * 4096.0 / len(Xa))):
            try:
                S_ = 2.0 ** 40 + 1234567 * 2.0 ** -12
                gps, _, _ = GE.regressor(pb, xshift=S_)
                qs = (Q + S_) if d > 1 else (Q + S_)[:, 0]
                gm_s, gc_s = gps.gradient(qs)
                dm_s, dv_s = gps.spatial_derivatives(qs)
                ck.case(str(idn) + "shift")
                if not (GE.close(np.asarray(gm_s, dtype=float).reshape(nq, d), want_gm, scale) and GE.close(np.asarray(dv_s, dtype=float).reshape(nq, d), want_gv, scale)
                        and GE.close(np.asarray(gc_s, dtype=float).reshape(nq, d, d), want_gc, scale)):
                    ck.violation("derivative predictions of the problem translated far from the origin equal those of the original problem",
                                 {**idn, "translated_by": S_, "want_mean": want_gm, "got_mean": np.asarray(gm_s, dtype=float).reshape(nq, d)},
                                 site="GpRegressor.gradient:far")
            except Exception as ex:
                ck.violation("derivative prediction raised (translated problem)", {**idn, "error": repr(ex)[:300]}, site="GpRegressor.gradient")
        if len(ck.samples) < 3 and d == 2 and pb["mean"]["k"] != "const":
            ck.sample({**idn, "queries": c["Q"], "spec_gradient_mean": want_gm.tolist(), "spec_gradient_cov_q1": want_gc[0].tolist()})
    ck.traces += len(probs)
    fd_part(ck, tier)
    return ck.finish()
