SPECIFICATION TraceSpec
CONSTANT R = 6
INVARIANT StarvationFree
CONSTRAINT Progress
POSTCONDITION TraceAccepted
CHECK_DEADLOCK FALSE
