---- MODULE MC_AdvanceArith ----
EXTENDS AdvanceArith
====
