"""C05 -- likelihood classes are the normalised densities they are named after.

MC   : LikeExact.tla -- the three log-densities, their derivatives and the chain rule, written from the definitions as
       exact SymLin values; TLC enumerates data sets (1..3 data, scales 2^j, rational / ln q / 2^+-600 residuals, integer
       Jacobian rows) and prints value, gradient, cost, cost-gradient.
S->C : every enumerated case is built with the real GaussianLikelihood / CauchyLikelihood / LogisticLikelihood (linear
       forward model with that Jacobian) and __call__, gradient, cost, cost_gradient must agree to 1e-9 (scaled).
"""
import math
import numpy as np

from harness.core import Check, run_tlc, must_pass, seed
from harness import symlin as SL


class Lin:
    def __init__(self, J, c):
        self.J = np.array(J, dtype=float)
        self.c = np.array(c, dtype=float)

    def __call__(self, theta):
        return self.J @ np.asarray(theta, dtype=float) + self.c

    def jac(self, theta):
        return self.J


def run(tier):
    from inference.likelihoods import GaussianLikelihood, CauchyLikelihood, LogisticLikelihood
    ck = Check("C05", tier)
    ck.rule = "one case per TLC-enumerated (likelihood class, data set, Jacobian); distinct by construction"
    ck.assumptions = ["scales 2^j (logistic: sigma = 2^j pi/sqrt(3)); residuals rational, ln q, or 2^e ln 2 with |e| <= 600",
                      "math.log / log1p / tanh at exact arguments are trusted; tolerance 1e-9 of the sum of |terms|"]
    maxn = 2 if tier == "quick" else 3
    r = run_tlc("MC_LikeExact", cfg_text="INIT Init\nNEXT Next\nCONSTANTS MaxN = %d\nINVARIANT NegConsistent\nCHECK_DEADLOCK FALSE\n" % maxn,
                timeout=1800)
    if r.violated:
        ck.violation("spec: LikeExact", {"violated": r.violated}, site="spec")
    must_pass(r, "MC_LikeExact")
    ck.tlc(r, "likelihood_reference")
    cases = r.printed
    rng = np.random.default_rng(seed() + 8)
    if len(cases) > 40000:
        idx = rng.choice(len(cases), size=40000, replace=False)
        cases = [cases[i] for i in idx]
    theta = np.array([1.0, -2.0])
    for ci, c in enumerate(cases):
        kind, data, J = c["kind"], c["data"], c["jac"]
        n = len(data)
        f0 = rng.integers(-3, 4, size=n).astype(float)           # predictions at theta: J theta + const
        const = f0 - np.array(J, dtype=float) @ theta
        model = Lin(J, const)
        scale = np.array([2.0 ** d["j"] for d in data])
        if kind == "logistic":
            res = []
            for d in data:
                q = d["q"]
                lnq = (math.log(q[1]) - math.log(q[2])) if q[0] == "rat" else q[1] * math.log(2.0)
                res.append(2.0 ** d["j"] * lnq)
            y = f0 + np.array(res)
            sig = scale * (math.pi / math.sqrt(3.0))
            L = LogisticLikelihood(y_data=y, sigma=sig, forward_model=model, forward_model_jacobian=model.jac)
            cname = "LogisticLikelihood"
        else:
            y = f0 + np.array([d["r"][0] / d["r"][1] for d in data])
            if kind == "gauss":
                L = GaussianLikelihood(y_data=y, sigma=scale, forward_model=model, forward_model_jacobian=model.jac)
                cname = "GaussianLikelihood"
            else:
                L = CauchyLikelihood(y_data=y, gamma=scale, forward_model=model, forward_model_jacobian=model.jac)
                cname = "CauchyLikelihood"
        ident = {"class": cname, "data": data, "jacobian": J}
        ck.case((kind, str(data), str(J)))
        import copy as _copy
        L_ref = _copy.deepcopy(L)                # an object without call history, for the stale-state comparison below
        with np.errstate(all="ignore"):
            got = {"value": float(L(theta)), "cost": float(L.cost(theta)),
                   "grad": np.asarray(L.gradient(theta), dtype=float), "costgrad": np.asarray(L.cost_gradient(theta), dtype=float)}
        # rounding of y = f + residual enters z with relative 1e-16 * |z|: allow for it explicitly
        zmax = max(abs((yy - ff) / s) for yy, ff, s in zip(y, f0, scale))
        slack = 1.0 + zmax * zmax * 1e-6
        for key in ("value", "cost"):
            want = SL.value(c[key])
            if not SL.close(got[key], want, scale=SL.magnitude(c[key]) * slack):
                ck.violation(f"{key}: sum over data of the log-density of the named distribution (normalised)",
                             {**ident, "want": want, "got": got[key]}, site=f"{cname}.{key}")
        for key in ("grad", "costgrad"):
            want = np.array([SL.value(g) for g in c[key]])
            mag = max([SL.magnitude(g) for g in c[key]] + [1.0])
            if got[key].shape != want.shape or not all(SL.close(a, b, scale=mag * slack) for a, b in zip(got[key], want)):
                ck.violation(f"{key}: true derivative with respect to the model parameters (chain rule through the Jacobian)",
                             {**ident, "want": want, "got": got[key]}, site=f"{cname}.{key}")
        # the parameter vector is the caller's: the same array modified IN PLACE between two calls gives the value at its new content
        if ci % 6 == 1:
            th = theta.copy()
            with np.errstate(all="ignore"):
                v_a = float(L(th))
                th += np.array([0.5, -0.25])
                v_b, g_b = float(L(th)), np.asarray(L.gradient(th), dtype=float)
                fresh_b, fresh_g = float(L_ref(th.copy())), np.asarray(L_ref.gradient(th.copy()), dtype=float)
                th -= np.array([0.5, -0.25])
                v_c = float(L(th))
            if not ((v_b == fresh_b or (np.isnan(v_b) and np.isnan(fresh_b))) and np.array_equal(g_b, fresh_g, equal_nan=True) and v_c == v_a == got["value"]):
                ck.violation("value / gradient at the current content of a parameter array that the caller modified in place between calls",
                             {**ident, "first": v_a, "after_in_place_change": v_b, "fresh_array_same_content": fresh_b, "after_changing_back": v_c},
                             site=f"{cname}.__call__:stale-state")
        # the same problem in other UNITS (data, predictions and uncertainties all multiplied by 2^-40, an exact operation): every density gains the
        # factor 2^40 per datum, the gradient with respect to the parameters is unchanged
        if ci % 3 == 0 and zmax < 1e3 and np.all(np.isfinite(got["grad"])) and np.isfinite(got["value"]):
            u_ = 2.0 ** -40
            model_u = Lin(np.array(J, dtype=float) * u_, const * u_)
            unc_u = (sig if kind == "logistic" else scale) * u_
            try:
                L_u = type(L)(y_data=y * u_, forward_model=model_u, forward_model_jacobian=model_u.jac, **({"gamma": unc_u} if kind == "cauchy" else {"sigma": unc_u}))
                with np.errstate(all="ignore"):
                    v_u, g_u = float(L_u(theta)), np.asarray(L_u.gradient(theta), dtype=float)
                want_u = got["value"] + n * 40.0 * math.log(2.0)
                if not (abs(v_u - want_u) <= 1e-9 * (abs(want_u) + n * 40.0) and np.allclose(g_u, got["grad"], rtol=1e-9, atol=1e-9 * (1.0 + float(np.max(np.abs(got["grad"])))))):
                    ck.violation("value: sum over data of the log-density of the named distribution (normalised), at any scale of the data",
                                 {**ident, "all_quantities_multiplied_by": u_, "want": want_u, "got": v_u, "gradient_unit_scale": got["grad"], "gradient_scaled": g_u},
                                 site=f"{cname}.value:units")
            except Exception as ex:
                ck.violation("likelihood raised on rescaled data", {**ident, "error": repr(ex)[:200]}, site=f"{cname}.value:units")
        # the same likelihood from other accepted input forms (lists; column-vector uncertainties): same value and gradient
        if ci % 5 == 0:
            unc = sig if kind == "logistic" else scale
            forms = [dict(y_data=[float(v) for v in y], unc=[float(v) for v in unc]), dict(y_data=y.reshape(-1, 1), unc=np.asarray(unc).reshape(-1, 1)),
                     dict(y_data=y.copy(), unc=[[float(v)] for v in unc]), dict(y_data=y.reshape(1, -1), unc=np.asarray(unc).reshape(1, -1))]
            if np.all(np.asarray(unc) == np.round(unc)) and np.all(np.asarray(unc) < 200) and np.all(np.asarray(unc) >= 1):
                # whole-number uncertainties in narrow integer types (their squares do not fit the type)
                forms += [dict(y_data=y.copy(), unc=np.asarray(unc).astype(np.uint8)), dict(y_data=y.copy(), unc=np.asarray(unc).astype(np.int16))]
            with np.errstate(all="ignore"):
                if np.all(np.asarray(unc, dtype=np.float16).astype(float) == np.asarray(unc, dtype=float)):
                    # uncertainties that single and half precision hold exactly, given in those types: results in double precision all the same
                    forms += [dict(y_data=y.copy(), unc=np.asarray(unc).astype(np.float32)), dict(y_data=y.copy(), unc=np.asarray(unc).astype(np.float16))]
            f_ = forms[(ci // 5) % len(forms)]
            try:
                L2 = type(L)(y_data=f_["y_data"], forward_model=model, forward_model_jacobian=model.jac,
                             **({"gamma": f_["unc"]} if kind == "cauchy" else {"sigma": f_["unc"]}))
            except Exception:
                L2 = None       # a form the constructor rejects is not part of the property
            try:
                if L2 is None:
                    raise StopIteration
                with np.errstate(all="ignore"):
                    v2, g2 = L2(theta), np.asarray(L2.gradient(theta), dtype=float)
                same = np.ndim(v2) == 0 and float(v2) == got["value"] and g2.shape == got["grad"].shape and np.array_equal(g2, got["grad"])
                if not (same or (np.ndim(v2) == 0 and SL.close(float(v2), SL.value(c["value"]), scale=SL.magnitude(c["value"]) * slack)
                                 and g2.shape == got["grad"].shape and np.allclose(g2, got["grad"], rtol=1e-12, atol=1e-300))):
                    ck.violation("value: sum over data of the log-density of the named distribution (normalised)",
                                 {**ident, "input_form": {k: type(v).__name__ + str(np.shape(v)) for k, v in f_.items()}, "want": got["value"],
                                  "got": np.asarray(v2).tolist(), "gradient_shape": list(g2.shape)}, site=f"{cname}.value:input-form")
            except StopIteration:
                pass
            except Exception as ex:
                ck.violation("likelihood built from an accepted input form raised when evaluated",
                             {**ident, "input_form": {k: type(v).__name__ + str(np.shape(v)) for k, v in f_.items()}, "error": repr(ex)[:200]},
                             site=f"{cname}.value:input-form")
        # the same data repeated Rep times: a large data set whose log-likelihood is Rep times the value above
        if ci % (7 if tier == "quick" else 23) == 0 and zmax < 1e3:
            R = int(c["rep"])
            modelR = Lin(J * R, np.tile(const, R))
            kw = dict(y_data=np.tile(y, R), forward_model=modelR, forward_model_jacobian=modelR.jac)
            LR = type(L)(**kw, **({"gamma": np.tile(scale, R)} if kind == "cauchy" else {"sigma": np.tile(sig if kind == "logistic" else scale, R)}))
            with np.errstate(all="ignore"):
                gv, gg = float(LR(theta)), np.asarray(LR.gradient(theta), dtype=float)
            ck.case((kind, str(data), str(J), "rep"))
            want = SL.value(c["value_rep"])
            if not SL.close(gv, want, scale=SL.magnitude(c["value_rep"]) * slack):
                ck.violation("value: sum over data of the log-density of the named distribution (normalised)",
                             {**ident, "data_set_repeated": R, "data_points": n * R, "want": want, "got": gv}, site=f"{cname}.value:large")
            wantg = np.array([SL.value(g) for g in c["grad_rep"]])
            mag = max([SL.magnitude(g) for g in c["grad_rep"]] + [1.0])
            if gg.shape != wantg.shape or not all(SL.close(a, b, scale=mag * slack) for a, b in zip(gg, wantg)):
                ck.violation("grad: true derivative with respect to the model parameters (chain rule through the Jacobian)",
                             {**ident, "data_set_repeated": R, "want": wantg, "got": gg}, site=f"{cname}.grad:large")
        if len(ck.samples) < 4 and n == maxn and any("q" in d and d["q"][0] == "pow2" for d in data):
            ck.sample({"class": cname, "data": data, "jacobian": J, "spec_value": SL.value(c["value"]), "code_value": got["value"]})
    ck.traces += len(cases)
    return ck.finish()
