INIT LInit
NEXT LNext
CONSTANTS Boxes <- MCBoxes
  MaxCalls = 3
INVARIANT RegionNonEmpty
INVARIANT InForceIsRegion
INVARIANT ExportAll
PROPERTY OthersUntouched
CHECK_DEADLOCK FALSE
