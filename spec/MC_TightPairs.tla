---- MODULE MC_TightPairs ----
EXTENDS TightPairs
====
