---- MODULE PriorTrace ----
(* C06, code -> spec: recorded generate_initial_guesses calls: ranks of the prior draws by cost, n requested, indices returned *)
EXTENDS PriorExact, TLCExt, Json, IOUtils
Log == ndJsonDeserialize(IOEnv.TRACE_FILE)
VARIABLES l
Ev == Log[l]
TraceInit == TLCSet(1, 1) /\ l = 1
Call == IF GuessOK(Ev.ranks, Ev.n, Ev.returned) THEN TRUE ELSE PrintT(<<"BAD", l>>)
TraceNext == l <= Len(Log) /\ l' = l + 1 /\ Call
TraceSpec == TraceInit /\ [][TraceNext]_l
Progress == TLCSet(1, IF l > TLCGet(1) THEN l ELSE TLCGet(1))
TraceAccepted == IF TLCGet(1) = Len(Log) + 1 THEN TRUE ELSE PrintT(<<"REJECTED at line", TLCGet(1)>>) /\ FALSE
====
