---- MODULE MC_GpExact ----
EXTENDS GpExact, Json
Pre(s, d) == [i \in 1..d |-> s[i]]
Se1(d) == [k |-> "se", ja |-> 0, m |-> Pre(<<1, 1>>, d)]
Se2(d) == [k |-> "se", ja |-> 2, m |-> Pre(<<1, 2>>, d)]
Rq1(d) == [k |-> "rq", ja |-> 0, kk |-> 1, c |-> Pre(<<<<1, 1>>, <<1, 1>>>>, d)]
Wn == [k |-> "wn", j |-> -1]
Hn(n) == [k |-> "hn", js |-> Pre(<<-1, 0, -2>>, n)]
Sum(ps) == [k |-> "sum", parts |-> ps]
Cp(ps, cs) == [k |-> "cp", parts |-> ps, axis |-> 1, cs |-> cs]
CpA(ps, cs, ax) == [k |-> "cp", parts |-> ps, axis |-> ax, cs |-> cs]          \* change-point along another axis than the first (ax = d)
CONSTANT Deep        \* FALSE: the quick family; TRUE (thorough tier): more point sets and a second data vector
XSets == { << <<0>>, <<2>> >>, << <<0>>, <<1>> >>, << <<1>> >>, << <<0, 1>>, <<1, 0>> >> }
         \cup (IF Deep THEN { << <<0>>, <<-1>> >>, << <<-1>>, <<1>> >>, << <<2>> >>, << <<0, 0>>, <<1, 1>> >>, << <<1, 0>>, <<0, -1>> >> } ELSE {})
Ys == <<1, -2, 3>>
YSets == {Ys} \cup (IF Deep THEN { <<0, 3, -1>> } ELSE {})
Diag(v) == [i \in 1..Len(v) |-> [j \in 1..Len(v) |-> IF i = j THEN v[i] ELSE <<0, 1>>]]
Sigs(n) == { Diag(Pre(<<<<0, 1>>, <<0, 1>>, <<0, 1>>>>, n)), Diag(Pre(<<<<1, 4>>, <<1, 4>>, <<1, 4>>>>, n)), Diag(Pre(<<<<1, 1>>, <<1, 4>>, <<1, 2>>>>, n)) }
        \cup (IF n = 2 THEN { << <<<<1, 1>>, <<1, 2>>>>, <<<<1, 2>>, <<1, 1>>>> >> } ELSE {})          \* correlated data errors (two points)
        \cup (IF n = 3 THEN { << <<<<1, 1>>, <<1, 2>>, <<0, 1>>>>, <<<<1, 2>>, <<1, 1>>, <<0, 1>>>>, <<<<0, 1>>, <<0, 1>>, <<1, 4>>>> >> } ELSE {})
\* a change-point kernel has a position-dependent prior variance (amplitudes 1 and 4 on the two sides); with three kernels the first,
\* the middle and the last region are weighted differently
Kernels(d, n) == { Se1(d), Se2(d), Rq1(d), Sum(<<Se1(d), Wn>>), Sum(<<Rq1(d), Hn(n)>>) } \cup (IF n = 2 THEN {Sum(<<Cp(<<Se1(d), Se2(d)>>, <<1>>), Wn>>), Sum(<<Cp(<<Se1(d), Se2(d), Se1(d)>>, <<0, 1>>), Wn>>),
                                        Sum(<<CpA(<<Se1(d), Se2(d)>>, <<1>>, d), Wn>>)} ELSE {})
Means(d) == { [k |-> "const", th |-> <<2>>], [k |-> "lin", th |-> Pre(<<1, 2, -1>>, 1 + d)], [k |-> "quad", th |-> Pre(<<1, 2, -1, 1, 1>>, 1 + 2 * d)] }
Queries(d) == IF d = 1 THEN << <<1>>, <<2>>, <<-1>> >> ELSE << <<1, 0>>, <<0, 0>>, <<2, 1>> >>
CONSTANT Focus       \* "all" | "se" (only the problems with derivative predictions: squared-exponential kernel, <= 2 data points)
Rep == 128
ScaleLog2 == 0 - 12
VARIABLES pb, cx, out
\* two families: everything for n <= 2 data points; for n = 3 a leaner set (exact 3x3 inverses and their products must fit 32 bits)
Small == {X \in XSets : Len(X) <= 2}
Big == { << <<0>>, <<1>>, <<2>> >>, << <<0, 0>>, <<1, 1>>, <<1, 0>> >> }
Init == /\ \/ \E X \in Small : \E kn \in Kernels(Len(X[1]), Len(X)), mf \in Means(Len(X[1])), sg \in Sigs(Len(X)), yy \in YSets :
                 pb = [X |-> X, y |-> Pre(yy, Len(X)), sig |-> sg, kern |-> kn, mean |-> mf]
           \/ \E X \in Big : \E kn \in {Se1(Len(X[1])), Rq1(Len(X[1])), Sum(<<Se1(Len(X[1])), Wn>>)}, mf \in {m \in Means(Len(X[1])) : m.k # "quad"},
                                sg \in {Diag(<<<<1, 4>>, <<1, 4>>, <<1, 4>>>>), Diag(<<<<1, 1>>, <<1, 4>>, <<1, 2>>>>)} :
                 pb = [X |-> X, y |-> Ys, sig |-> sg, kern |-> kn, mean |-> mf]
        /\ (Focus = "se" => (pb.kern.k = "se" /\ Len(pb.X) <= 2))
        /\ (Len(pb.X) = 2 /\ pb.sig[1][2] # <<0, 1>>                                      \* correlated errors: the smallest family (32-bit limits)
               => pb.X = << <<0>>, <<1>> >> /\ pb.kern.k = "se" /\ pb.kern.ja = 0 /\ pb.mean.k = "const")
        /\ (pb.kern.k = "sum" /\ pb.kern.parts[1].k = "cp" /\ Len(pb.kern.parts[1].parts) = 3           \* three-kernel change-point: 32-bit limits
               => pb.X = << <<0>>, <<1>> >> /\ pb.mean.k # "quad" /\ pb.sig[1][1] = pb.sig[2][2])
        /\ (pb.kern.k = "sum" /\ pb.kern.parts[1].k = "cp" /\ pb.kern.parts[1].axis # 1           \* change-point along the last axis: 32-bit limits
               => pb.X = << <<0, 1>>, <<1, 0>> >>)
        /\ cx = FullContext(pb)
        /\ out = 0
Q == Queries(Len(pb.X[1]))
IsSe == pb.kern.k = "se"
\* three data points: values only (posterior, scores, leave-one-out predictions); the gradient tables need products beyond 32 bits
IsCp3 == pb.kern.k = "sum" /\ pb.kern.parts[1].k = "cp" /\ Len(pb.kern.parts[1].parts) = 3
Lean == N(pb) = 3 \/ IsCp3
\* the cubic products of the exact LOO gradient only fit 32 bits for uniform data noise (otherwise it is not exported)
LooGradFits == (\A i \in 1..N(pb) : pb.sig[i][i] = pb.sig[1][1]) /\ pb.X \in { << <<0>>, <<1>> >>, << <<1>> >> } /\ pb.kern.k \in {"se", "rq"}
Next == /\ out = 0 /\ out' = 1 /\ UNCHANGED <<pb, cx>>
        /\ PrintT(ToJson([pb |-> pb, Q |-> Q, mean |-> [i \in 1..Len(Q) |-> PostMean(cx, Q[i])], cov |-> PostCovMatrix(cx, Q),
                          prior |-> [i \in 1..Len(Q) |-> Val(pb.kern, Q[i], Q[i])],
                          lml |-> LML(cx), loo |-> LOOTerms(cx),
                          \* Rep copies of the data set placed so far apart that the prior covariance between copies vanishes: every score is
                          \* Rep times the score of one copy (hundreds of data points); in units 2^ScaleLog2 times larger (data, errors, prior
                          \* mean and amplitude) every data point adds -ScaleLog2 ln2 to either score
                          rep |-> Rep, scale_log2 |-> ScaleLog2, lml_rep |-> SScale(RInt(Rep), LML(cx)),
                          unit_shift |-> SAtom(RInt((0 - ScaleLog2) * Rep * N(pb)), <<"ln2">>), loomv |-> [i \in 1..N(pb) |-> LooMuVar(cx, i)],
                          lmlgm |-> LMLGradMean(cx), lmlgc |-> IF Lean THEN <<>> ELSE LMLGradCov(cx), loogm |-> IF Lean THEN <<>> ELSE LOOGradMean(cx), loogc |-> IF LooGradFits THEN LOOGradCov(cx) ELSE <<>>,
                          gmean |-> IF IsSe /\ ~Lean THEN [i \in 1..Len(Q) |-> GradMean(cx, pb.kern, Q[i])] ELSE <<>>,
                          gvar |-> IF IsSe /\ ~Lean THEN [i \in 1..Len(Q) |-> GradVar(cx, pb.kern, Q[i])] ELSE <<>>,
                          gcov |-> IF IsSe /\ ~Lean THEN [i \in 1..Len(Q) |-> GradCov(cx, pb.kern, Q[i])] ELSE <<>>]))
\* properties of the reference
VarRange == \A i \in 1..Len(Q) : VarInPriorRange(cx, Q[i])
CovSymmetric == RSymmetric(PostCovMatrix(cx, Q))
Shortcut == LooShortcutAgrees(cx)
HasHn == pb.kern.k = "sum" /\ \E p \in 1..Len(pb.kern.parts) : pb.kern.parts[p].k = "hn"
Reverse == [i \in 1..N(pb) |-> N(pb) + 1 - i]
OrderIndep == ~HasHn => \A i \in 1..Len(Q) : OrderIndependent(cx, Reverse, Q[i])
====
