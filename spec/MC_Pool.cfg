SPECIFICATION Spec
CONSTANTS NT = 4 NW = 3
INVARIANT PoolEqualsSerial
PROPERTY Completes
CHECK_DEADLOCK FALSE
