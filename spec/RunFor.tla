------------------------------- MODULE RunFor -------------------------------
(***************************************************************************)
(* C15 -- timed runs.  The specification is stated over observables only:   *)
(* reads of the clock made by the run_for loop and steps taken.  The batch  *)
(* size estimator and the progress printer are free (DESIGN 2e).            *)
(*                                                                         *)
(*   ExitOnlyAfterBudget : the call returns only after some clock read      *)
(*                         returned t >= deadline;                          *)
(*   NoStepAfterBudget   : no step is taken after such a read;              *)
(*   StarvationFree      : never more than R consecutive clock reads below  *)
(*                         the deadline without a step in between (a run    *)
(*                         that only polls the clock is not "taking whole   *)
(*                         steps until its budget is used up").             *)
(*                                                                         *)
(*   OverrunBounded      : when every step costs the same c, the call       *)
(*                         returns within 2 max(20 c, 1 s) + c of the       *)
(*                         deadline (the first batch of the as-built loop   *)
(*                         is 20 steps, later ones about one second's       *)
(*                         worth; the bound leaves a factor two), whatever  *)
(*                         history the chain already has.                   *)
(*                                                                         *)
(* This module is the trace specification: it consumes the events recorded  *)
(* from the real run_for (driven by a fake clock whose cost schedule TLC    *)
(* enumerated, RunForGen.tla), several runs per file.  Times are integer    *)
(* microseconds relative to the first read.                                 *)
(***************************************************************************)
EXTENDS Integers, Sequences, TLC, TLCExt, Json, IOUtils
CONSTANT R
Log == ndJsonDeserialize(IOEnv.TRACE_FILE)
VARIABLES l, running, deadline, budget, idle, over, steps, maxidle, uni, cmax, last
vars == <<l, running, deadline, budget, idle, over, steps, maxidle, uni, cmax, last>>
Max(a, b) == IF a > b THEN a ELSE b
Ev == Log[l]
TraceInit == TLCSet(1, 1) /\ l = 1 /\ running = FALSE /\ deadline = -1 /\ budget = 0 /\ idle = 0 /\ over = FALSE /\ steps = 0 /\ maxidle = 0
             /\ uni = FALSE /\ cmax = 0 /\ last = 0
Begin == /\ Ev.ev = "Begin" /\ ~running /\ running' = TRUE /\ budget' = Ev.budget /\ deadline' = -1
         /\ idle' = 0 /\ over' = FALSE /\ steps' = 0 /\ maxidle' = 0
         /\ uni' = (IF "uniform" \in DOMAIN Ev THEN Ev.uniform ELSE FALSE) /\ cmax' = (IF "cmax" \in DOMAIN Ev THEN Ev.cmax ELSE 0) /\ last' = 0
Clock == /\ Ev.ev = "Clock" /\ running
         /\ deadline' = IF deadline = -1 THEN Ev.t + budget ELSE deadline          \* the first read fixes the deadline
         /\ over' = (over \/ (deadline # -1 /\ Ev.t >= deadline) \/ (deadline = -1 /\ budget = 0))   \* (a zero budget is used up at the first read)
         /\ idle' = IF deadline # -1 /\ Ev.t < deadline THEN idle + 1 ELSE idle
         /\ maxidle' = IF idle' > maxidle THEN idle' ELSE maxidle
         /\ last' = Ev.t
         /\ UNCHANGED <<running, budget, steps, uni, cmax>>
\* Ev.n >= 1 consecutive whole steps with no clock read in between
Step == /\ Ev.ev = "Steps" /\ running /\ Ev.n >= 1
        /\ ~over                                   \* NoStepAfterBudget
        /\ idle' = 0 /\ steps' = steps + Ev.n /\ UNCHANGED <<running, deadline, budget, over, maxidle, uni, cmax, last>>
End == /\ Ev.ev = "End" /\ running
       /\ over                                     \* ExitOnlyAfterBudget
       /\ Ev.added = steps                         \* the chain grew by exactly the steps taken (whole steps)
       /\ (uni => (last - deadline - cmax) \div 2 <= Max(20 * cmax, 1000000))      \* OverrunBounded
       /\ running' = FALSE /\ UNCHANGED <<deadline, budget, idle, over, steps, maxidle, uni, cmax, last>>
TraceNext == l <= Len(Log) /\ l' = l + 1 /\ (Begin \/ Clock \/ Step \/ End)
TraceSpec == TraceInit /\ [][TraceNext]_vars
StarvationFree == idle <= R
Progress == TLCSet(1, IF l > TLCGet(1) THEN l ELSE TLCGet(1))
TraceAccepted == IF TLCGet(1) = Len(Log) + 1 THEN TRUE ELSE PrintT(<<"REJECTED at line", TLCGet(1), Log[TLCGet(1)]>>) /\ FALSE
=============================================================================
