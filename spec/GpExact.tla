------------------------------- MODULE GpExact -------------------------------
(***************************************************************************)
(* C02 / C11 / C16 -- the Gaussian-process posterior, the model-selection   *)
(* scores with their gradients, and the derivative predictions, in exact    *)
(* arithmetic on the rational kernel families of KernelExact.tla.           *)
(*                                                                         *)
(* A problem is a record                                                    *)
(*   [X, y, sig, kern, mean]   X: data points (integer tuples), y: integer  *)
(*   data, sig: data-error COVARIANCE matrix (rationals), kern / mean:      *)
(*   descriptions as in KernelExact.                                        *)
(***************************************************************************)
EXTENDS KernelExact
N(pb) == Len(pb.X)
Kxx(pb) == RMatAdd(BuildMatrix(pb.kern, pb.X), pb.sig)                              \* K_xx + S
Resid(pb) == [i \in 1..N(pb) |-> RSub(RInt(pb.y[i]), MeanAt(pb.mean, pb.X, pb.X[i]))]   \* y - m(x)
\* TLC does not memoise operator applications: the inverse, alpha and the derivative tables are computed ONCE per problem
\* (bound into a state variable by the MC module) and passed around as a context record cx
Context(pb) == LET ik == RInverse(Kxx(pb)) IN [pb |-> pb, ik |-> ik, al |-> RMatVec(ik, Resid(pb))]
FullContext(pb) == LET c == Context(pb) IN [pb |-> pb, ik |-> c.ik, al |-> c.al, dk |-> GradMatrices(pb.kern, pb.X),
                     dm |-> [b \in 1..Len(pb.mean.th) |-> [i \in 1..Len(pb.X) |-> MeanGrads(pb.mean, pb.X, pb.X[i])[b]]]]
IK(cx) == cx.ik
Alpha(cx) == cx.al
KRow(pb, q) == [i \in 1..N(pb) |-> Val(pb.kern, q, pb.X[i])]                        \* K_qx (noise kernels: zero cross terms)
\* ---- C02: the closed-form posterior -------------------------------------------------------------------------------
PostMean(cx, q) == RAdd(MeanAt(cx.pb.mean, cx.pb.X, q), RDot(KRow(cx.pb, q), Alpha(cx)))
PostCov(cx, q1, q2) == RSub(Val(cx.pb.kern, q1, q2), RDot(KRow(cx.pb, q1), RMatVec(IK(cx), KRow(cx.pb, q2))))
PostCovMatrix(cx, Q) == [i \in 1..Len(Q) |-> [j \in 1..Len(Q) |-> PostCov(cx, Q[i], Q[j])]]
\* properties of the reference itself
VarInPriorRange(cx, q) == RLeq(RZero, PostCov(cx, q, q)) /\ RLeq(PostCov(cx, q, q), Val(cx.pb.kern, q, q))
Permute(pb, perm) == [pb EXCEPT !.X = [i \in 1..N(pb) |-> pb.X[perm[i]]], !.y = [i \in 1..N(pb) |-> pb.y[perm[i]]],
                               !.sig = [i \in 1..N(pb) |-> [j \in 1..N(pb) |-> pb.sig[perm[i]][perm[j]]]]]
\* (heteroscedastic noise kernels are indexed by data point: excluded from the permutation statement)
OrderIndependent(cx, perm, q) == LET c2 == Context(Permute(cx.pb, perm)) IN PostMean(c2, q) = PostMean(cx, q) /\ PostCov(c2, q, q) = PostCov(cx, q, q)
\* ---- C11: model-selection scores ---------------------------------------------------------------------------------------
\* log marginal likelihood up to the fixed -n/2 ln(2 pi):  -1/2 r' K^-1 r - 1/2 ln det K
LML(cx) == SAdd(SRat(RMul(<<-1, 2>>, RDot(Resid(cx.pb), Alpha(cx)))), SLn(<<-1, 2>>, RDet(Kxx(cx.pb))))
\* leave-one-out by ACTUALLY deleting point i: predict the observation y_i from the others under N(m, K + S)
Others(cx, i) == [k \in 1..(N(cx.pb) - 1) |-> IF k < i THEN k ELSE k + 1]
LooMuVar(cx, i) == LET o == Others(cx, i)  K == Kxx(cx.pb)  r == Resid(cx.pb) IN
    IF N(cx.pb) = 1 THEN <<MeanAt(cx.pb.mean, cx.pb.X, cx.pb.X[i]), K[1][1]>>
    ELSE LET Ko == [a \in 1..Len(o) |-> [b \in 1..Len(o) |-> K[o[a]][o[b]]]]
             ki == [a \in 1..Len(o) |-> K[i][o[a]]]
             ro == [a \in 1..Len(o) |-> r[o[a]]]
             w == RMatVec(RInverse(Ko), ki)
         IN <<RAdd(MeanAt(cx.pb.mean, cx.pb.X, cx.pb.X[i]), RDot(w, ro)), RSub(K[i][i], RDot(w, ki))>>
\* LOO score: SUM -1/2 ln v_i - (y_i - mu_i)^2 / (2 v_i)
\* (exported term by term: the harness adds the three exact terms; their common denominator need not fit 32 bits)
LOOTerms(cx) == [i \in 1..N(cx.pb) |-> LET mv == LooMuVar(cx, i)  e == RSub(RInt(cx.pb.y[i]), mv[1]) IN
                    SAdd(SLn(<<-1, 2>>, mv[2]), SRat(RMul(<<-1, 2>>, RDiv(RMul(e, e), mv[2]))))]
\* gradients: dK[p] = matrix of SymLin partial derivatives of K_xx w.r.t. covariance parameter p; dm[b][i] for mean parameters
DK(cx) == cx.dk
DM(cx) == cx.dm
\* SUM_ij c[i][j] * S[i][j] for a rational matrix c and a SymLin matrix S
Contract(c, S) == SSum([i \in 1..Len(c) |-> SSum([j \in 1..Len(c) |-> SScale(c[i][j], S[i][j])], Len(c))], Len(c))
\* d LML / d theta_p = 1/2 tr((alpha alpha' - K^-1) dK_p) ;  d LML / d beta = alpha' dm
LMLGradCov(cx) == LET a == Alpha(cx)  ik == IK(cx)
                      Qm == [i \in 1..N(cx.pb) |-> [j \in 1..N(cx.pb) |-> RMul(<<1, 2>>, RSub(RMul(a[i], a[j]), ik[i][j]))]]
                  IN [p \in 1..Len(DK(cx)) |-> Contract(Qm, DK(cx)[p])]
LMLGradMean(cx) == [b \in 1..Len(DM(cx)) |-> RDot(Alpha(cx), DM(cx)[b])]
\* LOO gradient (Rasmussen & Williams 5.13): with Z = K^-1 dK,
\*   dL/dtheta = SUM_i [ alpha_i (Z alpha)_i - 1/2 (1 + alpha_i^2 / Kinv_ii) (Z K^-1)_ii ] / Kinv_ii
\* written as a contraction  SUM_ab C[a][b] dK[a][b]  with
\*   C[a][b] = SUM_i ( alpha_i Kinv[i][a] alpha_b - 1/2 (1 + alpha_i^2/Kinv_ii) Kinv[i][a] Kinv[b][i] ) / Kinv_ii
LOOGradCov(cx) == LET a == Alpha(cx)  ik == IK(cx)  n == N(cx.pb)
                      C == [x \in 1..n |-> [z \in 1..n |-> RSum([i \in 1..n |->
                              RDiv(RSub(RMul(RMul(a[i], ik[i][x]), a[z]),
                                        RMul(RMul(<<1, 2>>, RAdd(ROne, RDiv(RMul(a[i], a[i]), ik[i][i]))), RMul(ik[i][x], ik[z][i]))),
                                   ik[i][i])], n)]]
                  IN [p \in 1..Len(DK(cx)) |-> Contract(C, DK(cx)[p])]
\*   dL/dbeta = SUM_i alpha_i v_i (K^-1 dm)_i ,  v_i = 1/Kinv_ii
LOOGradMean(cx) == LET a == Alpha(cx)  ik == IK(cx)  n == N(cx.pb) IN
                   [b \in 1..Len(DM(cx)) |-> RSum([i \in 1..n |-> RMul(RDiv(a[i], ik[i][i]), RMatVec(ik, DM(cx)[b])[i])], n)]
\* the inverse-diagonal shortcut equals deletion (identity of the reference, TLC-checked)
LooShortcutAgrees(cx) == \A i \in 1..N(cx.pb) : LET mv == LooMuVar(cx, i) IN
                            mv[2] = RInv(IK(cx)[i][i]) /\ mv[1] = RSub(RInt(cx.pb.y[i]), RDiv(Alpha(cx)[i], IK(cx)[i][i]))
\* ---- C16: derivative predictions for the squared-exponential kernel (the only one supporting them) ------------------------
\* d k(q, x) / d q_a = k (x_a - q_a) / L_a^2 = k (x_a - q_a) * 2 m_a ln2      [rational part; the atom ln2 is attached below]
DkR(kn, q, x, a) == RMul(SeVal(kn, q, x), RInt((x[a] - q[a]) * 2 * kn.m[a]))
\* gradient of the predictive mean = slope of the mean function + SUM_i alpha_i dk(q, x_i)/dq
GradMean(cx, se, q) == [a \in 1..Len(q) |->
      SAdd(SRat(MeanSlope(cx.pb.mean, cx.pb.X, q)[a]), SAtom(RSum([i \in 1..N(cx.pb) |-> RMul(Alpha(cx)[i], DkR(se, q, cx.pb.X[i], a))], N(cx.pb)), <<"ln2">>))]
\* gradient of the predictive variance = -2 (dk_q)' K^-1 k_q      (d k(q,q)/dq = 0)
GradVar(cx, se, q) == LET w == RMatVec(IK(cx), KRow(cx.pb, q)) IN
      [a \in 1..Len(q) |-> SAtom(RMul(RInt(-2), RSum([i \in 1..N(cx.pb) |-> RMul(DkR(se, q, cx.pb.X[i], a), w[i])], N(cx.pb))), <<"ln2">>)]
\* covariance of the gradient = prior gradient covariance (diagonal, a^2 / L_a^2) - part explained by the data
GradCov(cx, se, q) == [a \in 1..Len(q) |-> [b \in 1..Len(q) |->
      SAdd(IF a = b THEN SAtom(RMul(RPow2(se.ja), RInt(2 * se.m[a])), <<"ln2">>) ELSE SZero,
           SAtom(RNeg(RDot([i \in 1..N(cx.pb) |-> DkR(se, q, cx.pb.X[i], a)], RMatVec(IK(cx), [i \in 1..N(cx.pb) |-> DkR(se, q, cx.pb.X[i], b)]))), <<"ln2sq">>))]]
=============================================================================
