"""C19 -- density-estimator intervals, moments and normalisation are self-consistent (both estimators).

MC   : KdeExact.tla -- closed-form mean, variance, skewness and excess kurtosis of the Gaussian mixture for light-tailed histograms with
       integer mean, exact mass between two points and density at them (KdeInterval.tla).
S->C : moments() of the real estimator on the replicated histogram under affine maps x -> a x + b (a from 2^-20 to 2^20, locations up to
       1e6 standard deviations from zero) against the closed form in units of the data's own scale; covariance between runs; mode.
C->S : interval(f) ends are quantised to 1/1024 and handed back to the reference, which prints the mass between them and the densities at
       the ends.
C->S : PdfTable.tla -- both estimators fitted to the unimodal quantile samples enumerated by MC_PdfFamily.tla (hundreds to thousands of
       points, scales 1e-6 .. 1e6, locations up to 2e4 standard deviations from zero) are tabulated on 256 cells of their own range;
       TLC judges every table clause by clause (non-negative, cdf non-decreasing / from 0 to 1 / the integral of the density cell by cell
       and cumulatively / the same one point at a time, total probability one, mode maximal, interval(f) holds f and has equal end
       densities, reported moments are those of the tabulated estimator under the property's proviso); read-outs of the affine images
       are compared with the unmapped ones (covariance clause; wide bands for UnimodalPdf, whose fit is not unique -- see pdftable.py).
"""
from harness.core import Check
from harness import kde as K
from harness import pdftable


def run(tier):
    ck = Check("C19", tier)
    ck.rule = "one case per (light-tailed integer-mean histogram, bandwidth, affine map); intervals: one per (histogram, bandwidth, fraction)"
    ck.assumptions = ["closed-form clauses on GaussianKDE (lattice histograms); table clauses on both estimators (quantile samples of 8 unimodal shapes)",
                      "UnimodalPdf covariance judged with wide bands (0.1 - 0.3 of the data's scale): its maximum-likelihood fit has several near-equal optima and which one Nelder-Mead finds changes when the data are moved",
                      "moments of the estimated density: independent adaptive quadrature (scipy quad) of the estimator's own __call__, over its range and over the whole line; judged only if < 2e-4 of the probability lies outside the range",
                      "histograms whose end levels hold one sample each, so that < 1e-3 of the mass lies outside the estimator's integration range (the property's proviso)",
                      "tolerances: mean 5e-3 std, variance 1e-2 relative, skewness 2e-2, excess kurtosis 5e-2; interval mass 1e-2, end densities 5e-2 of the peak (the interval search's own stopping tolerance)"]
    K.moments_part(ck, tier)
    pdftable.run_part(ck, tier)
    return ck.finish()
