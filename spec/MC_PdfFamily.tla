---- MODULE MC_PdfFamily ----
(* The family of samples on which the tabulated-density clauses of C19 are judged (PdfTable.tla): unimodal quantile samples
   (symmetric, skewed either way, moderately heavy-tailed), hundreds to thousands of points, under affine maps x -> a x + b with
   a = 10^alog10 and b = bsd standard deviations.  TLC enumerates the members; the harness builds each deterministically. *)
EXTENDS Integers, Sequences, TLC, Json
CONSTANT Tier
Neg(x) == 0 - x
UniShapes == IF Tier = "quick" THEN {"normal", "gamma4", "neggamma3", "t8", "lognormal"}
             ELSE {"normal", "gamma4", "neggamma3", "t8", "lognormal", "logistic", "skewnormal", "t5"}
KdeShapes == IF Tier = "quick" THEN {"normal", "gamma4", "t8"} ELSE {"normal", "gamma4", "neggamma3", "t8", "lognormal", "logistic"}
Sizes(kind, shape) == IF Tier = "quick" THEN (IF shape = "gamma4" /\ kind = "unimodal" THEN {400, 5000, 20000} ELSE {400})
                      ELSE (IF shape = "gamma4" /\ kind = "unimodal" THEN {300, 1000, 5000, 20000} ELSE {300, 1000, 5000})
\* <<alog10, bsd>>: scales from 1e-6 to 1e6, locations many thousands of standard deviations from zero
Maps == IF Tier = "quick" THEN {<<0, 0>>, <<Neg(6), 0>>, <<6, Neg(20000)>>, <<0, 5000>>}
        ELSE {<<0, 0>>, <<Neg(6), 0>>, <<6, 0>>, <<6, Neg(20000)>>, <<0, 5000>>, <<Neg(6), 3000>>, <<3, Neg(1000)>>, <<0, 1>>}
Members == {[kind |-> k, shape |-> s, n |-> n, alog10 |-> m[1], bsd |-> m[2]] :
              k \in {"unimodal", "kde", "kde_cv", "kde_cv_sub", "kde_2d"}, s \in UniShapes \cup KdeShapes, n \in {300, 400, 1000, 5000, 20000}, m \in Maps}
\* "kde_cv": GaussianKDE with the cross-validated bandwidth (one skewed and one heavy-tailed shape, the unmapped and one mapped sample)
\* "spike": a narrow tall peak on a broad base, for the kernel estimators with a data-driven (non-default) bandwidth and the default one
\* "kde_2d": the sample handed over as a 2-D array of stacked chains
Valid(d) == /\ (d.shape = "spike" => d.kind \in {"kde", "kde_cv"} /\ <<d.alog10, d.bsd>> \in {<<0, 0>>, <<Neg(6), 0>>})
            /\ (d.shape # "spike" => d.shape \in (IF d.kind = "unimodal" THEN UniShapes ELSE KdeShapes))
            /\ (d.kind = "kde_2d" => d.shape = "gamma4" /\ d.n = 400 /\ <<d.alog10, d.bsd>> = <<0, 0>>)
            /\ (d.kind = "kde_cv_sub" => d.shape = "gamma4" /\ d.n <= 1000 /\ <<d.alog10, d.bsd>> = <<0, 0>>)     \* max_cv_samples below the sample size
            /\ (d.kind = "kde_cv" => d.shape \in {"gamma4", "t8"} /\ d.n <= 1000 /\ <<d.alog10, d.bsd>> \in {<<0, 0>>, <<6, Neg(20000)>>, <<Neg(6), 0>>})
            /\ d.n \in Sizes(d.kind, d.shape)
            /\ (Tier = "quick" /\ d.n = 5000 => d.alog10 = 0)
            /\ (d.n = 20000 => <<d.alog10, d.bsd>> = <<0, 0>>)                      \* (the two-stage fit of large samples)
            /\ (Tier = "quick" /\ d.kind \in {"kde", "kde_cv", "kde_cv_sub", "kde_2d"} => d.bsd # 5000)
VARIABLES d, out
Init == d \in {m \in Members : Valid(m)} /\ out = 0
Next == out = 0 /\ out' = 1 /\ UNCHANGED d /\ PrintT(ToJson(d))
====
