"""Leapfrog.tla / HmcStep.tla: configuration family, TLC exploration and replay into HamiltonianChain."""
import json
import numpy as np

from harness.core import run_tlc, must_pass, tla_val, seed, MachineryError
from harness.mcmc_kit import Script, ScriptedGen, inject

D = 256


class Quad:
    """logp(x) = -(1/2 x'Ax + b'x); picklable; logs posterior and gradient evaluation points"""

    def __init__(self, A, b, plog=None, glog=None):
        self.A = np.array(A, dtype=float)
        self.b = np.array(b, dtype=float)
        self.plog, self.glog = plog, glog

    def __call__(self, x):
        x = np.asarray(x, dtype=float)
        if self.plog is not None:
            self.plog.append(x.copy())
        return float(-(0.5 * x @ self.A @ x + self.b @ x))

    def grad(self, x):
        x = np.asarray(x, dtype=float)
        if self.glog is not None:
            self.glog.append(x.copy())
        return -(self.A @ x + self.b)


def configs():
    I1, I2 = [[1]], [[1, 0], [0, 1]]
    c = [
        dict(n=1, A=[[1]], b=[0], T=1, en=1, ed=1, minv=I1, md=1, Lf=I1, ld=1, box=False, mass="none"),
        dict(n=1, A=[[2]], b=[0], T=1, en=1, ed=2, minv=I1, md=1, Lf=I1, ld=1, box=False, mass="none"),
        dict(n=1, A=[[1]], b=[1], T=2, en=1, ed=1, minv=[[4]], md=1, Lf=I1, ld=2, box=False, mass="scalar"),
        dict(n=1, A=[[1]], b=[0], T=1, en=1, ed=1, minv=I1, md=1, Lf=I1, ld=1, box=True, mass="none"),
        dict(n=1, A=[[1]], b=[0], T=1, en=1, ed=1, minv=I1, md=4, Lf=[[2]], ld=1, box=False, mass="scalar"),
        dict(n=2, A=[[2, 1], [1, 2]], b=[0, 1], T=1, en=1, ed=2, minv=[[1, 0], [0, 4]], md=1, Lf=[[2, 0], [0, 1]], ld=2,
             box=False, mass="vector"),
        dict(n=2, A=[[1, 0], [0, 2]], b=[0, 0], T=1, en=1, ed=2, minv=[[4, 2], [2, 5]], md=1, Lf=[[2, -1], [0, 2]], ld=4,
             box=False, mass="matrix"),
        dict(n=2, A=I2, b=[1, 0], T=2, en=1, ed=1, minv=I2, md=1, Lf=I2, ld=1, box=True, mass="none"),
        dict(n=2, A=[[1, 1], [1, 2]], b=[0, 0], T=1, en=1, ed=1, minv=[[4, 2], [2, 5]], md=1, Lf=[[2, -1], [0, 2]], ld=4,
             box=True, mass="matrix"),
        dict(n=1, A=[[2]], b=[0], T=2, en=1, ed=2, minv=[[2]], md=1, Lf=I1, ld=1, box=False, mass="skipmom"),
    ]
    for i, x in enumerate(c):
        x["id"] = i
        x["blo"], x["bhi"] = -2, 3
        pts = [-2, 0, 1, 3]
        x["starts"] = [[p] for p in pts] if x["n"] == 1 else [[-2, 1], [0, 0], [1, 3], [3, -1]]
    return c


def tla_cfg(c):
    return ('[id |-> %d, n |-> %d, A |-> %s, b |-> %s, T |-> %d, en |-> %d, ed |-> %d, minv |-> %s, md |-> %d, Lf |-> %s, '
            'ld |-> %d, box |-> %s, blo |-> %d, bhi |-> %d, mc |-> %s, starts |-> {%s}]'
            % (c["id"], c["n"], tla_val(c["A"]), tla_val(c["b"]), c["T"], c["en"], c["ed"], tla_val(c["minv"]), c["md"],
               tla_val(c["Lf"]), c["ld"], "TRUE" if c["box"] else "FALSE", c["blo"], c["bhi"], "FALSE" if c["mass"] == "skipmom" else "TRUE",
               ", ".join(tla_val(s) for s in c["starts"])))


MC_LF = """---- MODULE MC_Leapfrog ----
EXTENDS Leapfrog, Json
MCConfigs == {%(cfgs)s}
MCZ == %(zset)s
MCN == %(nset)s
Export == AtForwardEnd => PrintT(ToJson([cf |-> lc.id, t0 |-> t0, z |-> z0, r0 |-> r0, n |-> ns, pts |-> pts, t1 |-> orb[1].t, r1 |-> orb[1].r,
                                 h0 |-> HNum(lc, t0, r0), h1 |-> HNum(lc, orb[1].t, orb[1].r), hden |-> HDen(lc), ke0 |-> KENum(lc, r0)]))
====
"""
CFG_LF = """SPECIFICATION LFSpec
CONSTANTS D = %d
  LConfigs <- MCConfigs
  LZSet <- MCZ
  LNSet <- MCN
INVARIANT RevSM
INVARIANT VolSM
INVARIANT ShadowSM
INVARIANT InsideSM
INVARIANT MassSM
INVARIANT Export
CHECK_DEADLOCK FALSE
"""


def explore_leapfrog(cfgs, zset, nset, timeout=900):
    mod = MC_LF % {"cfgs": ",\n  ".join(tla_cfg(c) for c in cfgs), "zset": "{" + ", ".join(map(str, zset)) + "}",
                   "nset": "{" + ", ".join(map(str, nset)) + "}"}
    return run_tlc("MC_Leapfrog", cfg_text=CFG_LF % D, extra_files={"MC_Leapfrog.tla": mod}, timeout=timeout)


MC_HS = """---- MODULE MC_HmcStep ----
EXTENDS HmcStep, Json
MCConfigs == {%(cfgs)s}
MCZ == %(zset)s
MCN == %(nset)s
Export == AtHCommit => PrintT(ToJson([cf |-> hc.id, start |-> theta[1], draws |-> hdraws, gpts |-> gpts, theta |-> theta, pnum |-> pnum,
                                      nretry |-> nretry, nstay |-> nstay]))
====
"""
CFG_HS = """SPECIFICATION HSpec
CONSTANTS D = %(d)d MaxAttH = %(maxatt)d MaxStepsH = %(maxsteps)d
  HConfigs <- MCConfigs
  ZSet1 <- MCZ
  NSet <- MCN
INVARIANT HProbsBelong
INVARIANT HInside
INVARIANT Export
CHECK_DEADLOCK FALSE
"""


def explore_hmcstep(cfgs, zset, nset, maxatt, maxsteps, simulate=None, depth=12, seed_=None, timeout=900):
    mod = MC_HS % {"cfgs": ",\n  ".join(tla_cfg(c) for c in cfgs), "zset": "{" + ", ".join(map(str, zset)) + "}",
                   "nset": "{" + ", ".join(map(str, nset)) + "}"}
    cfg = CFG_HS % {"d": D, "maxatt": maxatt, "maxsteps": maxsteps}
    return run_tlc("MC_HmcStep", cfg_text=cfg, extra_files={"MC_HmcStep.tla": mod}, simulate=simulate,
                   depth=(depth if simulate else None), seed_=seed_, workers=(1 if simulate else 16), timeout=timeout)


def build_chain(c, start_scaled, plog=None, glog=None, with_grad=True):
    from inference.mcmc import HamiltonianChain
    q = Quad(c["A"], c["b"], plog, glog)
    kw = {}
    if c["box"]:
        kw["bounds"] = (np.full(c["n"], float(c["blo"])), np.full(c["n"], float(c["bhi"])))
    if c["mass"] == "scalar" or c["mass"] == "skipmom":
        kw["inverse_mass"] = c["minv"][0][0] / c["md"]
    elif c["mass"] == "vector":
        kw["inverse_mass"] = np.array([c["minv"][i][i] / c["md"] for i in range(c["n"])], dtype=float)
    elif c["mass"] == "matrix":
        kw["inverse_mass"] = np.array(c["minv"], dtype=float) / c["md"]
    ch = HamiltonianChain(posterior=q, start=np.array(start_scaled, dtype=float) / D, grad=q.grad if with_grad else None,
                          epsilon=c["en"] / c["ed"], temperature=float(c["T"]), display_progress=False, **kw)
    ch.ES.chk_int = 10 ** 9
    return ch, q


def vec(a):
    return [float(v) for v in np.atleast_1d(np.asarray(a, dtype=float))]


def scaled(v):
    return [x / D for x in v]
