"""C09 -- a saved sampler reloads to an equivalent sampler that can continue.

MC   : Lifecycle.tla -- field/phase model of Step / Save / Load / ContinueBoth; RoundTrip, ContinuationEqual, Save enabled in
       every phase; TLC enumerates every operation history up to MaxOps that contains a load.
S->C : every history is executed on every sampler class / option set: at each Load the clone is compared with the original
       field by field (generic walk over vars(), so fields added later are included), all public read-outs (and, sampled, the
       plotting entry points) are called on the clone, generator states are copied original -> clone by attribute path, and
       at each ContinueBoth both are advanced and must produce identical samples.
"""
import io
import contextlib
import os
import warnings
import numpy as np

from harness.core import Check, run_tlc, must_pass, seed, MachineryError, scratch
from harness.c03 import GaussPost
from harness.mcmc_kit import find_generators

SKIP = {"posterior", "grad", "rng"}


def configs():
    return [
        ("GibbsChain", {}), ("GibbsChain", {"limits": True, "T": 2.0}), ("MetropolisChain", {}),
        ("PcaChain", {}), ("PcaChain", {"bounds": True, "T": 2.0}),
        ("HamiltonianChain", {}), ("HamiltonianChain", {"bounds": True, "mass": "vector"}),
        ("HamiltonianChain", {"mass": "matrix", "T": 2.0}), ("HamiltonianChain", {"mass": "scalar", "nograd": True}),
        ("HamiltonianChain", {"compressed": True, "bounds": True, "T": 4.0}),
        ("EnsembleSampler", {}), ("EnsembleSampler", {"bounds": True}),
        # non-default tuning state: a stretch parameter other than 2; assessment intervals that have already grown
        ("EnsembleSampler", {"alpha": 3.5}), ("GibbsChain", {"grown": True}), ("HamiltonianChain", {"grown": True, "T": 2.0}),
        # a particle mass re-estimated from the samples after construction (per-parameter and full matrix)
        ("EnsembleSampler", {"bigcounts": True}),             # a walker that needed several hundred attempts (max_attempts raised)
        ("HamiltonianChain", {"remass": "diagonal"}), ("HamiltonianChain", {"remass": "full", "T": 2.0, "bounds": True}),
    ]


def build(cname, opt, sd):
    from inference.mcmc.gibbs import GibbsChain, MetropolisChain
    from inference.mcmc import PcaChain, HamiltonianChain, EnsembleSampler
    n = 3
    post = GaussPost(n)
    start = np.array([0.5, 0.25, 1.5])
    lo, hi = np.array([-3.0, -3.0, -3.0]), np.array([4.0, 4.0, 4.0])
    T = opt.get("T", 1.0)
    if cname == "EnsembleSampler":
        w = np.array([[0.5, 0.25, 1.5], [1.0, 0.5, 0.0], [-1.0, 2.0, 0.7], [0.2, 0.1, -0.6], [2.0, -1.0, 1.0]])
        ch = EnsembleSampler(posterior=post, starting_positions=w, display_progress=False, **({"alpha": opt["alpha"]} if opt.get("alpha") else {}),
                             **({"bounds": (lo, hi)} if opt.get("bounds") else {}))
    elif cname == "HamiltonianChain":
        kw = {}
        if opt.get("mass") == "vector":
            kw["inverse_mass"] = np.array([1.0, 2.0, 0.5])
        elif opt.get("mass") == "matrix":
            kw["inverse_mass"] = np.array([[2.0, 0.5, 0.0], [0.5, 1.0, 0.2], [0.0, 0.2, 1.5]])
        elif opt.get("mass") == "scalar":
            kw["inverse_mass"] = 2.0
        if opt.get("bounds"):
            kw["bounds"] = (lo, hi)
        ch = HamiltonianChain(posterior=post, grad=None if opt.get("nograd") else post.grad, start=start, epsilon=0.2,
                              temperature=T, display_progress=False, **kw)
        ch.steps = 4
    elif cname == "PcaChain":
        ch = PcaChain(posterior=post, start=start, widths=np.array([0.5, 0.4, 0.6]), temperature=T, display_progress=False,
                      **({"bounds": (lo, hi)} if opt.get("bounds") else {}))
    else:
        cls = GibbsChain if cname == "GibbsChain" else MetropolisChain
        ch = cls(posterior=post, start=start, widths=np.array([0.5, 0.4, 0.6]), temperature=T, display_progress=False)
        if opt.get("limits"):
            ch.set_boundaries(0, (-2.0, 3.0))
            ch.set_non_negative(1, True)
            ch.set_boundaries(2, (0.5, 2.5))
            ch.set_non_negative(2, True)
    if opt.get("bigcounts"):
        ch.max_attempts = 1000
        ch.rng = np.random.default_rng(sd + 78)
        ch.advance(3)
        ch.total_proposals[0][-1] = 700
        ch.total_proposals[2][0] = 256
    if opt.get("remass"):
        ch.rng = np.random.default_rng(sd + 77)
        ch.advance(25)
        ch.estimate_mass(diagonal=(opt["remass"] == "diagonal"))
    if opt.get("grown"):
        # a state every long run reaches: the acceptance-rate assessment interval has grown from its initial value
        for p_ in getattr(ch, "params", []) or []:
            p_.chk_int = 170
        if hasattr(ch, "ES"):
            ch.ES.chk_int = 20
    gens = find_generators(ch)
    for i, (path, owner, name) in enumerate(gens):
        setattr(owner, name, np.random.default_rng(sd * 100 + i))
    return ch, post


def kernel_after_reload_part(ck, tier):
    """C01: the reloaded sampler runs the SAME kernel -- with the generator states copied over, its continuation is sample for sample that of
    the sampler that was never saved (non-default stretch parameter, temperature, bounds, mass)"""
    import copy as _copy
    import tempfile
    from harness.mcmc_kit import find_generators as _fg
    for cname, opt in (("EnsembleSampler", {}), ("EnsembleSampler", {"alpha": 3.5}), ("GibbsChain", {"limits": True, "T": 2.0}),
                       ("PcaChain", {"bounds": True, "T": 2.0}), ("HamiltonianChain", {"mass": "matrix", "T": 2.0})):
        ck.case(("reload-kernel", cname, tuple(sorted(opt.items()))))
        try:
            with contextlib.redirect_stdout(io.StringIO()), warnings.catch_warnings(), np.errstate(all="ignore"):
                warnings.simplefilter("ignore")
                live, post = build(cname, opt, 31 + seed())
                live.advance(3 if cname == "EnsembleSampler" else 12)
                with tempfile.TemporaryDirectory() as d:
                    live.save(d + "/s.npz")
                    kw = {"grad": post.grad} if cname == "HamiltonianChain" else {}
                    clone = type(live).load(d + "/s.npz", posterior=post, **kw)
                if cname == "HamiltonianChain":
                    clone.steps = live.steps
                for (path, owner, name), (path2, owner2, name2) in zip(_fg(live), _fg(clone)):
                    setattr(owner2, name2, _copy.deepcopy(getattr(owner, name)))
                live.advance(3 if cname == "EnsembleSampler" else 12)
                clone.advance(3 if cname == "EnsembleSampler" else 12)
                a = np.asarray(live.get_sample() if cname == "EnsembleSampler" else live.get_sample(burn=0), dtype=float)
                b = np.asarray(clone.get_sample() if cname == "EnsembleSampler" else clone.get_sample(burn=0), dtype=float)
        except Exception as ex:
            ck.violation("save / load / advance raised", {"class": cname, "options": opt, "error": repr(ex)[:300]}, site=f"{cname}.load")
            continue
        if a.shape != b.shape or not np.array_equal(a, b):
            k = int(np.argmax(np.any(a != b, axis=1))) if a.shape == b.shape else -1
            ck.violation("the reloaded sampler applies the same kernel: with the same generator state its continuation equals that of the never-saved sampler",
                         {"class": cname, "options": opt, "first_differing_row": k}, site=f"{cname}.load:kernel")


def snapshot(obj, path="", out=None, depth=0):
    if out is None:
        out = {}
    if depth > 4:
        return out
    for name, v in sorted(vars(obj).items()):
        p = f"{path}.{name}"
        if name in SKIP:
            continue
        if isinstance(v, np.random.Generator):
            continue
        if callable(v) and not hasattr(v, "__dict__"):
            out[p] = ("callable", getattr(v, "__name__", type(v).__name__))
        elif callable(v) and hasattr(v, "__name__"):
            out[p] = ("callable", v.__name__)
        elif isinstance(v, (int, float, bool, str, np.integer, np.floating, np.bool_)) or v is None:
            out[p] = ("value", v)
        elif isinstance(v, np.ndarray):
            out[p] = ("array", v.copy())
        elif isinstance(v, (list, tuple)):
            if v and all(hasattr(e, "__dict__") and type(e).__module__.startswith("inference") for e in v):
                out[p] = ("objects", len(v))
                for i, e in enumerate(v):
                    snapshot(e, f"{p}[{i}]", out, depth + 1)
            else:
                try:
                    out[p] = ("array", np.asarray(v, dtype=float).copy())
                except Exception:
                    out[p] = ("list", repr(v)[:200])
        elif hasattr(v, "__dict__") and type(v).__module__.startswith("inference"):
            out[p] = ("object", type(v).__name__)
            snapshot(v, p, out, depth + 1)
        else:
            out[p] = ("other", type(v).__name__)
    return out


def compare(live, clone):
    a, b = snapshot(live), snapshot(clone)
    missing = sorted(k for k in a if k not in b)
    diff = []
    for k in a:
        if k in b:
            ka, va = a[k]
            kb, vb = b[k]
            if ka == "array" or kb == "array":
                try:
                    same = np.array_equal(np.asarray(va, dtype=float), np.asarray(vb, dtype=float))
                except Exception:
                    same = False
            elif ka == "value":
                same = (va == vb) or (va is None and vb is None)
            else:
                same = va == vb
            if not same:
                diff.append(k)
    return missing, sorted(diff)


def readouts(ch):
    out = {}
    n = int(ch.chain_length)
    if n == 0:
        return out
    out["sample"] = np.asarray(ch.get_sample(burn=0))
    out["probs"] = np.asarray(ch.get_probabilities(burn=0))
    out["param1"] = np.asarray(ch.get_parameter(1, burn=0, thin=2))
    out["mode"] = np.asarray(ch.mode())
    out["chain_length"] = n
    if n >= 3:
        s, p = ch.get_interval(interval=0.75, burn=0)
        out["interval_p"] = np.sort(np.asarray(p))
    b = getattr(ch, "bounds", None)
    if b is not None:
        out["bounds"] = np.concatenate([np.asarray(b.lower), np.asarray(b.upper)])
    return out


def plots(ch):
    import matplotlib
    matplotlib.use("Agg")
    import matplotlib.pyplot as plt
    res = {}
    for name, call in (("plot_diagnostics", lambda: ch.plot_diagnostics(show=False) if "show" in ch.plot_diagnostics.__code__.co_varnames else None),
                       ("trace_plot", lambda: ch.trace_plot(show=False)), ("matrix_plot", lambda: ch.matrix_plot(show=False))):
        try:
            with warnings.catch_warnings(), np.errstate(all="ignore"), contextlib.redirect_stdout(io.StringIO()):
                warnings.simplefilter("ignore")
                call()
            res[name] = "ok"
        except Exception as ex:
            res[name] = "raised " + type(ex).__name__
        plt.close("all")
    return res


def run(tier):
    ck = Check("C09", tier)
    ck.rule = "one case per (sampler class / option set, TLC operation history); all distinct"
    ck.assumptions = ["generator states are copied original -> clone by attribute path before continuing (the property's premise)",
                      "thresholds of the first adaptation / direction update are crossed by the 101-step operations (observed, not prescribed)"]
    maxops = 3 if tier == "quick" else 4
    r = run_tlc("MC_Lifecycle", cfg_text=("SPECIFICATION Spec\nCONSTANTS StepSizes = {1, 50, 101} MaxOps = %d\nINVARIANT RoundTrip\n"
                                          "INVARIANT Export\nPROPERTY ContinuationEqual\nCHECK_DEADLOCK FALSE\n" % maxops))
    if r.violated:
        ck.violation("spec: Lifecycle " + ",".join(r.violated), {"violated": r.violated}, site="spec")
    must_pass(r, "MC_Lifecycle")
    ck.tlc(r, "lifecycle_model")
    hists = [p["hist"] for p in r.printed]
    d = scratch("c09_")
    plotted = set()
    for ci, (cname, opt) in enumerate(configs()):
        for hi, hist in enumerate(hists):
            live, post = build(cname, opt, 7 + seed())
            cls = type(live)
            clone = None
            fname = os.path.join(d, f"s_{ci}_{hi}.npz")
            ident = {"class": cname, "options": opt, "history": [f"{o[0]}({o[1]})" if o[0] in ("step", "continue") else o[0] for o in hist]}
            ck.case(("life", cname, tuple(sorted(opt.items())), tuple(map(tuple, hist))))
            ck.traces += 1
            ok = True
            saved = False
            for op, k in hist:
                if not ok:
                    break
                try:
                    with contextlib.redirect_stdout(io.StringIO()), warnings.catch_warnings(), np.errstate(all="ignore"):
                        warnings.simplefilter("ignore")
                        if op == "step":
                            if cname == "EnsembleSampler":
                                live.advance(max(k // 10, 1))
                            else:
                                for _ in range(k):
                                    live.take_step()
                        elif op == "save":
                            try:
                                if opt.get("compressed"):
                                    live.save(fname, compressed=True)
                                else:
                                    live.save(fname)
                                saved = True
                            except Exception as ex:
                                ck.violation("SaveEnabledAlways: save() works at every point of a sampler's life",
                                             {**ident, "chain_length": int(live.chain_length), "error": repr(ex)}, site=f"{cname}.save")
                                ok = False
                        elif op == "load":
                            if not saved:
                                ok = False
                                break
                            try:
                                clone = cls.load(fname, posterior=post, grad=post.grad) if (cname == "HamiltonianChain" and not opt.get("nograd")) \
                                    else cls.load(fname, posterior=post)
                            except Exception as ex:
                                ck.violation("load() of a saved sampler works", {**ident, "error": repr(ex)}, site=f"{cname}.load")
                                ok = False
                                break
                            # the file holds the state at the moment of the LAST save: compare with a reference taken then
                            ref = getattr(live, "_verif_ref", None)
                        elif op == "continue":
                            pass
                except Exception as ex:
                    ck.violation("operation raised", {**ident, "op": op, "error": repr(ex)}, site=f"{cname}.{op}")
                    ok = False
                    break
                if op == "save" and ok:
                    # reference copy of the original at the moment of saving (deep copy keeps generator states too)
                    import copy
                    live._verif_ref = None
                    ref = copy.deepcopy(live)
                    live._verif_ref = ref
                if op == "load" and ok:
                    import copy
                    ref = copy.deepcopy(live._verif_ref)       # the continuation below advances it: keep the stored reference pristine
                    missing, diff = compare(ref, clone)
                    missing = [m for m in missing if "_verif_ref" not in m]
                    diff = [m for m in diff if "_verif_ref" not in m]
                    if missing or diff:
                        ck.violation("RoundTrip: the reloaded sampler holds every field of the original with equal value",
                                     {**ident, "fields_missing_in_clone": missing[:12], "fields_differing": diff[:12]}, site=f"{cname}.load:fields")
                        ok = False
                        break
                    try:
                        with warnings.catch_warnings(), np.errstate(all="ignore"):
                            warnings.simplefilter("ignore")
                            ra, rb = readouts(ref), readouts(clone)
                    except Exception as ex:
                        ck.violation("read-outs work on the reloaded sampler", {**ident, "error": repr(ex)}, site=f"{cname}.load:readouts")
                        ok = False
                        break
                    bad = [kk for kk in ra if kk not in rb or not np.array_equal(np.asarray(ra[kk]), np.asarray(rb[kk]))]
                    if bad:
                        ck.violation("RoundTrip: the reloaded sampler reports the same samples, log-probabilities, lengths and bounds",
                                     {**ident, "readouts_differing": bad}, site=f"{cname}.load:readouts")
                        ok = False
                        break
                    if (cname, ref.chain_length >= 100) not in plotted and ref.chain_length >= 20 and cname != "EnsembleSampler":
                        plotted.add((cname, ref.chain_length >= 100))
                        pa, pb = plots(ref), plots(clone)
                        badp = [kk for kk in pa if pa[kk] == "ok" and pb[kk] != "ok"]
                        if badp:
                            ck.violation("the reloaded sampler supports the same plotting calls", {**ident, "plots": {kk: pb[kk] for kk in badp}},
                                         site=f"{cname}.load:plots")
                    # continuation: same generator state => identical continuation (checked right after every load)
                    ga, gb = find_generators(ref), find_generators(clone)
                    pa_, pb_ = {p: (o, nm) for p, o, nm in ga}, {p: (o, nm) for p, o, nm in gb}
                    if set(pa_) != set(pb_):
                        ck.violation("the reloaded sampler has the same random generators as the original",
                                     {**ident, "original": sorted(pa_), "clone": sorted(pb_)}, site=f"{cname}.load:fields")
                        ok = False
                        break
                    for p_ in pa_:
                        o, nm = pb_[p_]
                        getattr(o, nm).bit_generator.state = getattr(pa_[p_][0], pa_[p_][1]).bit_generator.state
                    nxt = [kk for (oo, kk) in hist[hist.index([op, k]) + 1:] if oo == "continue"]
                    kcont = nxt[0] if nxt else 7
                    try:
                        with contextlib.redirect_stdout(io.StringIO()), warnings.catch_warnings(), np.errstate(all="ignore"):
                            warnings.simplefilter("ignore")
                            m = max(kcont // 10, 1) if cname == "EnsembleSampler" else kcont
                            ref.advance(m)
                            clone.advance(m)
                    except Exception as ex:
                        ck.violation("the reloaded sampler can be advanced further when given the posterior",
                                     {**ident, "advance": m, "error": repr(ex)[:300]}, site=f"{cname}.load:continue")
                        ok = False
                        break
                    same = (np.array_equal(ref.get_sample(burn=0), clone.get_sample(burn=0))
                            and np.array_equal(ref.get_probabilities(burn=0), clone.get_probabilities(burn=0)))
                    if not same:
                        m2, d2 = compare(ref, clone)
                        ck.violation("ContinuationEqual: with the same generator state the continuation is identical sample for sample",
                                     {**ident, "advance": m, "fields_differing_after": d2[:10]}, site=f"{cname}.load:continue")
                        ok = False
                        break
                    # ... and the whole state (tuning records, counters, limits) still agrees after the continuation
                    m3, d3 = compare(ref, clone)
                    m3, d3 = [x for x in m3 if "_verif" not in str(x)], [x for x in d3 if "_verif" not in str(x)]
                    if m3 or d3:
                        ck.violation("RoundTrip after the continuation: the continued reloaded sampler still holds every field of the continued original",
                                     {**ident, "advance": m, "fields_missing_in_the_reloaded": m3[:10], "fields_differing": d3[:10]}, site=f"{cname}.load:continue")
                        ok = False
                        break
            if os.path.exists(fname):
                os.remove(fname)
        ck.sample({"part": "lifecycle", "class": cname, "options": opt, "history": hists[len(hists) // 2]})
    ck.count("lifecycle_model", "histories", len(hists))
    ck.count("lifecycle_model", "class_option_sets", len(configs()))
    return ck.finish()
