"""pytest plug-in: records what the samplers do while the REPOSITORY'S OWN tests run (code -> spec on the maintainers' inputs).

Loaded with  `pytest -p harness.recorder`  (PYTHONPATH must contain /verif); writes one JSON record per observed call to the file named
by VERIF_REC_OUT.  Nothing in /repo is touched: the sampler classes are wrapped in this process only.  The records are judged by
TestRunTrace.tla (see harness/repotests.py).

Records (all integers, cheap scalar state):
  Advance  : class, requested m, walkers, stored samples / probabilities / reported length before and after
  Probs    : for a few indices k of the stored chain: distance, in units of 1e-12 of the magnitude, between the stored log-probability
             and  posterior(stored sample k) * inv_temp  re-evaluated now
  Bounds   : worst excess of any stored sample over the limits in force, in ulps at the scale of the limits
  Readout  : burn, thin, chain length, and the row indices of the full chain that the returned rows are (found by exact match)
"""
import json
import math
import os

import numpy as np

_OUT = os.environ.get("VERIF_REC_OUT")
_state = {"test": None, "depth": 0, "fh": None, "seq": 0}


def _emit(rec):
    if _state["fh"] is None:
        return
    _state["seq"] += 1
    rec["seq"] = _state["seq"]
    rec["test"] = _state["test"]
    _state["fh"].write(json.dumps(rec) + "\n")
    _state["fh"].flush()


def _stored(ch):
    """(samples as (N, n) array, probs as (N,) array, walkers) of any sampler"""
    name = type(ch).__name__
    if name == "EnsembleSampler":
        if ch.sample is None:
            return np.zeros((0, ch.n_parameters)), np.zeros(0), ch.n_walkers
        return np.asarray(ch.sample, dtype=float), np.asarray(ch.sample_probs, dtype=float), ch.n_walkers
    if name == "HamiltonianChain":
        return np.array(ch.theta, dtype=float).reshape(len(ch.theta), -1), np.asarray(ch.probs, dtype=float), 1
    return np.array([p.samples for p in ch.params], dtype=float).T, np.asarray(ch.probs, dtype=float), 1


def _limits(ch):
    name = type(ch).__name__
    if name in ("GibbsChain", "MetropolisChain"):
        lo, hi = [], []
        for p in ch.params:
            a, b = -math.inf, math.inf
            if p.bounded:
                a, b = float(p.lower), float(p.upper)
            if p.non_negative:
                a = max(a, 0.0)
            lo.append(a)
            hi.append(b)
        return (np.array(lo), np.array(hi)) if any(np.isfinite(lo)) or any(np.isfinite(hi)) else None
    b = getattr(ch, "bounds", None)
    if b is None:
        return None
    return np.asarray(b.lower, dtype=float).reshape(-1), np.asarray(b.upper, dtype=float).reshape(-1)


def _ulps(v, lo, hi):
    fin = [abs(x) for x in (lo, hi) if math.isfinite(x)]
    scale = max(fin + [np.finfo(float).tiny])
    ex = max(lo - v, v - hi, 0.0)
    if not math.isfinite(ex):
        return 10 ** 6
    return int(min(math.ceil(ex / np.spacing(scale)), 10 ** 6))


def _observe(ch, what):
    name = type(ch).__name__
    try:
        S, P, w = _stored(ch)
    except Exception:
        return None
    out = {"cls": name, "samples": int(S.shape[0]), "probs": int(P.shape[0]), "length": int(ch.chain_length), "walkers": int(w)}
    if what == "full":
        # ProbsBelong at the first, the last and two interior indices
        post = getattr(ch, "posterior", None)
        if post is not None and S.shape[0] and S.shape[0] == P.shape[0]:
            ks = sorted({0, S.shape[0] - 1, S.shape[0] // 2, S.shape[0] // 3})
            d = []
            try:
                for k in ks:
                    want = float(post(S[k].copy())) * float(ch.inv_temp) if name != "EnsembleSampler" else float(post(S[k].copy()))
                    got = float(P[k])
                    if math.isfinite(want) and math.isfinite(got):
                        d.append([int(k), int(min(abs(got - want) / (1e-12 * max(1.0, abs(want))), 10 ** 6))])
                    else:
                        d.append([int(k), 0 if (want == got or (math.isnan(want) and math.isnan(got))) else 10 ** 6])
                out["pd"] = d
            except Exception:
                pass
        lim = None
        try:
            lim = _limits(ch)
        except Exception:
            pass
        if lim is not None and S.shape[0] and S.shape[1] == lim[0].size:
            # the starting point of a Gibbs chain precedes set_boundaries / set_non_negative: judged from the first sample drawn
            first = 1 if name in ("GibbsChain", "MetropolisChain") else 0
            worst = 0
            for j in range(S.shape[1]):
                col = S[first:, j]
                if col.size:
                    worst = max(worst, _ulps(float(col.min()), float(lim[0][j]), float(lim[1][j])), _ulps(float(col.max()), float(lim[0][j]), float(lim[1][j])))
            out["ex"] = worst
    return out


def _wrap_advance(cls):
    orig = cls.advance

    def advance(self, *a, **kw):
        if _state["depth"]:
            return orig(self, *a, **kw)
        _state["depth"] += 1
        try:
            before = _observe(self, "lens")
            m = a[0] if a else kw.get("m", kw.get("iterations"))
            res = orig(self, *a, **kw)
        finally:
            _state["depth"] -= 1
        after = _observe(self, "full")
        if before is not None and after is not None and isinstance(m, (int, np.integer)):
            _emit({"ev": "Advance", "m": int(m), "before": before, "after": after})
        return res
    cls.advance = advance


def _match(rows, full):
    """indices of `full` whose rows equal the returned rows, searched in increasing order; -1 when there is none"""
    ids, start = [], 0
    for r in rows:
        hit = -1
        for k in range(start, full.shape[0]):
            if np.array_equal(full[k], r):
                hit = k
                break
        ids.append(hit)
        if hit >= 0:
            start = hit + 1
    return ids


def _wrap_readout(cls, meth):
    orig = getattr(cls, meth)

    def readout(self, *a, **kw):
        if _state["depth"]:
            return orig(self, *a, **kw)
        _state["depth"] += 1
        try:
            res = orig(self, *a, **kw)
        finally:
            _state["depth"] -= 1
        try:
            S, P, w = _stored(self)
            names = ("index", "burn", "thin") if meth == "get_parameter" else ("burn", "thin")
            args = dict(zip(names, a))
            args.update({k: v for k, v in kw.items() if k in names})
            burn, thin = int(args.get("burn", 1)), int(args.get("thin", 1))
            if S.shape[0] <= 400 and burn >= 0 and thin >= 1:
                out = np.asarray(res, dtype=float)
                if meth == "get_parameter":
                    full, rows = S[:, int(args["index"])].reshape(-1, 1), out.reshape(-1, 1)
                elif meth == "get_sample":
                    full, rows = S, out.reshape(-1, S.shape[1]) if out.size else out.reshape(0, S.shape[1])
                else:
                    full, rows = P.reshape(-1, 1), out.reshape(-1, 1)
                # ties make exact matching ambiguous only in the direction of EARLIER indices: search from the expected index
                want = list(range(burn, full.shape[0], thin))
                ids = [k if (j < len(want) and (k := want[j]) < full.shape[0] and np.array_equal(full[k], r)) else -1 for j, r in enumerate(rows)]
                if any(i < 0 for i in ids):
                    ids = _match(rows, full)
                _emit({"ev": "Readout", "cls": type(self).__name__, "call": meth, "n": int(full.shape[0]), "burn": burn, "thin": thin,
                       "ids": [int(i) for i in ids], "ndim": int(np.asarray(res).ndim)})
        except Exception:
            pass
        return res
    setattr(cls, meth, readout)


def pytest_configure(config):
    if not _OUT:
        return
    _state["fh"] = open(_OUT, "w")
    from inference.mcmc import GibbsChain, PcaChain, HamiltonianChain, EnsembleSampler
    from inference.mcmc.gibbs import MetropolisChain
    from inference.mcmc.base import MarkovChain
    _wrap_advance(MarkovChain)
    for cls in (GibbsChain, MetropolisChain, PcaChain, HamiltonianChain):
        if "advance" in cls.__dict__:
            _wrap_advance(cls)
    _wrap_advance(EnsembleSampler)
    seen = set()
    for cls in (MetropolisChain, GibbsChain, PcaChain, HamiltonianChain, EnsembleSampler):
        for meth in ("get_parameter", "get_sample", "get_probabilities"):
            for k in cls.__mro__:
                if meth in k.__dict__ and (k, meth) not in seen and k.__module__.startswith("inference"):
                    seen.add((k, meth))
                    if not getattr(k.__dict__[meth], "__isabstractmethod__", False):
                        _wrap_readout(k, meth)
                    break


def pytest_runtest_setup(item):
    _state["test"] = item.nodeid


def pytest_unconfigure(config):
    if _state["fh"] is not None:
        _state["fh"].close()
        _state["fh"] = None
