---------------------------- MODULE ProgressTrace ----------------------------
(***************************************************************************)
(* Beyond the listed properties: the progress display of the samplers      *)
(* (ChainProgressPrinter, driven by MarkovChain.advance / run_for and      *)
(* EnsembleSampler.advance).  The properties leave the display free; this   *)
(* module states what a user reading the terminal is told, as built:        *)
(*                                                                         *)
(*  advance(m)   : 100 percentage messages 1 % .. 100 %, the j-th written   *)
(*                 when j * (m div 100) steps are done, each with           *)
(*                 ETA = floor(elapsed * (100 / j - 1)) seconds; one final   *)
(*                 message naming m steps and the elapsed whole seconds as   *)
(*                 h:mm:ss; the chain grew by exactly m.                     *)
(*  run_for(T)   : after every batch a message with the steps taken so far  *)
(*                 (strictly increasing, equal to the growth of the chain)  *)
(*                 and the time remaining trunc(deadline - now) written as   *)
(*                 h:mm:ss with h * 3600 + mm * 60 + ss equal to it and      *)
(*                 0 <= mm, ss < 60 (as built this representation is kept    *)
(*                 past the deadline: one second over reads -1:59:59); a     *)
(*                 final message with the steps taken and the BUDGET.        *)
(*  ensemble     : "0 / n", then "k / n" with its ETA after iteration k for  *)
(*                 k = 1 .. n, then "n / n".                                 *)
(*  display off  : nothing at all is written.                               *)
(*  tempering    : ParallelTempering.advance(n, swap_interval) runs          *)
(*                 c = n div swap_interval exchange cycles in k groups       *)
(*                 (k = 50, or c when c > 50) and writes one percentage       *)
(*                 message per group: the j-th names floor(100 j / k) % when  *)
(*                 j * (c div k) cycles (1 per group when c > 50) are done,   *)
(*                 with ETA = floor(elapsed * (k / j - 1)); the closing        *)
(*                 message comes after ALL c cycles and n steps.              *)
(*                 ParallelTempering.run_for(T, swap_interval) times one      *)
(*                 first cycle (which is run whatever the budget), takes       *)
(*                 N = max(1, int(2 s / that time)) cycles per batch, starts a  *)
(*                 batch only while the deadline t0 + T is ahead, and after     *)
(*                 each batch writes the time remaining floor(deadline - now)   *)
(*                 as h:mm:ss (as built also past the deadline: 1.011 s over    *)
(*                 reads -1:59:58); the closing message comes only once the     *)
(*                 deadline has passed, after 1 + (batches x N) cycles, every    *)
(*                 chain having grown by cycles x swap_interval.                *)
(*                                                                         *)
(* Events come from real calls whose standard output is captured write by   *)
(* write, under a simulated clock (integer milliseconds in the log).        *)
(***************************************************************************)
EXTENDS Integers, Sequences, TLC, TLCExt, Json, IOUtils
Log == ndJsonDeserialize(IOEnv.TRACE_FILE)
VARIABLES l, st
\* st: [call, m, disp, t0, k, steps, dl]   call = "" between runs;  k = messages seen so far in this run;  steps = steps reported last
vars == <<l, st>>
Ev == Log[l]
Idle == [call |-> "", m |-> 0, disp |-> FALSE, t0 |-> 0, k |-> 0, steps |-> 0, dl |-> 0, fin |-> FALSE, si |-> 1, cms |-> 1]
\* run_for of the tempering object: cycles per batch from the (simulated) duration of one cycle, cms milliseconds
PtBatch == IF 2000 \div st.cms >= 1 THEN 2000 \div st.cms ELSE 1
Floor1000(d) == IF d >= 0 THEN d \div 1000 ELSE -((-d + 999) \div 1000)
PtCycles == st.m \div st.si
PtGroups == IF PtCycles > 50 THEN PtCycles ELSE 50
PtPerGroup == IF PtCycles > 50 THEN 1 ELSE PtCycles \div 50
TraceInit == TLCSet(1, 1) /\ l = 1 /\ st = Idle
\* whole seconds of d milliseconds (the simulated clock is exact to well below a millisecond: one millisecond of slack either way)
SecOK(sec, d) == sec * 1000 <= d + 1 /\ d - 1 < (sec + 1) * 1000
\* eta = int(dt * (total / done - 1)) with dt = d ms:  eta <= d (total - done) / (1000 done) < eta + 1.  The quotient is formed in two
\* parts so that no product leaves TLC's 32-bit range (d up to 2e8 ms); the harness caps every number read from a message at 2^18.
EtaOK(eta, d, done, total) == LET x == (d \div done) * (total - done) + ((d % done) * (total - done)) \div done      \* milliseconds
                                  tol == 3 + (total - done) \div done         \* the logged time is rounded to a millisecond, amplified by (total - done) / done
                              IN eta * 1000 <= x + tol /\ x - tol < (eta + 1) * 1000
\* h:mm:ss is a representation of sec seconds
HmsOK(h, mi, s, sec) == mi \in 0..59 /\ s \in 0..59 /\ h * 3600 + mi * 60 + s = sec
Trunc1000(d) == IF d >= 0 THEN d \div 1000 ELSE -((-d) \div 1000)
TruncOK(sec, d) == sec = Trunc1000(d) \/ sec = Trunc1000(d - 1) \/ sec = Trunc1000(d + 1)

Valid ==
  CASE Ev.ev = "Begin" -> st.call = ""
    [] Ev.ev = "Pct" -> /\ st.call = "advance" /\ st.disp /\ ~st.fin
                        /\ Ev.pct = st.k + 1 /\ Ev.pct <= 100
                        /\ Ev.steps = Ev.pct * (st.m \div 100)
                        /\ EtaOK(Ev.eta, Ev.t - st.t0, Ev.pct, 100)
    [] Ev.ev = "Final" -> /\ st.call \in {"advance", "run_for"} /\ st.disp /\ ~st.fin
                          /\ IF st.call = "advance"
                             THEN /\ st.k = 100 /\ Ev.steps = st.m /\ Ev.done = st.m
                                  /\ \E sec \in {(Ev.t - st.t0 - 1) \div 1000, (Ev.t - st.t0 + 1) \div 1000} :
                                         SecOK(sec, Ev.t - st.t0) /\ HmsOK(Ev.h, Ev.mi, Ev.s, sec)
                             ELSE /\ Ev.steps = st.steps /\ Ev.done = st.steps
                                  /\ HmsOK(Ev.h, Ev.mi, Ev.s, st.m \div 1000)             \* as built: the budget, not the time used
                                  /\ Ev.t >= st.dl                                        \* (C15: only after the budget is used up)
    [] Ev.ev = "Count" -> /\ st.call = "run_for" /\ st.disp /\ ~st.fin
                          /\ Ev.steps > st.steps /\ Ev.steps = Ev.done
                          /\ \E sec \in {Trunc1000(st.dl - Ev.t), Trunc1000(st.dl - Ev.t - 1), Trunc1000(st.dl - Ev.t + 1)} :
                                 HmsOK(Ev.h, Ev.mi, Ev.s, sec)
    [] Ev.ev = "Iter" -> /\ st.call = "ensemble" /\ st.disp /\ ~st.fin
                         /\ Ev.total = st.m
                         /\ IF Ev.plain
                            THEN \/ st.k = 0 /\ Ev.k = 0                                  \* the opening "0 / n"
                                 \/ st.k = st.m + 1 /\ Ev.k = st.m                        \* the closing "n / n"
                            ELSE /\ st.k \in 1..st.m /\ Ev.k = st.k /\ Ev.done = Ev.k
                                 /\ EtaOK(Ev.eta, Ev.t - st.t0, Ev.k, st.m)
    [] Ev.ev = "PtPct" -> /\ st.call = "pt_advance" /\ ~st.fin
                          /\ st.k < PtGroups
                          /\ Ev.pct = (100 * (st.k + 1)) \div PtGroups
                          /\ Ev.cyc = (st.k + 1) * PtPerGroup
                          /\ EtaOK(Ev.eta, Ev.t - st.t0, st.k + 1, PtGroups)
    [] Ev.ev = "PtDone" -> /\ st.call \in {"pt_advance", "pt_run_for"} /\ ~st.fin
                           /\ IF st.call = "pt_advance"
                              THEN st.k = PtGroups /\ Ev.cyc = PtCycles /\ Ev.steps = st.m
                              ELSE /\ Ev.cyc = 1 + st.k * PtBatch /\ Ev.steps = Ev.cyc * st.si
                                   /\ Ev.t >= st.dl - 1                                  \* only once the budget is used up
    [] Ev.ev = "PtCount" -> /\ st.call = "pt_run_for" /\ ~st.fin
                            /\ Ev.cyc = 1 + (st.k + 1) * PtBatch
                            /\ Ev.t - PtBatch * st.cms < st.dl + 1                        \* the batch was started before the deadline
                            /\ \E sec \in {Floor1000(st.dl - Ev.t), Floor1000(st.dl - Ev.t - 1), Floor1000(st.dl - Ev.t + 1)} :
                                   HmsOK(Ev.h, Ev.mi, Ev.s, sec)
    [] Ev.ev = "End" -> /\ st.call # ""
                        /\ Ev.added = (IF st.call \in {"run_for", "pt_run_for"} THEN st.steps ELSE st.m) \/ (st.call = "run_for" /\ ~st.disp)
                        /\ (st.disp => st.fin)
                        /\ (~st.disp => st.k = 0)
    [] OTHER -> FALSE      \* "Other": text that is none of the messages; any message while the display is off
NewSt ==
  CASE Ev.ev = "Begin" -> [call |-> Ev.call, m |-> Ev.m, disp |-> Ev.display, t0 |-> Ev.t, k |-> 0, steps |-> 0, dl |-> Ev.t + Ev.m, fin |-> FALSE,
                           si |-> IF "si" \in DOMAIN Ev THEN Ev.si ELSE 1, cms |-> IF "cms" \in DOMAIN Ev THEN Ev.cms ELSE 1]
    [] Ev.ev = "Pct" -> [st EXCEPT !.k = @ + 1]
    [] Ev.ev = "PtPct" -> [st EXCEPT !.k = @ + 1]
    [] Ev.ev = "PtDone" -> [st EXCEPT !.fin = TRUE, !.steps = Ev.steps]
    [] Ev.ev = "PtCount" -> [st EXCEPT !.k = @ + 1]
    [] Ev.ev = "Count" -> [st EXCEPT !.k = @ + 1, !.steps = Ev.steps]
    [] Ev.ev = "Iter" -> [st EXCEPT !.k = @ + 1, !.fin = (Ev.plain /\ st.k > 0)]
    [] Ev.ev = "Final" -> [st EXCEPT !.fin = TRUE]
    [] Ev.ev = "End" -> Idle
    [] OTHER -> st
TraceNext == l <= Len(Log) /\ l' = l + 1 /\ (IF Valid THEN TRUE ELSE PrintT(<<"BAD", l>>)) /\ st' = NewSt
TraceSpec == TraceInit /\ [][TraceNext]_vars
Progress == TLCSet(1, IF l > TLCGet(1) THEN l ELSE TLCGet(1))
TraceAccepted == IF TLCGet(1) = Len(Log) + 1 THEN TRUE ELSE PrintT(<<"REJECTED at line", TLCGet(1)>>) /\ FALSE
=============================================================================
