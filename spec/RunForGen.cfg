INIT Init
NEXT Next
CONSTANTS Classes = {1, 2, 3, 4, 5} MaxLen = 3 Budgets = {1, 2}
CHECK_DEADLOCK FALSE
