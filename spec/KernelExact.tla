----------------------------- MODULE KernelExact -----------------------------
(***************************************************************************)
(* C10 (and the kernel side of C02 / C11 / C16 / C17 / C18) -- covariance   *)
(* and mean functions as exact rational / symbolic operators on families    *)
(* where every kernel value is rational:                                    *)
(*                                                                         *)
(*  se  : a^2 exp(-1/2 SUM (D_i/L_i)^2) with a^2 = 2^ja and 1/(2 L_i^2) =   *)
(*        m_i ln 2  (m_i a positive integer)  =>  K = 2^(ja - SUM m_i D_i^2)*)
(*  rq  : a^2 (1 + Z/k)^-k, Z = SUM c_i D_i^2, c_i = 1/(2 L_i^2) rational,  *)
(*        k in {1, 2}, a^2 = 2^ja                                           *)
(*  wn  : white noise, sigma^2 = 2^j on the diagonal of the data covariance *)
(*  hn  : heteroscedastic noise, 2^(j_i) at data point i                    *)
(*  sum : K1 + ... + Kn, parameters concatenated in order                   *)
(*  cp  : change-point along one axis with logistic weights of width 1/ln2, *)
(*        W_j(x) = 2^(x - c_j)/(1 + 2^(x - c_j)); kernel i carries          *)
(*        W_(i-1)(u) W_(i-1)(v) (1 - W_i(u)) (1 - W_i(v))                   *)
(*                                                                         *)
(* Kernel descriptions are records; points are tuples of integers.          *)
(* Hyper-parameter gradients are with respect to the code's own parameters  *)
(* (log-amplitude, log-scale, log-alpha, log-sigma; change-point location   *)
(* and width) and are written from the kernel definitions.                  *)
(***************************************************************************)
EXTENDS SymLin, FiniteSets, TLC
D2(u, v, i) == (u[i] - v[i]) * (u[i] - v[i])
RECURSIVE ISum(_, _)
ISum(f, n) == IF n = 0 THEN 0 ELSE ISum(f, n - 1) + f[n]
RPowInt(q, k) == IF k = 1 THEN q ELSE RMul(q, q)                       \* k in {1, 2}
Dim(u) == Len(u)

\* ---- base kernels -----------------------------------------------------------------------------------------------
SeVal(kn, u, v) == RPow2(kn.ja - ISum([i \in 1..Dim(u) |-> kn.m[i] * D2(u, v, i)], Dim(u)))
RqZ(kn, u, v) == RSum([i \in 1..Dim(u) |-> RMul(kn.c[i], RInt(D2(u, v, i)))], Dim(u))
RqF(kn, u, v) == RAdd(ROne, RDiv(RqZ(kn, u, v), RInt(kn.kk)))
RqVal(kn, u, v) == RMul(RPow2(kn.ja), RInv(RPowInt(RqF(kn, u, v), kn.kk)))
BaseVal(kn, u, v) == IF kn.k = "se" THEN SeVal(kn, u, v) ELSE RqVal(kn, u, v)
\* gradients of a base kernel w.r.t. its own parameters, in the code's order
SeGrads(kn, u, v) == LET K == SeVal(kn, u, v) IN
    <<SRat(RMul(RInt(2), K))>> \o [i \in 1..Dim(u) |-> SAtom(RMul(RInt(2 * kn.m[i] * D2(u, v, i)), K), <<"ln2">>)]     \* d/dln a, d/dln L_i
RqGrads(kn, u, v) == LET K == RqVal(kn, u, v)  F == RqF(kn, u, v)  Z == RqZ(kn, u, v) IN
    <<SRat(RMul(RInt(2), K)),                                                                                          \* d/dln a
      SAdd(SAtom(RNeg(RMul(RInt(kn.kk), K)), <<"ln", F>>), SRat(RMul(K, RDiv(Z, F))))>>                                \* d/dln alpha = -K (k ln F - Z/F)
    \o [i \in 1..Dim(u) |-> SRat(RMul(RDiv(RMul(RInt(2), K), F), RMul(kn.c[i], RInt(D2(u, v, i)))))]                   \* d/dln L_i = (2K/F) c_i D_i^2
BaseGrads(kn, u, v) == IF kn.k = "se" THEN SeGrads(kn, u, v) ELSE RqGrads(kn, u, v)
BaseNPar(kn, d) == IF kn.k = "se" THEN d + 1 ELSE d + 2

\* ---- change-point ----------------------------------------------------------------------------------------------
W(cp, j, x) == LET e == x[cp.axis] - cp.cs[j] IN IF e >= 0 THEN RDiv(RPow2(e), RAdd(ROne, RPow2(e))) ELSE RDiv(ROne, RAdd(ROne, RPow2(-e)))
NParts(cp) == Len(cp.parts)
Before(cp, i, x) == IF i > 1 THEN W(cp, i - 1, x) ELSE ROne                       \* W_(i-1)
After(cp, i, x) == IF i < NParts(cp) THEN RSub(ROne, W(cp, i, x)) ELSE ROne       \* 1 - W_i
Coeff(cp, i, u, v) == RMul(RMul(Before(cp, i, u), Before(cp, i, v)), RMul(After(cp, i, u), After(cp, i, v)))
CpVal(cp, u, v) == RSum([i \in 1..NParts(cp) |-> RMul(Coeff(cp, i, u, v), BaseVal(cp.parts[i], u, v))], NParts(cp))
\* dW/dlocation = -W(1-W) ln2 ; dW/dwidth = -W(1-W) (x - c) (ln2)^2   (width = 1/ln2): rational part only, atom named separately
DWr(cp, j, x, p) == LET w == W(cp, j, x)  b == RNeg(RMul(w, RSub(ROne, w))) IN IF p = 1 THEN b ELSE RMul(b, RInt(x[cp.axis] - cp.cs[j]))
CpParamGrad(cp, j, p, u, v) ==
    LET dwu == DWr(cp, j, u, p)  dwv == DWr(cp, j, v, p)
        wu == W(cp, j, u)  wv == W(cp, j, v)
        dcj == RMul(RMul(Before(cp, j, u), Before(cp, j, v)),
                    RNeg(RAdd(RMul(dwu, RSub(ROne, wv)), RMul(RSub(ROne, wu), dwv))))                \* d coeff_j
        dcn == RMul(RAdd(RMul(dwu, wv), RMul(wu, dwv)), RMul(After(cp, j + 1, u), After(cp, j + 1, v)))   \* d coeff_(j+1)
        r == RAdd(RMul(BaseVal(cp.parts[j], u, v), dcj), RMul(BaseVal(cp.parts[j + 1], u, v), dcn))
    IN SAtom(r, IF p = 1 THEN <<"ln2">> ELSE <<"ln2sq">>)
RECURSIVE FlatGrads(_, _, _, _)
FlatGrads(cp, i, u, v) == IF i > NParts(cp) THEN <<>>
    ELSE [g \in 1..Len(BaseGrads(cp.parts[i], u, v)) |-> SScale(Coeff(cp, i, u, v), BaseGrads(cp.parts[i], u, v)[g])] \o FlatGrads(cp, i + 1, u, v)
RECURSIVE CpTail(_, _, _, _)
CpTail(cp, j, u, v) == IF j >= NParts(cp) THEN <<>> ELSE <<CpParamGrad(cp, j, 1, u, v), CpParamGrad(cp, j, 2, u, v)>> \o CpTail(cp, j + 1, u, v)
CpGrads(cp, u, v) == FlatGrads(cp, 1, u, v) \o CpTail(cp, 1, u, v)
RECURSIVE CpNPar(_, _, _)
CpNPar(cp, i, d) == IF i > NParts(cp) THEN 2 * (NParts(cp) - 1) ELSE BaseNPar(cp.parts[i], d) + CpNPar(cp, i + 1, d)

\* ---- any kernel: pairwise value (noise kernels contribute nothing), extra diagonal of the data covariance, gradients -----
RECURSIVE Val(_, _, _)
Val(kn, u, v) == CASE kn.k \in {"se", "rq"} -> BaseVal(kn, u, v)
                   [] kn.k \in {"wn", "hn"} -> RZero
                   [] kn.k = "cp" -> CpVal(kn, u, v)
                   [] kn.k = "sum" -> RSum([i \in 1..Len(kn.parts) |-> Val(kn.parts[i], u, v)], Len(kn.parts))
RECURSIVE DiagExtra(_, _)
DiagExtra(kn, i) == CASE kn.k = "wn" -> RPow2(kn.j)                            \* documented diagonal terms: noise variances
                      [] kn.k = "hn" -> RPow2(kn.js[i])
                      [] kn.k = "sum" -> RSum([p \in 1..Len(kn.parts) |-> DiagExtra(kn.parts[p], i)], Len(kn.parts))
                      [] OTHER -> RZero
RECURSIVE NPar(_, _, _)
NPar(kn, d, n) == CASE kn.k \in {"se", "rq"} -> BaseNPar(kn, d)
                    [] kn.k = "wn" -> 1
                    [] kn.k = "hn" -> n
                    [] kn.k = "cp" -> CpNPar(kn, 1, d)
                    [] kn.k = "sum" -> ISum([p \in 1..Len(kn.parts) |-> NPar(kn.parts[p], d, n)], Len(kn.parts))
\* gradient list of the DATA covariance entry (i, j) for data points X
RECURSIVE Grads(_, _, _, _)
Grads(kn, X, i, j) ==
    CASE kn.k \in {"se", "rq"} -> BaseGrads(kn, X[i], X[j])
      [] kn.k = "wn" -> <<SRat(IF i = j THEN RMul(RInt(2), RPow2(kn.j)) ELSE RZero)>>
      [] kn.k = "hn" -> [p \in 1..Len(X) |-> SRat(IF i = j /\ p = i THEN RMul(RInt(2), RPow2(kn.js[i])) ELSE RZero)]
      [] kn.k = "cp" -> CpGrads(kn, X[i], X[j])
      [] kn.k = "sum" -> LET RECURSIVE Cat(_)
                             Cat(p) == IF p > Len(kn.parts) THEN <<>> ELSE Grads(kn.parts[p], X, i, j) \o Cat(p + 1)
                         IN Cat(1)
CallMatrix(kn, X, Y) == [i \in 1..Len(X) |-> [j \in 1..Len(Y) |-> Val(kn, X[i], Y[j])]]
BuildMatrix(kn, X) == [i \in 1..Len(X) |-> [j \in 1..Len(X) |-> RAdd(Val(kn, X[i], X[j]), IF i = j THEN DiagExtra(kn, i) ELSE RZero)]]
GradMatrices(kn, X) == [p \in 1..NPar(kn, Len(X[1]), Len(X)) |-> [i \in 1..Len(X) |-> [j \in 1..Len(X) |-> Grads(kn, X, i, j)[p]]]]
\* validity: symmetric, positive semi-definite (leading principal minors > 0 on these families), gradient list as long as the parameters
Valid(kn, X) == LET B == BuildMatrix(kn, X) IN RSymmetric(B) /\ RPosDef(B)
GradCountOK(kn, X) == \A i, j \in 1..Len(X) : Len(Grads(kn, X, i, j)) = NPar(kn, Len(X[1]), Len(X))

\* ---- mean functions: m(q) and its parameter gradients; parameters are small integers -----------------------------
\* xbar is the mean of the data points (rational per dimension)
XBar(X) == [d \in 1..Len(X[1]) |-> RDiv(RInt(ISum([i \in 1..Len(X) |-> X[i][d]], Len(X))), RInt(Len(X)))]
MeanAt(mf, X, q) == LET d == Len(q)  xb == XBar(X)  dq == [a \in 1..d |-> RSub(RInt(q[a]), xb[a])] IN
    CASE mf.k = "const" -> RInt(mf.th[1])
      [] mf.k = "lin" -> RAdd(RInt(mf.th[1]), RSum([a \in 1..d |-> RMul(RInt(mf.th[1 + a]), dq[a])], d))
      [] mf.k = "quad" -> RAdd(RAdd(RInt(mf.th[1]), RSum([a \in 1..d |-> RMul(RInt(mf.th[1 + a]), dq[a])], d)),
                               RSum([a \in 1..d |-> RMul(RInt(mf.th[1 + d + a]), RMul(dq[a], dq[a]))], d))
MeanGrads(mf, X, q) == LET d == Len(q)  xb == XBar(X)  dq == [a \in 1..d |-> RSub(RInt(q[a]), xb[a])] IN
    CASE mf.k = "const" -> <<ROne>>
      [] mf.k = "lin" -> <<ROne>> \o dq
      [] mf.k = "quad" -> <<ROne>> \o dq \o [a \in 1..d |-> RMul(dq[a], dq[a])]
\* spatial derivative of the mean function at q (C16)
MeanSlope(mf, X, q) == LET d == Len(q)  xb == XBar(X) IN
    CASE mf.k = "const" -> [a \in 1..d |-> RZero]
      [] mf.k = "lin" -> [a \in 1..d |-> RInt(mf.th[1 + a])]
      [] mf.k = "quad" -> [a \in 1..d |-> RAdd(RInt(mf.th[1 + a]), RMul(RInt(2 * mf.th[1 + d + a]), RSub(RInt(q[a]), xb[a])))]
=============================================================================
