--------------------------- MODULE MC_ReadoutTies ---------------------------
(***************************************************************************)
(* C14, tied log-probabilities: the two predicates that ReadoutTrace        *)
(* evaluates on what get_interval returned (IsTop, InSomeTop) are checked    *)
(* against their definitions on EVERY rank assignment of up to N rows over   *)
(* L levels (ties included), every fraction k/8 and every set of rows:       *)
(*   Exists     a top fraction always exists;                                *)
(*   Unique     with pairwise distinct ranks it is unique and is Top;        *)
(*   Closed     InSomeTop(R) (a closed form) holds exactly when R is part of *)
(*              some top fraction;                                           *)
(*   Size       every top fraction has n' - floor(n'(1-f)) rows and every     *)
(*              dropped row is at most as probable as every kept one.         *)
(***************************************************************************)
EXTENDS Readout
CONSTANTS N, L
Sels == {[i \in 1..n |-> i - 1] : n \in 1..N}                  \* (the selection itself is checked by MC_Readout; here sel = all rows)
Ranks(n) == [1..n -> 0..(L - 1)]
Tops(sel, rank, f8) == {R \in SUBSET ToSet(sel) : IsTop(sel, rank, f8, R)}
Distinct(rank, n) == Cardinality({rank[i] : i \in 1..n}) = n
Exists == \A sel \in Sels : \A rank \in Ranks(Len(sel)) : \A f8 \in 0..8 : Tops(sel, rank, f8) # {}
Unique == \A sel \in Sels : \A rank \in Ranks(Len(sel)) : \A f8 \in 0..8 :
             Distinct(rank, Len(sel)) => Tops(sel, rank, f8) = {Top(sel, rank, f8)}
Closed == \A sel \in Sels : \A rank \in Ranks(Len(sel)) : \A f8 \in 0..8 : \A R \in SUBSET ToSet(sel) :
             InSomeTop(sel, rank, f8, R) <=> (\E R2 \in Tops(sel, rank, f8) : R \subseteq R2)
Size == \A sel \in Sels : \A rank \in Ranks(Len(sel)) : \A f8 \in 0..8 : \A R \in Tops(sel, rank, f8) :
             /\ Cardinality(R) = Len(sel) - (Len(sel) * (8 - f8)) \div 8
             /\ \A a \in R, b \in ToSet(sel) \ R : rank[b + 1] <= rank[a + 1]
ASSUME Exists
ASSUME Unique
ASSUME Closed
ASSUME Size
VARIABLE x
Init == x = 0
Next == UNCHANGED x
=============================================================================
