---- MODULE MC_KernelExact ----
EXTENDS KernelExact, Json
CONSTANT Deep        \* FALSE: the quick family; TRUE (thorough tier): more point sets
PointSets == { << <<0>>, <<1>>, <<3>> >>, << <<-1>>, <<2>> >>, << <<0, 0>>, <<1, 2>>, <<2, -1>> >>, << <<0, 1>>, <<1, 0>> >> }
             \cup (IF Deep THEN { << <<0>>, <<2>> >>, << <<1>>, <<-1>>, <<0>> >>, << <<2>> >>, << <<0, 0>>, <<0, 1>> >>, << <<1, 1>>, <<-1, 0>>, <<0, 2>> >> } ELSE {})
Queries(d) == IF d = 1 THEN << <<1>>, <<-2>> >> ELSE << <<1, 1>>, <<0, -1>> >>
Pre(s, d) == [i \in 1..d |-> s[i]]
Se1(d) == [k |-> "se", ja |-> 0, m |-> Pre(<<1, 2>>, d)]
Se2(d) == [k |-> "se", ja |-> 2, m |-> Pre(<<1, 1>>, d)]
Rq1(d) == [k |-> "rq", ja |-> 0, kk |-> 1, c |-> Pre(<<<<1, 1>>, <<1, 2>>>>, d)]
Rq2(d) == [k |-> "rq", ja |-> 1, kk |-> 2, c |-> Pre(<<<<1, 2>>, <<1, 1>>>>, d)]
\* amplitudes far below one (a^2 = 2^-16): the documented jitter is RELATIVE to the amplitude
Se3(d) == [k |-> "se", ja |-> -16, m |-> Pre(<<1, 1>>, d)]
Rq3(d) == [k |-> "rq", ja |-> -16, kk |-> 1, c |-> Pre(<<<<1, 1>>, <<1, 1>>>>, d)]
Wn == [k |-> "wn", j |-> -2]
Hn(n) == [k |-> "hn", js |-> Pre(<<-1, 0, -3>>, n)]
Sum(ps) == [k |-> "sum", parts |-> ps]
Cp(ps, cs) == [k |-> "cp", parts |-> ps, axis |-> 1, cs |-> cs]
Cp4(d) == Sum(<<Cp(<<Se1(d), Rq1(d), Se2(d), Se1(d)>>, <<0, 1, 1>>), Wn>>)      \* four kernels: only on the smallest point set (32-bit denominators)
TinySet == << <<0>>, <<1>> >>
Cp5(d) == Cp(<<Se1(d), Rq1(d), Se2(d), Se1(d), Rq1(d)>>, <<0, 1, 1, 0>>)          \* five kernels
Kernels(d, n) == { Se1(d), Se2(d), Rq1(d), Rq2(d),
                   Sum(<<Se1(d), Wn>>), Sum(<<Rq2(d), Hn(n)>>), Sum(<<Se2(d), Rq1(d), Wn>>), Sum(<<Rq1(d), Se1(d), Hn(n), Wn>>) }
\* change-point kernels: evaluated on the point sets with small coordinates only (the logistic weights 2^e/(1+2^e) have denominators
\* 3, 5, 9, ... and products of four of them with the kernel values must stay inside TLC's 32-bit integers)
CpKernels(d, n) == { Sum(<<Cp(<<Se1(d), Rq1(d)>>, <<1>>), Wn>>), Sum(<<Cp(<<Rq2(d), Se1(d), Rq1(d)>>, <<0, 1>>), Wn>>),
                     Sum(<<Se1(d), Cp(<<Rq1(d), Se2(d)>>, <<1>>), Wn>>), Cp(<<Se1(d), Se2(d), Rq1(d)>>, <<1, 0>>),
                     Sum(<<[k |-> "cp", parts |-> <<Se1(d), Rq1(d)>>, axis |-> d, cs |-> <<1>>], Wn>>) }      \* change-point along the LAST axis
CpPointSets == { << <<0>>, <<1>>, <<2>> >>, << <<0, 1>>, <<1, 0>> >> }
Means(d) == { [k |-> "const", th |-> <<2>>], [k |-> "lin", th |-> Pre(<<1, 2, -1>>, 1 + d)], [k |-> "quad", th |-> Pre(<<1, 2, -1, 1, 3>>, 1 + 2 * d)] }
VARIABLES X, kn, mf, out
Init == /\ \/ X \in PointSets /\ kn \in Kernels(Len(X[1]), Len(X))
           \/ X \in CpPointSets /\ kn \in CpKernels(Len(X[1]), Len(X))
           \/ X = TinySet /\ kn \in {Cp4(1), Cp5(1), Se3(1), Rq3(1)}
        /\ mf \in Means(Len(X[1])) /\ out = 0
Q == Queries(Len(X[1]))
Next == /\ out = 0 /\ out' = 1 /\ UNCHANGED <<X, kn, mf>>
        /\ PrintT(ToJson([X |-> X, Q |-> Q, kern |-> kn, mean |-> mf,
                          call |-> CallMatrix(kn, X, X), callq |-> CallMatrix(kn, Q, X), build |-> BuildMatrix(kn, X),
                          grads |-> GradMatrices(kn, X), npar |-> NPar(kn, Len(X[1]), Len(X)),
                          mx |-> [i \in 1..Len(X) |-> MeanAt(mf, X, X[i])], mq |-> [i \in 1..Len(Q) |-> MeanAt(mf, X, Q[i])],
                          mgrads |-> [i \in 1..Len(X) |-> MeanGrads(mf, X, X[i])]]))
\* exact positive-definiteness by leading principal minors where the determinants fit TLC's 32-bit integers; symmetry for every kernel.
\* (The implementation's matrices are additionally checked numerically for every kernel by the replayer.)
Small(d) == {Se1(d), Rq1(d), Sum(<<Se1(d), Wn>>)}
ValidCov == IF Len(X[1]) = 1 /\ kn \in Small(1) THEN Valid(kn, X) ELSE RSymmetric(BuildMatrix(kn, X))
GradCount == GradCountOK(kn, X)
====
