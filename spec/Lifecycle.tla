------------------------------ MODULE Lifecycle ------------------------------
(***************************************************************************)
(* C09 -- a saved sampler reloads to an equivalent sampler that can         *)
(* continue.                                                                *)
(*                                                                         *)
(* The abstract state of a sampler is a record of FIELDS, each holding a    *)
(* version number that the operations touching it bump.  Field groups:      *)
(*   data    : samples, log-probabilities, lengths, walker arrays           *)
(*   tuning  : proposal widths / step size and their adaptation records     *)
(*   struct  : bounds, limits, temperature, mass, directions/covariance     *)
(*   service : progress printer, counters needed only to keep running       *)
(* A sampler passes through PHASES (fresh; stepped before the first         *)
(* adaptation / direction update; after it): some fields only come into     *)
(* existence in a later phase (e.g. the PCA covariance estimate).           *)
(*                                                                         *)
(* Save writes a file; Load builds a clone from the file and constructor    *)
(* defaults; the DESIRED behaviour is: every field that read-outs, plots or *)
(* take_step use is equal in clone and original (RoundTrip), Save is        *)
(* enabled in every phase (SaveEnabledAlways) and, given the same generator *)
(* state, both continue identically (ContinuationEqual).                    *)
(***************************************************************************)
EXTENDS Integers, Sequences, FiniteSets, TLC
CONSTANTS StepSizes,     \* offered numbers of steps per Step operation
          MaxOps
Fields == {"data", "tuning", "struct", "service", "late"}       \* "late" exists only after the first adaptation/update
VARIABLES live,      \* live[f] = version of field f in the original (0 = does not exist yet)
          file,      \* <<>> or the saved record
          clone,     \* <<>> or the loaded record
          total,     \* steps taken by the original
          hist,      \* operations so far
          synced     \* clone and original are known to hold equal generator states
vars == <<live, file, clone, total, hist, synced>>
Threshold == 100                      \* first adaptation / direction update (observed; any positive value would do)
Init == /\ live = [f \in Fields |-> IF f = "late" THEN 0 ELSE 1]
        /\ file = <<>> /\ clone = <<>> /\ total = 0 /\ hist = <<>> /\ synced = FALSE
Bump(rec, k) == [f \in Fields |-> CASE f = "data" -> rec[f] + k
                                    [] f = "tuning" -> rec[f] + k
                                    [] f = "late" -> IF total + k >= Threshold THEN rec[f] + k ELSE rec[f]
                                    [] OTHER -> rec[f]]
Step(k) == /\ Len(hist) < MaxOps /\ live' = Bump(live, k) /\ total' = total + k
           /\ hist' = Append(hist, <<"step", k>>) /\ UNCHANGED <<file, clone>> /\ synced' = FALSE
Save == /\ Len(hist) < MaxOps                                  \* enabled in EVERY phase
        /\ file' = live /\ hist' = Append(hist, <<"save", 0>>) /\ UNCHANGED <<live, clone, total, synced>>
Load == /\ Len(hist) < MaxOps /\ file # <<>>
        /\ clone' = file /\ synced' = (file = live)             \* the harness copies generator states original -> clone
        /\ hist' = Append(hist, <<"load", 0>>) /\ UNCHANGED <<live, file, total>>
\* both continue with the same draws: equal fields stay equal
ContinueBoth(k) == /\ Len(hist) < MaxOps /\ clone # <<>> /\ synced
                   /\ live' = Bump(live, k) /\ clone' = Bump(clone, k) /\ total' = total + k
                   /\ hist' = Append(hist, <<"continue", k>>) /\ UNCHANGED <<file, synced>>
Next == Save \/ Load \/ \E k \in StepSizes : Step(k) \/ ContinueBoth(k)
Spec == Init /\ [][Next]_vars
\* ---------------------------------------------------------------- properties (desired behaviour)
RoundTrip == (clone # <<>> /\ synced) => \A f \in Fields : clone[f] = live[f]
ContinuationEqual == [][ (hist' # hist /\ hist'[Len(hist')][1] = "continue") => (clone' = live') ]_vars
Phase == IF total = 0 THEN "fresh" ELSE IF total < Threshold THEN "early" ELSE "adapted"
=============================================================================
