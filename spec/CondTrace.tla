---- MODULE CondTrace ----
(***************************************************************************)
(* C20, code -> spec: get_conditionals / conditional_sample observed        *)
(* through the posterior-call trace.  One run = Begin(n parameters), then   *)
(* per parameter: Eval events (every point handed to the posterior must be  *)
(* inside the bounds and differ from the conditioning point only in the     *)
(* parameter being scanned), then Result with the projected facts about the *)
(* returned grid and density.                                               *)
(***************************************************************************)
EXTENDS Integers, Sequences, TLC, TLCExt, Json, IOUtils
Log == ndJsonDeserialize(IOEnv.TRACE_FILE)
VARIABLES l, npar, cur, done
Ev == Log[l]
TraceInit == TLCSet(1, 1) /\ l = 1 /\ npar = 0 /\ cur = 0 /\ done = 0
\* validity of the event in the current state (a failing event is reported by index and the scan goes on)
Valid == CASE Ev.ev = "Begin" -> TRUE
           [] Ev.ev = "Eval" -> /\ cur >= 1 /\ cur <= npar
                                /\ Ev.inside                                     \* evaluated point inside the bounds
                                /\ Ev.others_fixed                               \* only the scanned coordinate differs from the conditioning point
                                /\ (Ev.coord = cur \/ Ev.coord = 0)              \* 0: the conditioning point itself
           [] Ev.ev = "Result" -> /\ Ev.coord = cur
                                  /\ Ev.ascending /\ Ev.grid_inside             \* grid ascending and inside the bounds
                                  /\ Ev.covers                                  \* covers {x : logp >= peak - ln 100} within the bounds
                                  /\ Ev.ratio_err_e9 <= 1000                    \* density proportional to exp(logp) on the grid (1e-6)
                                  /\ Ev.norm_err_e6 <= 3000                     \* integrates to one (trapezium rule within 3e-3)
                                  /\ Ev.true_err_e6 <= 5000                     \* matches the true conditional where exactly known (5e-3 of the peak)
           [] Ev.ev = "Samples" -> cur = npar + 1 /\ Ev.inside /\ Ev.shape_ok
           [] OTHER -> FALSE
Step == /\ (IF Valid THEN TRUE ELSE PrintT(<<"BAD", l>>))
        /\ npar' = (IF Ev.ev = "Begin" THEN Ev.n ELSE npar)
        /\ cur' = (IF Ev.ev = "Begin" THEN 1 ELSE IF Ev.ev = "Result" THEN cur + 1 ELSE cur)
        /\ done' = (IF Ev.ev = "Begin" THEN 0 ELSE IF Ev.ev = "Result" THEN done + 1 ELSE done)
TraceNext == l <= Len(Log) /\ l' = l + 1 /\ Step
TraceSpec == TraceInit /\ [][TraceNext]_<<l, npar, cur, done>>
Progress == TLCSet(1, IF l > TLCGet(1) THEN l ELSE TLCGet(1))
TraceAccepted == IF TLCGet(1) = Len(Log) + 1 THEN TRUE ELSE PrintT(<<"REJECTED at line", TLCGet(1)>>) /\ FALSE
====
