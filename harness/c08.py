"""C08 -- parallel-tempering exchanges are correct and independent of scheduling.

MC   : Tempering.tla (master + 3 workers + FIFO pipes + shutdown event): ProbsBelong, PairsDisjoint, EqualAdvance,
       PipesBounded, ReturnComplete over every interleaving, liveness Terminates under weak fairness; with fixed
       pairing and draws exactly one terminal state (schedule independence). AdvanceArith.tla: cycle arithmetic of
       advance(n, swap_interval) for all n, interval in range. TightPairs.tla: the as-built pairing strategy only
       produces sets of disjoint valid pairs.
C->S : real ParallelTempering runs (forked workers, traced pipes, per-process logs, no global clock) under several
       injected delay schedules; each log set is validated by PTTrace.tla (TLC infers the pairing; exchange rule, hand-over,
       step counts, FIFO consistency, ProbsBelong in every state); final chains must be identical across schedules;
       workers must be dead after shutdown; returned chains complete.
"""
import json
import os
import subprocess
import sys

from harness.core import Check, run_tlc, must_pass, seed, tla_val, scratch, MachineryError, VERIF, REPO
from harness import pt as PT


def run_scenario(args, timeout=120):
    d = scratch("pt_")
    args = dict(args)
    args["out"] = d
    apath = os.path.join(d, "args.json")
    with open(apath, "w") as fh:
        json.dump(args, fh)
    env = dict(os.environ)
    env["PYTHONPATH"] = REPO + ":" + VERIF
    try:
        p = subprocess.run([sys.executable, "-m", "harness.pt", apath], cwd=VERIF, env=env, timeout=timeout,
                           stdout=subprocess.PIPE, stderr=subprocess.STDOUT, text=True)
        out = p.stdout
        hung = False
    except subprocess.TimeoutExpired as ex:
        out = (ex.stdout or b"").decode() if isinstance(ex.stdout, bytes) else (ex.stdout or "")
        hung = True
        subprocess.run(["pkill", "-f", apath], check=False)
    events = []
    for f in sorted(os.listdir(d)):
        if f.startswith("ev_"):
            with open(os.path.join(d, f)) as fh:
                events += [json.loads(l) for l in fh if l.strip()]
    res = None
    rp = os.path.join(d, "result.json")
    if os.path.exists(rp):
        with open(rp) as fh:
            res = json.load(fh)
    return {"events": events, "result": res, "hung": hung, "stdout": out[-3000:], "dir": d}


def validate_trace(ck, args, sc, label):
    """PTTrace.tla on the merged per-process logs; returns (accepted, stats)"""
    n = len(args["temps"])
    d = scratch("pttr_")
    path = os.path.join(d, "trace.ndjson")
    with open(path, "w") as fh:
        for e in sc["events"]:
            fh.write(json.dumps(e) + "\n")
    beta4 = [int(round(4 / t)) for t in args["temps"]]
    mod = ("---- MODULE MC_PTTrace ----\nEXTENDS PTTrace\nMCBeta4 == %s\nMCETab == %s\nMCInit == %s\nMCELo == %d\n====\n"
           % (tla_val(beta4), tla_val(PT.etable(args.get("eoffset", 0))), tla_val([i["pos"] for i in sc["result"]["init"]]), PT.WLO))
    cfg = ("SPECIFICATION TraceSpec\nCONSTANTS N = %d MB = %d\n Beta4 <- MCBeta4\n ETab <- MCETab\n ELo <- MCELo\n InitPos <- MCInit\n"
           "INVARIANT ProbsBelong\nINVARIANT StatsSane\nINVARIANT Report\nCONSTRAINT Progress\nPOSTCONDITION TraceAccepted\nCHECK_DEADLOCK FALSE\n" % (n, PT.MBITS))
    r = run_tlc("MC_PTTrace", cfg_text=cfg, extra_files={"MC_PTTrace.tla": mod}, workers=1, dfs=True,
                env={"TRACE_FILE": path}, timeout=600)
    if r.error and "TraceAccepted" not in (r.error or "") and not any("REJECTED" in x for x in r.raw_printed):
        raise MachineryError("PTTrace: " + r.error)
    ck.tlc(r, "pt_trace_" + label)
    rejected = [x for x in r.raw_printed if "REJECTED" in x]
    stats = [x for x in r.raw_printed if "STATS" in x]
    st = None
    if stats:
        nums = [int(v) for v in stats[-1].replace("<<", "").replace(">>", "").replace('"STATS",', "").split(",")]
        st = {"accepted": nums[0], "rejected": nums[1], "nontrivial_accepted": nums[2]}
    ok = not rejected and not r.violated and st is not None
    return ok, st, r, rejected


def model_part(ck, tier):
    r = run_tlc("MC_Tempering", coverage=True, timeout=900)
    if r.violated:
        ck.violation("spec: Tempering " + ",".join(r.violated), {"violated": r.violated}, site="spec")
    must_pass(r, "MC_Tempering")
    ck.tlc(r, "tempering_model")
    never = [k for k, v in r.coverage.items() if v[1] == 0 and k[0] in "MW"]
    if never:
        raise MachineryError("vacuity: Tempering actions never taken: %s" % never)
    r = run_tlc("MC_Tempering", cfg="MC_TemperingFixed.cfg", timeout=900)
    must_pass(r, "MC_TemperingFixed")
    ck.tlc(r, "tempering_schedule_independence")
    terms = {json.dumps(p, sort_keys=True) for p in r.printed}
    ck.parts["tempering_schedule_independence"]["distinct_terminal_states"] = len(terms)
    if len(terms) != 1:
        ck.violation("spec: ScheduleIndependence (one terminal state for fixed seeds)", {"terminal_states": len(terms)}, site="spec")
    r = run_tlc("MC_AdvanceArith", timeout=900)
    if r.violated:
        ck.violation("spec: AdvanceArith %s" % r.violated, {"violated": r.violated}, site="spec")
    must_pass(r, "MC_AdvanceArith")
    from harness.core import run_apalache
    ra = run_apalache("APA_AdvanceArith")          # the same identities for EVERY n >= 0 (swap intervals 1..40), SMT over unbounded integers
    ck.parts["advance_arith_unbounded"] = {"tool": "apalache-mc 0.58 (symbolic, unbounded integers)", "cmd": ra["cmd"], "outcome": ra["outcome"],
                                           "wall_s": ra["wall_s"], "covers": "all n >= 0; swap_interval 1..40; chain granularity 100"}
    if not ra["ok"]:
        ck.violation("spec: AdvanceArith (unbounded, Apalache)", {"outcome": ra["outcome"]}, site="spec")
    ck.tlc(r, "MC_AdvanceArith")
    pairs_part(ck, tier)


class _PairStub:
    """carrier for the two attributes tight_pairs / uniform_pairs read; the METHODS are the real ones"""

    def __init__(self, n, order):
        self.N_chains = n
        self.rng = self
        self.order = order

    def shuffle(self, x):
        # put the leftovers in the order TLC chose: pairs are taken as (x[0], x[1]), (x[2], x[3]), ...
        want = [v for v in self.order if v in list(x)] + [v for v in list(x) if v not in self.order]
        for i, v in enumerate(want):
            x[i] = v


def pairs_part(ck, tier):
    """TightPairs.tla: every outcome of the as-built pairing strategy; each is driven through the real tight_pairs"""
    import inference.mcmc.parallel as par
    maxc = 8 if tier == "quick" else 10
    r = run_tlc("MC_TightPairs", cfg_text="SPECIFICATION Spec\nCONSTANTS MaxChains = %d\nINVARIANT PairsDisjoint\nINVARIANT AtMostHalf\n"
                                          "INVARIANT Export\nCHECK_DEADLOCK FALSE\n" % maxc, timeout=1200)
    if r.violated:
        ck.violation("spec: TightPairs %s" % r.violated, {"violated": r.violated}, site="spec")
    must_pass(r, "MC_TightPairs")
    ck.tlc(r, "tight_pairs_model")
    real_choice = par.choice
    seen = set()
    try:
        for b in r.printed:
            key = (b["n"], json.dumps(b["picks"]), json.dumps(b["lpairs"]))
            if key in seen:
                continue
            seen.add(key)
            picks = [tuple(p) for p in b["picks"]]
            it = iter(picks)

            def scripted(options, it=it):
                want = next(it, None)
                return want if want in options else options[0]
            par.choice = scripted
            order = [v for p in b["lpairs"] for v in p]
            stub = _PairStub(b["n"], order)
            try:
                got = par.ParallelTempering.tight_pairs(stub)
            except Exception as ex:
                ck.violation("tight_pairs raised", {"n": b["n"], "picks": picks, "error": repr(ex)}, site="ParallelTempering.tight_pairs")
                continue
            got = sorted((int(a), int(c)) for a, c in got)
            want = sorted(tuple(p) for p in b["pairs"])
            flat = [v for p in got for v in p]
            ck.case(("pairs",) + key)
            if len(flat) != len(set(flat)) or any(not (0 <= a < c < b["n"]) for a, c in got):
                ck.violation("PairsDisjoint: each chain takes part in at most one proposed pair", {"n": b["n"], "scripted_choices": picks,
                                                                                                   "leftover_order": order, "pairs": got},
                             site="ParallelTempering.tight_pairs")
            elif got != want:
                ck.violation("pairing differs from every outcome of the specification for the same random choices",
                             {"n": b["n"], "scripted_choices": picks, "leftover_order": order, "pairs": got, "spec": want},
                             site="ParallelTempering.tight_pairs")
    finally:
        par.choice = real_choice
    ck.count("tight_pairs_model", "outcomes_replayed", len(seen))


def impl_part(ck, tier):
    s = seed()
    scen = []
    base3 = dict(temps=[1, 2, 4], starts=[[-3, 4], [4, -3], [0, 1]], kind="gibbs", display=True)
    prog3 = [["steps", 3], ["swap"], ["advance", 23, 5], ["swap"], ["return"], ["steps", 2], ["swap"], ["return"], ["shutdown"]]
    scen.append(("n3", dict(base3, prog=prog3, seed=s + 1, prelude=True)))       # (preceded by another, finished tempering run in the same interpreter)
    scen.append(("n3_accept", dict(base3, prog=[["steps", 2], ["swap"], ["return"], ["swap"], ["steps", 1], ["return"], ["shutdown"]],
                                   seed=s + 2, force="accept")))
    scen.append(("n2", dict(temps=[1, 4], starts=[[-3], [4]], kind="gibbs", display=True, seed=s + 3,
                            prog=[["advance", 7, 3], ["swap"], ["return"], ["shutdown"]])))
    scen.append(("n1", dict(temps=[1], starts=[[2, 2]], kind="gibbs", display=True, seed=s + 4,
                            prog=[["advance", 12, 5], ["swap"], ["return"], ["shutdown"]])))
    scen.append(("n4_nodisplay", dict(temps=[1, 2, 2, 4], starts=[[-3, 4], [4, -3], [0, 1], [3, 3]], kind="gibbs", display=False,
                                      seed=s + 5, prog=[["advance", 11, 4], ["return"], ["shutdown"]])))
    # Hamiltonian chains (piecewise-constant posterior, free flight between bounds): the start point's stored probability is used
    # by the first exchange, before any step
    scen.append(("n3_hmc", dict(temps=[1, 2, 4], starts=[[-3, 4], [4, -3], [0, 1]], kind="hmc", display=True, seed=s + 8,
                                prog=[["swap"], ["steps", 2], ["swap"], ["advance", 6, 3], ["return"], ["shutdown"]])))
    # more than 50 exchange cycles in one advance (the grouped loop changes regime at 50), and a log-density of large magnitude
    # (every energy shifted by 3000 per coordinate: log-probabilities around -4000, differences unchanged)
    scen.append(("n2_long", dict(temps=[1, 4], starts=[[-3], [4]], kind="gibbs", display=False, seed=s + 9,
                                 prog=[["advance", 161, 3], ["return"], ["advance", 7, 10], ["return"], ["shutdown"]])))      # 53 cycles + 2 left over; then 0 cycles + 7
    scen.append(("n3_offset", dict(base3, eoffset=3000, seed=s + 10, force="accept", prog=[["steps", 2], ["swap"], ["steps", 2], ["swap"], ["steps", 1], ["swap"], ["return"], ["shutdown"]])))
    # a ladder that is not sorted by temperature (allowed, warned about): every chain keeps its own temperature in the exchange rule
    scen.append(("n3_unsorted", dict(temps=[4, 1, 2], starts=[[-3, 4], [4, -3], [0, 1]], kind="gibbs", display=False, seed=s + 11, force="edge",
                                     prog=[["steps", 1], ["swap"], ["steps", 1], ["swap"], ["steps", 1], ["swap"], ["swap"], ["return"], ["shutdown"]])))
    # every draw ON the acceptance threshold of the pair it decides (pairs two levels apart included)
    scen.append(("n3_threshold", dict(base3, seed=s + 12, force="threshold", display=False,
                                      prog=[["steps", 1], ["swap"], ["steps", 2], ["swap"], ["steps", 1], ["swap"], ["steps", 2], ["swap"], ["swap"], ["steps", 1], ["swap"],
                                            ["return"], ["shutdown"]])))
    if tier == "thorough":
        scen.append(("n5_pca", dict(temps=[1, 1, 2, 4, 4], starts=[[-3, 4], [4, -3], [0, 1], [3, 3], [-2, -2]], kind="pca", display=True,
                                    seed=s + 6, prog=[["advance", 64, 7], ["return"], ["advance", 5, 10], ["return"], ["shutdown"]])))
        scen.append(("n6", dict(temps=[1, 1, 2, 2, 4, 4], starts=[[-3], [4], [0], [3], [-2], [5]], kind="gibbs", display=True,
                                seed=s + 7, prog=[["advance", 130, 3], ["return"], ["shutdown"]])))
    for label, a in scen:
        n = len(a["temps"])
        schedules = [("none", [0.0] * n, 0), ("first_slow", [0.004] + [0.0] * (n - 1), 0), ("jitter", [0.001] * n, 1)]
        if tier == "thorough":
            schedules.append(("last_slow", [0.0] * (n - 1) + [0.005], 0))
        finals = {}
        for sname, delays, jit in schedules:
            args = dict(a, delays=delays, jitter=jit)
            sc = run_scenario(args)
            ident = {"scenario": label, "schedule": sname, "temps": a["temps"], "prog": a["prog"], "display_progress": a["display"]}
            ck.case(("pt", label, sname))
            if sc["hung"] or sc["result"] is None:
                ck.violation("workers hand back complete chains and terminate on shutdown (run did not finish)",
                             {**ident, "stdout": sc["stdout"][-600:]}, site="ParallelTempering.liveness")
                continue
            res = sc["result"]
            if res["error"]:
                ck.violation("ParallelTempering call raised", {**ident, "error": res["error"]},
                             site="ParallelTempering.return_chains" if "pickle" in res["error"].lower() else "ParallelTempering.call")
                continue
            if res["alive_after_shutdown"] is None or any(res["alive_after_shutdown"]):
                ck.violation("workers terminate on shutdown", {**ident, "alive": res["alive_after_shutdown"]},
                             site="ParallelTempering.shutdown")
            # EqualAdvance + complete chains, from the returned objects
            req = 0
            ri = 0
            for cmd in a["prog"]:
                if cmd[0] in ("steps", "advance"):
                    req += cmd[1]
                if cmd[0] == "return":
                    for w, c in enumerate(res["returned"][ri]):
                        if c["n"] != 1 + req or len(c["sample"]) != c["n"] or len(c["tp4"]) != c["n"]:
                            ck.violation("EqualAdvance: every chain advanced by the requested number of steps and handed back complete",
                                         {**ident, "worker": w + 1, "requested": req, "chain_length": c["n"],
                                          "samples": len(c["sample"]), "probs": len(c["tp4"])}, site="ParallelTempering.advance")
                    ri += 1
            ok, st, r, rejected = validate_trace(ck, args, sc, f"{label}_{sname}")
            ck.traces += 1
            if not ok:
                ck.violation("trace of a real ParallelTempering run is not a behaviour of the specification "
                             "(exchange rule / hand-over / pair disjointness / step counts / ProbsBelong)",
                             {**ident, "tlc": rejected or r.violated, "events": len(sc["events"]),
                              "trace_dir_note": "re-run ./check C08 with the same VERIF_SEED"}, site="ParallelTempering.swap")
            else:
                ck.count("pt_exchanges", "accepted", st["accepted"])
                ck.count("pt_exchanges", "rejected", st["rejected"])
                ck.count("pt_exchanges", "accepted_with_different_energies", st["nontrivial_accepted"])
            finals[sname] = json.dumps(res["returned"], sort_keys=True)
            if len(ck.samples) < 3 and sname == "none":
                ck.sample({"part": "pt_trace", **ident, "events": len(sc["events"]), "exchange_stats": st,
                           "events_head": sc["events"][:5]})
        if len(set(finals.values())) > 1:
            ck.violation("ScheduleIndependence: returned chains identical whatever the relative speed of the workers",
                         {"scenario": label, "schedules": list(finals)}, site="ParallelTempering.schedule")
    if ck.parts.get("pt_exchanges", {}).get("accepted_with_different_energies", 0) == 0 and not ck.violations:
        raise MachineryError("vacuity: no non-trivial accepted exchange in any run")


def run(tier):
    ck = Check("C08", tier)
    ck.rule = ("one case per (scenario, delay schedule) real multi-process run, each validated event by event by TLC; "
               "non-trivial = distinct (scenario, schedule); exchange counts reported separately")
    ck.assumptions = ["fork start method (traced pipe wrappers are inherited by the workers)",
                      "lattice posterior and quantised draws keep every energy and ratio exact",
                      "operating-system level failures (a killed worker) are outside the property"]
    model_part(ck, tier)
    impl_part(ck, tier)
    # related machinery of the same module: a pool of chains ends as the chains advanced one after another (whatever the completion order
    # of the workers), and a tempered chain that was saved and reloaded (a resumed tempering run) keeps its temperature and its tempered
    # log-probabilities
    from harness import c15, c03
    c15.pool_part(ck, tier)
    c03.reload_part(ck, tier)
    return ck.finish()
