SPECIFICATION TraceSpec
CONSTANT Den = 16
CONSTRAINT Progress
POSTCONDITION TraceAccepted
CHECK_DEADLOCK FALSE
