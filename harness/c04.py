"""C04 -- parameter limits are never violated.

MC   : LimitMaps laws + limit state machine (Limits.tla) model-checked by TLC.
S->C : (a) every (box, t) of the map enumeration through Bounds.reflect / reflect_momenta at many
           dyadic scales and offsets (exact equality);
       (b) every TLC-enumerated call history applied to real Gibbs/Metropolis chains through the
           public API, then the proposal map tabulated over a window with scripted overshoots; the
           allowed region comes from the TLC state; the observed tables are checked by TLC against
           ObservedFoldLaws (identity inside, symmetric fold outside).
C->S : bounded PCA / HMC / ensemble runs with proposal scales far larger than the box, random
       non-dyadic bounds; every evaluation point and recorded sample is projected to an integer
       "excess in ulps" and the trace is validated by LimitsTrace.tla (excess <= 4 everywhere).
"""
import math
import warnings
import numpy as np

from harness.core import Check, run_tlc, must_pass, seed, tla_val, MachineryError

NOLIM = 1000000


class WalkGen:
    """Generator whose next normal draw is prescribed; uniforms are tiny (accept every level move)."""

    def __init__(self):
        self.k = 0.0

    def normal(self, loc=0.0, scale=1.0, size=None):
        return loc + scale * self.k

    def random(self, size=None):
        return 2.0 ** -40


class FlatLog:
    def __init__(self):
        self.evals = []

    def __call__(self, x):
        self.evals.append(np.array(x, dtype=float).copy())
        return 0.0


def _maps_part(ck, tier):
    from inference.mcmc.utilities import Bounds
    cfg = None
    if tier == "thorough":
        cfg = ("INIT MInit\nNEXT MNext\nCONSTANTS LoMin = 6 LoMax = 5 WMax = 9 R = 60\n"
               "INVARIANT Laws\nINVARIANT FoldLaws\nCHECK_DEADLOCK FALSE\n")
    r = run_tlc("MC_LimitsMap", cfg_text=cfg)
    if r.violated:
        ck.violation("spec:MapLaws", {"violated": r.violated}, site="spec")
    must_pass(r, "MC_LimitsMap")
    ck.tlc(r, "maps")
    # the same laws without the window: every integer position and lower limit, widths 1..12, by Apalache (SMT over unbounded integers)
    from harness.core import run_apalache
    ra = run_apalache("APA_LimitMaps")
    ck.parts["maps_unbounded"] = {"tool": "apalache-mc 0.58 (symbolic, unbounded integers)", "cmd": ra["cmd"], "outcome": ra["outcome"], "wall_s": ra["wall_s"],
                                  "covers": "all integer t and lo, widths 1..12: inside, identity, mirror at both limits, period 2W, momentum sign parity"}
    if not ra["ok"]:
        ck.violation("spec:MapLaws (unbounded, Apalache)", {"outcome": ra["outcome"]}, site="spec")
    rng = np.random.default_rng(seed())
    scales = [0, -20, -7, 11, 20] if tier == "quick" else list(range(-24, 25, 3))
    n = 0
    for case in r.printed:
        lo, hi, R = case["lo"], case["hi"], case["r"]
        ts = np.arange(lo - R, hi + R + 1, dtype=float)
        for s in scales:
            unit = 2.0 ** s
            for off_mult in (0, 1, -3, 2 ** 10):
                off = off_mult * unit * 8
                # 1-D Bounds applied to each t, and one vector call (n-D Bounds with the same box on every axis)
                b1 = Bounds(lower=np.array([lo * unit + off]), upper=np.array([hi * unit + off]))
                bn = Bounds(lower=np.full(ts.size, lo * unit + off), upper=np.full(ts.size, hi * unit + off))
                img_n = bn.reflect(ts * unit + off)
                img_m, sgn_m = bn.reflect_momenta(ts * unit + off)
                want = np.array(case["img"], dtype=float) * unit + off
                wsgn = np.array(case["sgn"], dtype=float)
                n += 1
                ck.case(("map", lo, hi, s, off_mult))
                if not (np.array_equal(img_n, want) and np.array_equal(img_m, want)):
                    bad = int(np.argmax((img_n != want) | (img_m != want)))
                    ck.violation("Reflect image", {"lo": lo, "hi": hi, "unit_log2": s, "offset": off, "t": ts[bad],
                                                    "want": want[bad], "got_reflect": img_n[bad],
                                                    "got_reflect_momenta": img_m[bad]}, site="Bounds.reflect")
                # momentum sign: compared off the walls only (on a wall either sign is a fold count parity artefact)
                offwall = ((ts - lo) % (hi - lo)) != 0
                if not np.array_equal(np.asarray(sgn_m, dtype=float)[offwall], wsgn[offwall]):
                    bad = int(np.argmax((np.asarray(sgn_m, dtype=float) != wsgn) & offwall))
                    ck.violation("momentum sign = (-1)^folds", {"lo": lo, "hi": hi, "unit_log2": s, "t": ts[bad],
                                                                 "want": wsgn[bad], "got": float(np.asarray(sgn_m)[bad])},
                                 site="Bounds.reflect_momenta")
                if off_mult == 0 and s in (0, scales[1]):
                    # single-point calls agree with the vector call
                    j = int(rng.integers(0, ts.size))
                    one = b1.reflect(np.array([ts[j] * unit + off]))
                    if not np.array_equal(one, want[j:j + 1]):
                        ck.violation("Reflect scalar/vector agreement", {"lo": lo, "hi": hi, "t": ts[j]},
                                     site="Bounds.reflect")
    # far overshoots (1e3 .. 1e17 interval widths) of boxes whose width is not a power of two: the image is inside the closed limits
    # (<= 4 ulp at the scale of the limits, the same measure LimitsTrace.tla uses), and where the fold count is still exact in doubles
    # (< 2^53) folding the image's mirror point gives the same image
    far = 0
    for lo_, w_ in ((-0.3, 0.9), (2.0, 0.3), (-1000.0, 3.7), (1e-3, 7e-4), (-5e5, 1.3e5)):
        hi_ = lo_ + w_
        b1 = Bounds(lower=np.array([lo_]), upper=np.array([hi_]))
        for k in (3, 6, 9, 11, 13, 15, 17):
            mult = rng.uniform(1.0, 9.0, size=40) * 10.0 ** k * rng.choice([-1.0, 1.0], size=40)
            ts_ = lo_ + mult * w_
            img = np.array([float(b1.reflect(np.array([t]))[0]) for t in ts_])
            img2, sg = zip(*[(float(a[0]), float(c[0])) for a, c in (b1.reflect_momenta(np.array([t])) for t in ts_)])
            far += ts_.size
            ck.case(("far", lo_, w_, k))
            exs = [_ulps_excess(v, lo_, hi_) for v in list(img) + list(img2)]
            if max(exs) > 4 or any(abs(c) != 1.0 for c in sg):
                j = int(np.argmax(exs)) % ts_.size
                ck.violation("Reflect image inside the closed limits however far the point overshoots (<= 4 ulp at the scale of the limits)",
                             {"lower": lo_, "upper": hi_, "t": float(ts_[j]), "overshoot_in_widths": float(mult[j]), "image": float(img[j]),
                              "image_reflect_momenta": float(img2[j]), "ulps_outside": int(max(exs))}, site="Bounds.reflect:far")
    ck.count("maps", "far_overshoot_probes", far)
    ck.count("maps", "impl_map_calls", n)
    ck.sample({"part": "maps", "box": [r.printed[0]["lo"], r.printed[0]["hi"]], "img_head": r.printed[0]["img"][:12]})


def _apply(chain, call, unit):
    kind, a, b = call
    with warnings.catch_warnings():
        warnings.simplefilter("ignore")
        if kind == "set":
            chain.set_boundaries(1, (a * unit, b * unit))
        elif kind == "remove":
            chain.set_boundaries(1, (0.0, 0.0), remove=True)
        elif kind == "nonneg":
            chain.set_non_negative(1, bool(a))
        elif kind == "nonnegbad":
            chain.set_non_negative(1, "yes")
        else:
            raise MachineryError(f"unknown call {kind}")


def _sm_part(ck, tier):
    from inference.mcmc.gibbs import GibbsChain, MetropolisChain
    calls = 3 if tier == "quick" else 5
    cfg = ("INIT LInit\nNEXT LNext\nCONSTANTS Boxes <- MCBoxes\n  MaxCalls = %d\n"
           "INVARIANT RegionNonEmpty\nINVARIANT InForceIsRegion\nINVARIANT ExportAll\n"
           "PROPERTY OthersUntouched\nCHECK_DEADLOCK FALSE\n" % calls)
    r = run_tlc("MC_LimitsSM", cfg_text=cfg, timeout=900)
    if r.violated:
        ck.violation("spec:LimitStateMachine", {"violated": r.violated}, site="spec")
    must_pass(r, "MC_LimitsSM")
    ck.tlc(r, "state_machine")
    if len(r.printed) != r.distinct:
        raise MachineryError(f"export lines {len(r.printed)} != distinct states {r.distinct}")
    W = 21
    window = list(range(-W, W + 1))
    tables = {}
    rng = np.random.default_rng(seed() + 1)
    hists = r.printed
    if tier == "thorough" and len(hists) > 9000:
        # every history up to length 4 plus a seeded sample of the length-5 ones
        short = [h for h in hists if len(h["hist"]) <= 4]
        long_ = [h for h in hists if len(h["hist"]) > 4]
        idx = rng.choice(len(long_), size=min(len(long_), 6000), replace=False)
        hists = short + [long_[i] for i in idx]
    units = [1.0] if tier == "quick" else [1.0, 2.0 ** -9, 2.0 ** 13]
    for h in hists:
        alo, ahi = h["alo"], h["ahi"]
        for cls in (GibbsChain, MetropolisChain):
            for unit in units:
                post = FlatLog()
                chain = cls(posterior=post, start=np.array([0.0, 0.0]), widths=np.array([unit, unit]),
                            display_progress=False)
                gens = [WalkGen(), WalkGen()]
                chain.rng = WalkGen()
                for p, g in zip(chain.params, gens):
                    p.rng = g
                    p.max_tries = 10 ** 9
                    p.chk_int = 10 ** 9
                for c in h["hist"]:
                    _apply(chain, c, unit)
                tab = []
                ok = True
                for t in window:
                    cur = chain.get_last()
                    gens[1].k = (t * unit - cur[1]) / unit
                    k0 = (t * 7) % 5 - 2
                    gens[0].k = k0
                    want0 = cur[0] + k0 * unit
                    post.evals.clear()
                    chain.take_step()
                    new = chain.get_last()
                    img = new[1] / unit
                    if not np.isfinite(img):
                        ck.violation("InForce (recorded sample / evaluated point inside every limit in force)",
                                     {"hist": h["hist"], "allowed": [alo, ahi], "t": t, "got": "not finite", "cls": cls.__name__, "unit": unit},
                                     site=f"{cls.__name__}.limits")
                        ok = False
                        break
                    if img != round(img):
                        ck.violation("proposal image on lattice", {"hist": h["hist"], "t": t, "image": new[1], "cls": cls.__name__},
                                     site=f"{cls.__name__}.proposal")
                        ok = False
                        break
                    tab.append(int(round(img)))
                    # the point handed to the posterior with the re-proposed coordinate, and the recorded sample
                    pts = [e[1] / unit for e in post.evals[-1:]] + [img]
                    for v in pts:
                        inside = (alo == NOLIM or v >= alo) and (ahi == NOLIM or v <= ahi)
                        if not inside:
                            ck.violation("InForce (recorded sample / evaluated point inside every limit in force)",
                                         {"hist": h["hist"], "allowed": [alo, ahi], "t": t, "got": v, "cls": cls.__name__,
                                          "unit": unit}, site=f"{cls.__name__}.limits")
                            ok = False
                    if new[0] != want0:
                        ck.violation("limit on one parameter leaves the others free",
                                     {"hist": h["hist"], "t": t, "param0_want": want0, "param0_got": new[0], "cls": cls.__name__},
                                     site=f"{cls.__name__}.limits")
                    ck.case()
                if ok and len(tab) == len(window):
                    tables.setdefault((alo, ahi, tuple(tab)), (h["hist"], cls.__name__))
                ck.nontrivial.add(("hist", tuple(map(tuple, h["hist"])), cls.__name__, unit))
    ck.count("state_machine", "histories_replayed", len(hists))
    ck.sample({"part": "state_machine", "history": hists[len(hists) // 2]["hist"],
               "allowed": [hists[len(hists) // 2]["alo"], hists[len(hists) // 2]["ahi"]]})
    # TLC evaluates the fold laws on the observed tables (section 2f)
    if tables:
        keys = sorted(tables)
        body = ",\n  ".join("[alo |-> %d, ahi |-> %d, tab |-> %s]" % (k[0], k[1], tla_val(list(k[2]))) for k in keys)
        mod = ("---- MODULE MC_LimitsObs ----\nEXTENDS LimitMaps\nVARIABLES i\n"
               "Tabs == <<\n  %s\n>>\nW == %d\nInit == i \\in 1..Len(Tabs)\nNext == UNCHANGED i\n"
               "Fn(k) == [t \\in -W..W |-> Tabs[k].tab[t + W + 1]]\n"
               "Laws == ObservedFoldLaws(Fn(i), Tabs[i].alo, Tabs[i].ahi, -W..W)\n====\n" % (body, W))
        cfgo = "INIT Init\nNEXT Next\nINVARIANT Laws\nCHECK_DEADLOCK FALSE\n"
        ro = run_tlc("MC_LimitsObs", cfg_text=cfgo, extra_files={"MC_LimitsObs.tla": mod}, workers=4)
        if ro.error:
            raise MachineryError("MC_LimitsObs: " + ro.error)
        ck.tlc(ro, "observed_fold_laws")
        ck.count("observed_fold_laws", "distinct_observed_tables", len(keys))
        if ro.violated:
            # find which table: re-check one at a time is cheap in Python only for reporting -> report via TLC state
            m = [ln for ln in ro.stdout.splitlines() if ln.startswith("i = ") or ln.startswith("/\\ i = ")]
            which = int(m[0].split("=")[1]) if m else 1
            k = keys[which - 1]
            ck.violation("ObservedFoldLaws (identity inside, symmetric fold outside) on the implementation's proposal map",
                         {"allowed": [k[0], k[1]], "history": tables[k][0], "cls": tables[k][1], "table_from_t=-21": list(k[2])},
                         site=f"{tables[k][1]}.proposal_map")


def _ulps_excess(v, lo, hi):
    """integer number of ulps (at the scale of the limits) by which v lies outside [lo, hi]; 0 if inside"""
    scale = max(abs(lo), abs(hi), np.finfo(float).tiny)
    u = np.spacing(scale)
    ex = max(lo - v, v - hi, 0.0)
    if not np.isfinite(ex):
        return 10 ** 6
    return int(min(math.ceil(ex / u), 10 ** 6))


class LogPost:
    def __init__(self, centre, scale, events, lo, hi, kind="Eval"):
        self.c, self.s, self.ev, self.lo, self.hi, self.kind = centre, scale, events, lo, hi, kind

    def __call__(self, x):
        x = np.asarray(x, dtype=float)
        self.ev.append({"ev": self.kind, "ex": [_ulps_excess(float(v), float(a), float(b)) for v, a, b in zip(x, self.lo, self.hi)]})
        return float(-0.5 * np.sum(((x - self.c) / self.s) ** 2))

    def grad(self, x):
        x = np.asarray(x, dtype=float)
        self.ev.append({"ev": "Grad", "ex": [_ulps_excess(float(v), float(a), float(b)) for v, a, b in zip(x, self.lo, self.hi)]})
        return -(x - self.c) / self.s ** 2


def _trace_part(ck, tier):
    """bounded PCA / HMC / ensemble with overshooting proposals; C->S trace validated by LimitsTrace.tla"""
    import json, os
    from inference.mcmc import PcaChain, HamiltonianChain, EnsembleSampler
    from inference.mcmc.utilities import Bounds
    from harness.core import scratch
    rng = np.random.default_rng(seed() + 2)
    nrun = 6 if tier == "quick" else 40
    steps = 12 if tier == "quick" else 30
    events = []
    runs = 0
    for run in range(nrun):
        n = int(rng.integers(1, 4))
        mag = 10.0 ** rng.uniform(-6, 6)
        lo = rng.normal(size=n) * mag
        if run % 3 == 0:
            lo = lo + mag * 1e4 * rng.choice([-1, 1])       # box thousands of widths from zero
        width = mag * 10.0 ** rng.uniform(-2, 0.5, size=n)
        hi = lo + width
        if run % 4 == 1:      # dyadic box (exact arithmetic case)
            lo = np.round(lo / mag * 8) / 8 * 1.0
            hi = lo + np.ceil(width / mag * 8 + 1) / 8
        for sampler in ("pca", "hmc", "hmc_fd", "ens", "hmc_edge"):
            ev = []
            start = lo + (hi - lo) * rng.uniform(0.05, 0.95, size=n)
            post = LogPost((lo + hi) / 2, (hi - lo) * 3.0, ev, lo, hi)
            ev.append({"ev": "Init", "sampler": sampler, "n": n})
            seedv = int(rng.integers(0, 2 ** 31))
            try:
                if sampler == "pca":
                    ch = PcaChain(posterior=post, start=start, widths=(hi - lo) * rng.uniform(2, 40), bounds=(lo, hi),
                                  display_progress=False)
                    ch.rng = np.random.default_rng(seedv)
                    for p in ch.params:
                        p.rng = np.random.default_rng(seedv + 1)
                    for _ in range(steps):
                        ch.take_step()
                        ev.append({"ev": "Commit", "ex": [_ulps_excess(v, a, b) for v, a, b in zip(ch.get_last(), lo, hi)]})
                elif sampler in ("hmc", "hmc_fd", "hmc_edge"):
                    if sampler == "hmc_edge":
                        # start exactly on the upper bound of every axis: allowed (closed limits)
                        start = hi.copy()
                    kw = dict(grad=post.grad) if sampler == "hmc" else {}
                    ch = HamiltonianChain(posterior=post, start=start, bounds=(lo, hi), epsilon=float(np.max(hi - lo)) * rng.uniform(0.3, 3),
                                          inverse_mass=None, display_progress=False, **kw)
                    ch.rng = np.random.default_rng(seedv)
                    ch.steps = 6
                    for _ in range(max(steps // 3, 3)):
                        ch.take_step()
                        ev.append({"ev": "Commit", "ex": [_ulps_excess(v, a, b) for v, a, b in zip(ch.get_last(), lo, hi)]})
                else:
                    nw = 2 * n + 3
                    sp = lo + (hi - lo) * rng.uniform(0.02, 0.98, size=(nw, n))
                    ch = EnsembleSampler(posterior=post, starting_positions=sp, alpha=float(rng.uniform(2, 30)), bounds=(lo, hi),
                                         display_progress=False)
                    ch.rng = np.random.default_rng(seedv)
                    ch.advance(max(steps // 3, 3))
                    for row in ch.get_sample():
                        ev.append({"ev": "Commit", "ex": [_ulps_excess(v, a, b) for v, a, b in zip(row, lo, hi)]})
            except ValueError as ex:
                if "maximum allowed attempts" in str(ex):
                    ev.append({"ev": "GaveUp"})
                else:
                    raise
            # limits stay in force across save / load: reload the sampler and keep stepping with overshooting proposals
            try:
                import os as _os
                from harness.core import scratch as _scratch
                fname = _os.path.join(_scratch("c04sv_"), "s.npz")
                ch.save(fname)
                ev.append({"ev": "Init", "sampler": sampler + "_reloaded", "n": n})
                if sampler == "pca":
                    ch2 = PcaChain.load(fname, posterior=post)
                elif sampler in ("hmc", "hmc_fd", "hmc_edge"):
                    ch2 = HamiltonianChain.load(fname, posterior=post, grad=(post.grad if sampler == "hmc" else None))
                else:
                    ch2 = EnsembleSampler.load(fname, posterior=post)
                ch2.rng = np.random.default_rng(seedv + 5)
                for p in getattr(ch2, "params", []) or []:
                    p.rng = np.random.default_rng(seedv + 6)
                if sampler == "ens":
                    ch2.advance(3)
                    for row in ch2.get_sample()[-3 * ch2.n_walkers:]:
                        ev.append({"ev": "Commit", "ex": [_ulps_excess(v, a, b) for v, a, b in zip(row, lo, hi)]})
                else:
                    for _ in range(4):
                        ch2.take_step()
                        ev.append({"ev": "Commit", "ex": [_ulps_excess(v, a, b) for v, a, b in zip(ch2.get_last(), lo, hi)]})
            except ValueError as ex:
                if "maximum allowed attempts" in str(ex):
                    ev.append({"ev": "GaveUp"})
                else:
                    raise
            runs += 1
            events += ev
            ck.nontrivial.add(("trace", run, sampler))
        # start-point validation: a start outside the box must be refused
        for nm, mk in (("pca", lambda s: PcaChain(posterior=post, start=s, bounds=(lo, hi), display_progress=False)),
                       ("hmc", lambda s: HamiltonianChain(posterior=post, start=s, grad=post.grad, bounds=(lo, hi), display_progress=False))):
            bad = hi + (hi - lo) * 0.5
            try:
                mk(bad)
                ck.violation("start outside the limits is refused", {"sampler": nm, "lo": lo, "hi": hi, "start": bad},
                             site=f"{nm}.validate_start")
            except ValueError:
                pass
            ck.case()
    d = scratch("c04tr_")
    path = os.path.join(d, "trace.ndjson")
    with open(path, "w") as fh:
        for e in events:
            fh.write(json.dumps(e) + "\n")
    r = run_tlc("LimitsTrace", workers=1, env={"TRACE_FILE": path}, timeout=600)
    if r.error:
        raise MachineryError("LimitsTrace: " + r.error)
    ck.tlc(r, "bounded_sampler_traces")
    ck.traces += runs
    ck.count("bounded_sampler_traces", "events", len(events))
    ck.sample({"part": "trace", "events_head": events[:4]})
    if r.violated:
        # locate first offending event for the replay file
        for i, e in enumerate(events):
            if "ex" in e and max(e["ex"]) > 4:
                j = i
                while events[j]["ev"] != "Init":
                    j -= 1
                ck.violation("evaluation point / recorded sample inside the bounds (<= 4 ulp)",
                             {"sampler": events[j]["sampler"], "event": e, "event_index": i},
                             site=f"{events[j]['sampler']}.{e['ev']}")
        if not ck.violations and not ck.known_hits:
            raise MachineryError("LimitsTrace rejected the trace but no offending event was found:\n" + r.stdout[-2000:])


def _gibbs_reload_part(ck, tier):
    """boundaries / non-negativity set on Gibbs-type parameters stay in force across save and load"""
    import os
    from inference.mcmc.gibbs import GibbsChain, MetropolisChain
    from harness.core import scratch
    d = scratch("c04gl_")
    for cls in (GibbsChain, MetropolisChain):
        for mode in ("box", "nonneg", "both"):
            post = FlatLog()
            chain = cls(posterior=post, start=np.array([1.0, 1.0]), widths=np.array([1.0, 1.0]), display_progress=False)
            if mode in ("box", "both"):
                chain.set_boundaries(1, (-2.0, 3.0))
            if mode in ("nonneg", "both"):
                chain.set_non_negative(1, True)
            alo = 0 if mode in ("nonneg", "both") else -2
            ahi = NOLIM if mode == "nonneg" else 3
            fname = os.path.join(d, f"{cls.__name__}_{mode}.npz")
            chain.save(fname)
            ch2 = cls.load(fname, posterior=post)
            gens = [WalkGen(), WalkGen()]
            ch2.rng = WalkGen()
            for p, g in zip(ch2.params, gens):
                p.rng = g
                p.max_tries = p.chk_int = 10 ** 9
            for t in range(-21, 22):
                cur = ch2.get_last()
                gens[1].k = t - cur[1]
                gens[0].k = 0.0
                post.evals.clear()
                ch2.take_step()
                v = ch2.get_last()[1]
                ck.case(("reload", cls.__name__, mode, t))
                if not ((alo == NOLIM or v >= alo) and (ahi == NOLIM or v <= ahi)) or any(
                        not ((alo == NOLIM or e[1] >= alo) and (ahi == NOLIM or e[1] <= ahi)) for e in post.evals[-1:]):
                    ck.violation("InForce after save / load (limits set on a parameter stay in force in the reloaded chain)",
                                 {"cls": cls.__name__, "limits": mode, "allowed": [alo, ahi], "t": t, "got": float(v)}, site=f"{cls.__name__}.limits:reload")
                    break


def _start_part(ck, tier, as_instance=False):
    """a starting point outside the limits given at construction: refused, or -- if accepted -- never recorded outside"""
    from inference.mcmc import EnsembleSampler, HamiltonianChain, PcaChain
    post = lambda x: -0.5 * float(np.sum((np.asarray(x, dtype=float) - 7.5) ** 2) / 0.01)      # peaked at the offending point: it would stay put
    lo, hi = np.array([-5.0, -5.0]), np.array([5.0, 5.0])
    from inference.mcmc.utilities import Bounds
    bnds = Bounds(lower=lo.copy(), upper=hi.copy()) if as_instance else (lo, hi)        # the limits as a (lower, upper) pair or as a ready-made Bounds object
    walkers = np.array([[0.0, 1.0], [1.0, -1.0], [-2.0, 2.0], [3.0, 0.5], [-1.0, -3.0], [2.0, 2.5]])
    for bad_walker in range(len(walkers)):
        w = walkers.copy()
        w[bad_walker] = [7.5, 7.5]
        ck.case(("start", "ensemble", bad_walker, as_instance))
        try:
            ch = EnsembleSampler(posterior=post, starting_positions=w, bounds=bnds, display_progress=False)
        except ValueError:
            continue                                        # refused: nothing is ever recorded
        except Exception as ex:
            ck.violation("EnsembleSampler raised an unexpected error for a start outside the bounds", {"walker": bad_walker, "error": repr(ex)[:200]},
                         site="EnsembleSampler.__init__")
            continue
        ch.advance(3)
        smp = np.asarray(ch.get_sample(), dtype=float)
        worst = max(_ulps_excess(float(v), float(a), float(b)) for row in smp for v, a, b in zip(row, lo, hi))
        if worst > 4:
            ck.violation("a walker started outside the bounds was accepted and recorded outside them",
                         {"walker_index": bad_walker, "start": w[bad_walker].tolist(), "bounds": [lo.tolist(), hi.tolist()], "ulps_outside": int(worst)},
                         site="EnsembleSampler.__init__:start")
    for cname, mk in (("HamiltonianChain", lambda st: HamiltonianChain(posterior=post, grad=lambda x: -(np.asarray(x) - 7.5) / 0.01, start=st, bounds=bnds,
                                                                       display_progress=False)),
                      ("PcaChain", lambda st: PcaChain(posterior=post, start=st, widths=np.array([0.1, 0.1]), bounds=bnds, display_progress=False))):
        for st in (np.array([7.5, 0.0]), np.array([0.0, 7.5])):
            ck.case(("start", cname, tuple(st), as_instance))
            try:
                ch = mk(st.copy())
            except ValueError:
                continue
            except Exception as ex:
                ck.violation("sampler raised an unexpected error for a start outside the bounds", {"class": cname, "error": repr(ex)[:200]}, site=f"{cname}.__init__")
                continue
            ch.advance(3)
            smp = np.asarray(ch.get_sample(burn=0), dtype=float)
            worst = max(_ulps_excess(float(v), float(a), float(b)) for row in smp for v, a, b in zip(row, lo, hi))
            if worst > 4:
                ck.violation("a start outside the bounds was accepted and recorded outside them", {"class": cname, "start": st.tolist(), "ulps_outside": int(worst)},
                             site=f"{cname}.__init__:start")


def _int_start_part(ck, tier):
    """walkers on whole-number coordinates given as an INTEGER array, limits that are not whole numbers: every recorded sample inside"""
    from inference.mcmc import EnsembleSampler
    post = lambda x: -0.5 * float(np.sum((np.asarray(x, dtype=float)) ** 2) / 0.3)           # peaked at 0, OUTSIDE both boxes: proposals head for the wall
    for label, lo, hi, w in (("lower", np.array([0.5, 0.5]), np.array([4.5, 4.5]), np.array([[1, 1], [2, 1], [1, 2], [3, 2], [2, 3], [4, 4], [1, 3]])),
                             ("upper", np.array([-4.5, -4.5]), np.array([-0.5, -0.5]), -np.array([[1, 1], [2, 1], [1, 2], [3, 2], [2, 3], [4, 4], [1, 3]]))):
        for dt in (np.int64, np.int32):
            ck.case(("int-start", label, np.dtype(dt).name))
            try:
                ch = EnsembleSampler(posterior=post, starting_positions=w.astype(dt), bounds=(lo, hi), display_progress=False)
                ch.rng = np.random.default_rng(seed() + 3)
                ch.advance(40)
                smp = np.asarray(ch.get_sample(), dtype=float)
                pos = np.asarray(ch.walker_positions, dtype=float)
            except Exception as ex:
                ck.violation("EnsembleSampler raised for whole-number starting positions given as an integer array", {"dtype": np.dtype(dt).name, "error": repr(ex)[:200]},
                             site="EnsembleSampler.__init__:dtype")
                continue
            worst = max(_ulps_excess(float(v), float(a), float(b)) for row in np.vstack([smp, pos]) for v, a, b in zip(row, lo, hi))
            if worst > 4:
                bad = [row.tolist() for row in smp if any(v < a or v > b for v, a, b in zip(row, lo, hi))][:3]
                ck.violation("InForce: recorded samples of an ensemble started from an integer array lie outside limits that are not whole numbers",
                             {"dtype": np.dtype(dt).name, "bounds": [lo.tolist(), hi.tolist()], "samples_outside": bad}, site="EnsembleSampler.__init__:dtype")


def _tiny_bounds_start_part(ck, tier):
    """limits of very small absolute size (1e-12): a start hundreds of interval widths outside is refused, or never recorded outside"""
    from inference.mcmc import HamiltonianChain, PcaChain
    lo, hi = np.array([1e-12, 1e-12]), np.array([3e-12, 3e-12])
    post = lambda x: -0.5 * float(np.sum((np.asarray(x, dtype=float) - 2e-12) ** 2)) * 1e24
    grad = lambda x: -(np.asarray(x, dtype=float) - 2e-12) * 1e24
    for cname, mk in (("PcaChain", lambda st: PcaChain(posterior=post, start=st, widths=np.array([1e-12, 1e-12]), bounds=(lo, hi), display_progress=False)),
                      ("HamiltonianChain", lambda st: HamiltonianChain(posterior=post, grad=grad, start=st, epsilon=1e-13, bounds=(lo, hi), display_progress=False))):
        st = np.array([5e-10, 2e-12])
        ck.case(("tiny-start", cname))
        try:
            ch = mk(st.copy())
        except ValueError:
            continue
        except Exception as ex:
            ck.violation("sampler raised an unexpected error for a start outside tiny bounds", {"class": cname, "error": repr(ex)[:200]}, site=f"{cname}.__init__")
            continue
        smp = np.asarray(ch.get_sample(burn=0), dtype=float)
        worst = max(_ulps_excess(float(v), float(a), float(b)) for row in smp for v, a, b in zip(row, lo, hi))
        if worst > 4:
            ck.violation("a start outside the bounds was accepted and recorded outside them", {"class": cname, "bounds": [lo.tolist(), hi.tolist()], "start": st.tolist()},
                         site=f"{cname}.__init__:start")


def _fresh_reload_part(ck, tier):
    """limits given at construction stay in force for a sampler that is saved BEFORE its first step, reloaded and then advanced
    (the posterior peaks outside the box, so unconstrained moves would leave it)"""
    import tempfile, io, contextlib
    from inference.mcmc import EnsembleSampler, HamiltonianChain, PcaChain
    post = lambda x: -0.5 * float(np.sum((np.asarray(x, dtype=float) - 9.0) ** 2))
    grad = lambda x: -(np.asarray(x, dtype=float) - 9.0)
    lo, hi = np.array([-5.0, -5.0]), np.array([5.0, 5.0])
    walkers = np.array([[0.0, 1.0], [1.0, -1.0], [-2.0, 2.0], [3.0, 0.5], [-1.0, -3.0], [2.0, 2.5]])
    makers = {"EnsembleSampler": lambda: EnsembleSampler(posterior=post, starting_positions=walkers.copy(), bounds=(lo, hi), display_progress=False),
              "PcaChain": lambda: PcaChain(posterior=post, start=np.array([0.0, 1.0]), widths=np.array([2.0, 2.0]), bounds=(lo, hi), display_progress=False),
              "HamiltonianChain": lambda: HamiltonianChain(posterior=post, grad=grad, start=np.array([0.0, 1.0]), epsilon=0.5, bounds=(lo, hi), display_progress=False)}
    for cname, mk in makers.items():
        ck.case(("fresh-reload", cname))
        try:
            ch = mk()
            with tempfile.TemporaryDirectory() as d, contextlib.redirect_stdout(io.StringIO()):
                ch.save(d + "/c.npz")
                ch2 = type(ch).load(d + "/c.npz", posterior=post, **({"grad": grad} if cname == "HamiltonianChain" else {}))
                ch2.advance(8 if cname == "EnsembleSampler" else 40)
            smp = np.asarray(ch2.get_sample() if cname == "EnsembleSampler" else ch2.get_sample(burn=0), dtype=float)
        except Exception as ex:
            ck.violation("save before the first step / load / advance raised", {"class": cname, "error": repr(ex)[:300]}, site=f"{cname}.load")
            continue
        worst = max(_ulps_excess(float(v), float(a), float(b)) for row in smp for v, a, b in zip(row, lo, hi))
        if worst > 4:
            ck.violation("limits given at construction are still in force after save (before the first step), load and advance",
                         {"class": cname, "bounds": [lo.tolist(), hi.tolist()], "samples_outside": int(np.sum(np.any((smp < lo) | (smp > hi), axis=1))),
                          "of": int(len(smp))}, site=f"{cname}.save:limits")


def run(tier):
    ck = Check("C04", tier)
    ck.rule = ("maps: one case per (box, dyadic scale, offset) with 2R+W+1 points each; state machine: one case per "
               "(TLC-enumerated call history, sampler class, unit), each tabulating the proposal map over 43 lattice points; "
               "traces: one per (random box, bounded sampler) run; non-trivial = distinct such tuples")
    ck.assumptions = ["lattice units are powers of two, so float arithmetic on them is exact",
                      "float excess is measured in ulps at the scale of the limits by the projection (allowance 4 ulp)",
                      "a coordinate is held to a limit from the first time it is re-proposed after the limit was set"]
    _maps_part(ck, tier)
    _sm_part(ck, tier)
    _trace_part(ck, tier)
    _gibbs_reload_part(ck, tier)
    # Hamiltonian trajectories: the momentum component is reversed exactly when its coordinate was folded an odd number of times --
    # the exact bounded orbits of Leapfrog.tla replayed bit-exactly into run_leapfrog (positions AND momenta)
    from harness import c07
    c07.orbit_part(ck, tier, only_box=True, reversibility=False)
    _start_part(ck, tier)
    _start_part(ck, tier, as_instance=True)
    _tiny_bounds_start_part(ck, tier)
    _int_start_part(ck, tier)
    _fresh_reload_part(ck, tier)
    from harness import repotests
    repotests.run_part(ck, "C04")          # traces of the repository's own MCMC tests, judged by TestRunTrace.tla
    return ck.finish()
