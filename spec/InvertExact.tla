----------------------------- MODULE InvertExact -----------------------------
(***************************************************************************)
(* C17 -- GP linear inversion: the exact linear-Gaussian posterior.         *)
(* Prior x ~ N(m, K) on parameters at given positions (K from               *)
(* KernelExact.tla), likelihood y ~ N(A x, S) with integer model matrix A   *)
(* and S = diag(s2):                                                        *)
(*    J     = A K A' + S                                                    *)
(*    Sigma = K - K A' J^-1 A K          (valid for singular K or A)         *)
(*    mu    = m + K A' J^-1 (y - A m)                                       *)
(*    evidence = -1/2 r' J^-1 r - 1/2 ln det J,   r = y - A m               *)
(*    d evidence / d theta = 1/2 tr((a a' - J^-1) A dK A'),  a = J^-1 r      *)
(*    d evidence / d beta  = a' A dm                                        *)
(***************************************************************************)
EXTENDS KernelExact
IntMat(A) == [i \in 1..Len(A) |-> [j \in 1..Len(A[1]) |-> RInt(A[i][j])]]
Diag(v) == [i \in 1..Len(v) |-> [j \in 1..Len(v) |-> IF i = j THEN v[i] ELSE RZero]]
InvContext(pb) ==
    LET K == BuildMatrix(pb.kern, pb.pos)
        A == IntMat(pb.A)
        m == [i \in 1..Len(pb.pos) |-> MeanAt(pb.mean, pb.pos, pb.pos[i])]
        KAt == RMatMul(K, RTranspose(A))
        J == RMatAdd(RMatMul(A, KAt), Diag(pb.s2))
        iJ == RInverse(J)
        r == [i \in 1..Len(pb.y) |-> RSub(RInt(pb.y[i]), RDot(A[i], m))]
        G == RMatMul(KAt, iJ)                                    \* gain K A' J^-1
    IN [K |-> K, A |-> A, m |-> m, J |-> J, iJ |-> iJ, r |-> r, G |-> G, a |-> RMatVec(iJ, r)]
PostMean(cx) == [i \in 1..Len(cx.m) |-> RAdd(cx.m[i], RDot(cx.G[i], cx.r))]
PostCov(cx) == RMatSub(cx.K, RMatMul(cx.G, RMatMul(cx.A, cx.K)))
Evidence(cx) == SAdd(SRat(RMul(<<-1, 2>>, RDot(cx.r, cx.a))), SLn(<<-1, 2>>, RDet(cx.J)))
Contract(c, S) == SSum([i \in 1..Len(c) |-> SSum([j \in 1..Len(c[1]) |-> SScale(c[i][j], S[i][j])], Len(c[1]))], Len(c))
\* d/dtheta_p: 1/2 SUM_ij Q_ij (A dK A')_ij = SUM_ab [1/2 (A' Q A)_ab] dK_ab
EvidenceGradCov(cx, pb) ==
    LET n == Len(cx.r)
        Q == [i \in 1..n |-> [j \in 1..n |-> RMul(<<1, 2>>, RSub(RMul(cx.a[i], cx.a[j]), cx.iJ[i][j]))]]
        C == RMatMul(RTranspose(cx.A), RMatMul(Q, cx.A))
        dK == GradMatrices(pb.kern, pb.pos)
    IN [p \in 1..Len(dK) |-> Contract(C, dK[p])]
EvidenceGradMean(cx, pb) == [b \in 1..Len(pb.mean.th) |->
        RDot(cx.a, RMatVec(cx.A, [i \in 1..Len(pb.pos) |-> MeanGrads(pb.mean, pb.pos, pb.pos[i])[b]]))]
\* properties of the reference: symmetric, positive semi-definite (principal minors >= 0), no larger than the prior
NonNeg(q) == q[1] >= 0
PSD2(Mx) == \A k \in 1..Len(Mx) : NonNeg(RDet(RLeading(Mx, k)))
CovOK(cx) == RSymmetric(PostCov(cx))
=============================================================================
