------------------------------- MODULE Readout -------------------------------
(***************************************************************************)
(* C14 -- burn / thin / interval read-outs select exactly the documented    *)
(* samples.  A chain is the sequence of row ids 0..n-1.                     *)
(***************************************************************************)
EXTENDS Integers, Sequences, FiniteSets, TLC
\* ids burn, burn+thin, burn+2 thin, ... below n  (as a sequence)
RECURSIVE SelFrom(_, _, _)
SelFrom(i, n, thin) == IF i >= n THEN <<>> ELSE <<i>> \o SelFrom(i + thin, n, thin)
Select(n, burn, thin) == SelFrom(burn, n, thin)
\* number retained = max(0, ceil((n - burn) / thin))
Count(n, burn, thin) == IF burn >= n THEN 0 ELSE (n - burn + thin - 1) \div thin
ToSet(s) == {s[i] : i \in 1..Len(s)}
\* ---- highest-density read-out (get_interval), stated as a predicate on what was returned -----------------
\* rank[id+1] = rank of row id by log-probability in the full chain (higher = more probable, all distinct)
\* f8 = requested fraction in eighths; m = requested count (0: none); ids = returned row ids (in returned order);
\* pids = for each returned probability the id of the row it belongs to; ndim = dimensions of the returned sample array
\* rank may hold TIES (equal log-probabilities have equal rank); the top fraction drops floor(n'(1-f)) rows none of which is more probable
\* than a row that is kept -- with all ranks distinct there is exactly one such set, Top
Top(sel, rank, f8) ==
    LET np == Len(sel)  drop == (np * (8 - f8)) \div 8
        worse(i) == Cardinality({j \in 1..np : rank[sel[j] + 1] < rank[sel[i] + 1]})
    IN {sel[i] : i \in {i \in 1..np : worse(i) >= drop}}
Drop(sel, f8) == (Len(sel) * (8 - f8)) \div 8
IsTop(sel, rank, f8, R) ==      \* R is A top fraction of sel
    /\ R \subseteq ToSet(sel) /\ Cardinality(R) = Len(sel) - Drop(sel, f8)
    /\ \A a \in R, b \in ToSet(sel) \ R : rank[b + 1] <= rank[a + 1]
InSomeTop(sel, rank, f8, R) ==  \* R is part of SOME top fraction of sel: R and every row strictly more probable than R's least probable fit
    /\ R \subseteq ToSet(sel)
    /\ (R # {} => LET w == CHOOSE x \in {rank[a + 1] : a \in R} : \A a \in R : rank[a + 1] >= x
                      must == R \cup {b \in ToSet(sel) : rank[b + 1] > w}
                  IN Cardinality(must) <= Len(sel) - Drop(sel, f8))
IntervalOK(n, burn, thin, f8, m, rank, ids, pids, ndim) ==
    /\ ndim = 2                                                    \* always a two-dimensional array
    /\ Len(ids) = Len(pids) /\ \A i \in 1..Len(ids) : ids[i] = pids[i]          \* rows come with their own log-probabilities
    /\ Cardinality(ToSet(ids)) = Len(ids)                          \* no row twice
    /\ IF m = 0 THEN IsTop(Select(n, burn, thin), rank, f8, ToSet(ids))         \* every row of the top fraction
       ELSE /\ Len(ids) <= m                                        \* at most the requested size
            /\ \E t \in 1..(IF n > 1 THEN n ELSE 1) :               \* the derived thinning is free (DESIGN 2a)
                  InSomeTop(Select(n, burn, t), rank, f8, ToSet(ids))
            /\ (Len(Select(n, burn, 1)) - Drop(Select(n, burn, 1), f8) > 0 => Len(ids) >= 1)
\* with distinct ranks the generalised predicates are the old ones (checked by MC_Readout on every enumerated selection)
TopAgrees(sel, rank, f8) == IsTop(sel, rank, f8, Top(sel, rank, f8))
=============================================================================
