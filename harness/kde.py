"""KdeExact.tla: exploration and replay into GaussianKDE (shared by C12 and C19)."""
import json
import math
import os
import warnings
import numpy as np

from harness.core import run_tlc, must_pass, seed, scratch, MachineryError
from harness import symlin as SL


def explore(ck, mode, nlev, cset, kvals, label):
    r = run_tlc("MC_KdeExact", cfg_text='INIT Init\nNEXT Next\nCONSTANTS NLev = %d Mode = "%s"\n CSet <- %s\n KVals <- %s\nINVARIANT Ref\n'
                                        'CHECK_DEADLOCK FALSE\n' % (nlev, mode, cset, kvals), timeout=1800)
    if r.violated:
        ck.violation("spec: KdeExact", {"violated": r.violated}, site="spec")
    must_pass(r, "MC_KdeExact " + label)
    ck.tlc(r, label)
    return r.printed


def expand(hs, factor=1):
    out = []
    for i, c in enumerate(hs["cnt"]):
        out += [float(hs["lo"] + i)] * (c * factor)
    return np.array(out)


def bandwidth(k):
    return 2.0 ** k / math.sqrt(2.0)


def make(sample, **kw):
    from inference.pdf.kde import GaussianKDE
    with warnings.catch_warnings(), np.errstate(all="ignore"):
        warnings.simplefilter("ignore")
        return GaussianKDE(sample, **kw)


# ------------------------------------------------------------------------------------------------ C12 parts

def values_part(ck, tier):
    """closed-form density / cumulative function on small samples: one-sided explicit truncation band"""
    rng = np.random.default_rng(seed() + 13)
    cases = explore(ck, "values", 4 if tier == "quick" else 5, "MCCa", "MCKa", "kde_values")
    cases += explore(ck, "values", 2, "MCCa", "MCKb", "kde_values_wide_bandwidth")
    # two clusters separated by an empty stretch of many bandwidths (evaluation points inside the gap)
    cases += explore(ck, "gap", 12 if tier == "quick" else 16, "MCCa", "MCKg", "kde_values_gap")
    for c in cases:
        hs, k = c["hs"], c["k"]
        sample = expand(hs)
        h = bandwidth(k)
        ident = {"sample": sample.tolist(), "bandwidth": h}
        ck.case((json.dumps(hs), k))
        try:
            kde = make(rng.permutation(sample), bandwidth=h)
        except Exception as ex:
            ck.violation("GaussianKDE construction raised for a non-degenerate sample and a valid bandwidth", {**ident, "error": repr(ex)[:200]},
                         site="GaussianKDE.__init__")
            continue
        xs = np.array([x[0] / x[1] for x in c["xs"]])
        want_p = np.array([SL.value(v) for v in c["pdf"]])
        want_c = np.array([SL.value(v) for v in c["cdf"]])
        peak = SL.value(c["peak"])
        got_p = np.asarray(kde(xs), dtype=float)
        got_c = np.asarray(kde.cdf(xs), dtype=float)
        d = want_p - got_p
        if got_p.shape != want_p.shape or np.any(got_p < 0) or np.any(d < -1e-12 * peak) or np.any(d > 2.5e-3 * peak):
            j = int(np.argmax(np.abs(d))) if got_p.shape == want_p.shape else 0
            ck.violation("density: non-negative and within the explicit truncation band 0 <= exact - estimate <= 2.5e-3 kernel peaks of the exact KDE",
                         {**ident, "x": xs[j], "exact": want_p[j], "got": float(got_p[j]) if got_p.shape == want_p.shape else None,
                          "band_in_kernel_peaks": float(d[j] / peak) if got_p.shape == want_p.shape else None}, site="GaussianKDE.__call__")
        dc = got_c - want_c
        if got_c.shape != want_c.shape or np.any(np.abs(dc) > 5e-4) or np.any(np.diff(got_c) < -1e-12) or got_c[0] > 5e-4 or got_c[-1] < 1 - 5e-4:
            j = int(np.argmax(np.abs(dc))) if got_c.shape == want_c.shape else 0
            ck.violation("cumulative function: within 5e-4 of the exact mixture cdf, non-decreasing, rising from 0 to 1",
                         {**ident, "x": xs[j], "exact": want_c[j], "got": float(got_c[j]) if got_c.shape == want_c.shape else None,
                          "first": float(got_c[0]), "last": float(got_c[-1])}, site="GaussianKDE.cdf")
        # scalar and array inputs agree; order of the evaluation points and of the sample does not matter
        j = int(rng.integers(0, xs.size))
        perm = rng.permutation(xs.size)
        kde2 = make(sample[::-1].copy(), bandwidth=h)
        kde3 = make(sample.astype(int), bandwidth=h)            # whole-number sample given as an integer array
        if sample.size % 2 == 0:
            # the same values handed over as a 2-D array (two stacked chains) and as a nested list
            for form in (sample.reshape(2, -1), sample.reshape(2, -1).tolist()):
                kde4 = make(form, bandwidth=h)
                if not (np.array_equal(np.asarray(kde4(xs), dtype=float), got_p) and np.array_equal(np.asarray(kde4.cdf(xs), dtype=float), got_c)):
                    ck.violation("a sample given as a 2-D array / nested list gives the estimate of the flattened sample",
                                 {**ident, "x": xs[len(xs) // 2], "pdf_flat": got_p[len(xs) // 2], "pdf_2d": float(np.asarray(kde4(xs))[len(xs) // 2]),
                                  "cdf_last_flat": got_c[-1], "cdf_last_2d": float(np.asarray(kde4.cdf(xs))[-1])}, site="GaussianKDE.__init__:sample-shape")
                    break
        if not (np.array_equal(np.asarray(kde3(xs), dtype=float), got_p) and np.array_equal(np.asarray(kde3.cdf(xs), dtype=float), got_c)):
            ck.violation("an integer-typed sample gives the same estimate as the equal float sample", {**ident, "x": xs[j]}, site="GaussianKDE.dtype:sample")
        ok = (float(kde(xs[j])) == got_p[j] and float(kde.cdf(xs[j])) == got_c[j] and np.array_equal(np.asarray(kde(xs[perm])), got_p[perm])
              and np.array_equal(np.asarray(kde.cdf(xs[perm])), got_c[perm]) and np.array_equal(np.asarray(kde2(xs)), got_p)
              and np.array_equal(np.asarray(kde2.cdf(xs)), got_c))
        if not ok:
            ck.violation("results independent of the order of the sample and of the evaluation points; scalar and array inputs agree",
                         {**ident, "x": xs[j]}, site="GaussianKDE.order")
        # evaluation points enormously far outside the data, and infinite ones: no density there, cdf 0 on the left and 1 on the right
        far = np.array([-np.inf, -1e300, -1e30, -1e12, 1e12, 1e30, 1e300, np.inf])
        with np.errstate(all="ignore"):
            p_far, c_far = np.asarray(kde(far), dtype=float), np.asarray(kde.cdf(far), dtype=float)
            c_one = [float(kde.cdf(float(v))) for v in far]
        want_far = np.array([0, 0, 0, 0, 1, 1, 1, 1], dtype=float)
        if not (np.array_equal(p_far, np.zeros(8)) and np.all(np.abs(c_far - want_far) <= 1e-12) and np.all(np.abs(np.array(c_one) - want_far) <= 1e-12)
                and np.all(np.diff(c_far) >= 0)):            # (1 up to rounding of the sum of n terms 1/n)
            ck.violation("far outside the data range the density is 0 and the cumulative function is 0 on the left, 1 on the right (non-decreasing)",
                         {**ident, "points": far, "pdf": p_far, "cdf": c_far, "cdf_scalar_calls": c_one}, site="GaussianKDE.cdf:far")
        # one work array re-filled IN PLACE between two evaluations (the same array object, other points): the values at its current content
        buf = xs.copy()
        kde(buf)
        buf[:] = xs[perm]
        p_b = np.asarray(kde(buf), dtype=float)
        buf[:] = xs[::-1]
        c_b = np.asarray(kde.cdf(buf), dtype=float)
        kde.cdf(buf)
        buf[:] = xs
        p_c = np.asarray(kde(buf), dtype=float)
        if not (np.array_equal(p_b, got_p[perm]) and np.array_equal(c_b, got_c[::-1]) and np.array_equal(p_c, got_p)):
            ck.violation("evaluation at the current content of an array of points that the caller re-filled in place between calls",
                         {**ident, "x": xs[j]}, site="GaussianKDE.order:reused-array")
        # integer-typed evaluation points (arrays and Python ints) give the same values as the equal floats
        ints = np.arange(int(xs.min()), int(xs.max()) + 1)
        pf, cf = np.asarray(kde(ints.astype(float))), np.asarray(kde.cdf(ints.astype(float)))
        pi_, ci_ = np.asarray(kde(ints), dtype=float), np.asarray(kde.cdf(ints), dtype=float)
        i0 = int(ints[len(ints) // 2])
        if not (np.array_equal(pi_, pf) and np.array_equal(ci_, cf) and float(kde(i0)) == float(kde(float(i0)))
                and float(kde.cdf(i0)) == float(kde.cdf(float(i0)))):
            ck.violation("scalar / array and integer / float evaluation points agree", {**ident, "x": i0, "cdf_int": float(kde.cdf(i0)),
                                                                                          "cdf_float": float(kde.cdf(float(i0)))},
                         site="GaussianKDE.dtype")
        if len(ck.samples) < 2 and len(sample) >= 5:
            ck.sample({**ident, "x": xs[len(xs) // 2], "exact_pdf": want_p[len(xs) // 2], "exact_cdf": want_c[len(xs) // 2]})
    ck.traces += len(cases)


def covariance_part(ck, tier):
    """x -> a x + b rescales and shifts the estimate, for the user / rule-of-thumb / cross-validated bandwidth"""
    rng = np.random.default_rng(seed() + 14)
    events, idents = [], []
    ncase = 8 if tier == "quick" else 60
    for case in range(ncase):
        n = int(rng.integers(30, 160))
        kind = case % 3
        if kind == 0:
            s = rng.normal(size=n)
        elif kind == 1:
            s = np.concatenate([rng.normal(-2, 0.5, size=n // 2), rng.normal(1.5, 1.0, size=n - n // 2)])
        else:
            s = rng.standard_t(3, size=n)
        s = np.round(s * 64) / 64               # ties and exact binary scaling
        # the last two shifts put the data ~1e7 spreads from zero (still exactly representable: the sample is a multiple of 1/64)
        # (2^-40: data of nanometre size in metres; the last map is held as 64-bit integers -- time-stamps of spread ~2^38 around 1.7e18 -- and queried at integer points)
        for a_log2, b in ((-10, 0.0), (-40, 0.0), (7, 0.0), (0, 37.0), (12, 5.0 * 2 ** 12), (-4, -1000.0), (0, 2.0 ** 24), (0, -(2.0 ** 26)), (36, "int")):
            a = 2.0 ** a_log2
            as_int = b == "int"
            if as_int:
                b = 0.0
                t0 = 1_700_000_000_000_000_000
                t = (s * 64).astype(np.int64) * np.int64(2 ** 30) + np.int64(t0)
            else:
                t = a * s + b
            for mode in ("user", "rule", "cv"):
                ident = {"case": case, "n": n, "shape": ["normal", "bimodal", "heavy-tailed"][kind], "a": a, "b": b, "bandwidth_mode": mode,
                         "held_as": "int64 sample and int64 query points, offset 1.7e18" if as_int else "float64"}
                try:
                    if mode == "user":
                        k1, k2 = make(s, bandwidth=0.3), make(t, bandwidth=0.3 * a)
                    elif mode == "rule":
                        k1, k2 = make(s), make(t)
                    else:
                        if n > 90 or a_log2 == 7 or (a_log2 == 0 and abs(b) < 1e6) or as_int:
                            continue
                        k1, k2 = make(s, cross_validation=True), make(t, cross_validation=True)
                except Exception as ex:
                    ck.violation("GaussianKDE construction raised on rescaled / shifted data", {**ident, "error": repr(ex)[:200]},
                                 site="GaussianKDE.bandwidth:" + mode)
                    continue
                ck.case(("cov", case, a_log2, b, mode))
                q = np.linspace(s.min() - 1.0, s.max() + 1.0, 41)
                if as_int:
                    q = np.round(q * 2 ** 20) / 2 ** 20
                    tq = (q * 2 ** 20).astype(np.int64) * np.int64(2 ** 16) + np.int64(t0)
                else:
                    tq = a * q + b
                p1, p2 = np.asarray(k1(q)), np.asarray(k2(tq))
                c1, c2 = np.asarray(k1.cdf(q)), np.asarray(k2.cdf(tq))
                herr = abs(k2.h / (a * k1.h) - 1.0)
                perr = float(np.max(np.abs(p2 * a - p1)) / np.max(p1))
                cerr = float(np.max(np.abs(c2 - c1)))
                events.append({"mode": mode, "h_err_e9": int(min(herr * 1e9, 2 ** 30)), "pdf_err_e9": int(min(perr * 1e9, 2 ** 30)),
                               "cdf_err_e9": int(min(cerr * 1e9, 2 ** 30))})
                idents.append({**ident, "h": k1.h, "h_scaled": k2.h, "h_rel_err": herr, "pdf_rel_err": perr, "cdf_err": cerr})
    d_ = scratch("kdecov_")
    path = os.path.join(d_, "trace.ndjson")
    with open(path, "w") as fh:
        for e in events:
            fh.write(json.dumps(e) + "\n")
    rt = run_tlc("KdeCovTrace", workers=1, env={"TRACE_FILE": path}, timeout=300)
    if rt.error or rt.violated or any("REJECTED" in x for x in rt.raw_printed):
        raise MachineryError("KdeCovTrace: %s %s" % (rt.error, rt.violated))
    ck.tlc(rt, "kde_affine_covariance")
    import re
    bad = sorted({int(m.group(1)) - 1 for x in rt.raw_printed for m in [re.match(r'<<"BAD", (\d+)>>', x)] if m})
    for i in bad[:60]:
        ck.violation("rescaling or shifting the data rescales and shifts the estimate (bandwidth a*h, pdf(a t + b) = pdf(t)/a, same cdf)",
                     idents[i], site="GaussianKDE.bandwidth:" + idents[i]["bandwidth_mode"])
    ck.traces += len(events)


# ------------------------------------------------------------------------------------------------ C19 parts

AFFINE = [(0, 0.0), (-20, 0.0), (20, 0.0), (0, 1.0e6), (3, -4.0e4), (-10, 7.0)]        # (log2 a, b in units of the data's std)


def moments_part(ck, tier):
    cases = explore(ck, "moments", 5, "MCCm", "MCKm", "kde_moments_5")
    if tier == "thorough":
        cases += explore(ck, "moments", 7, "MCCm", "MCKm", "kde_moments_7")
    rng = np.random.default_rng(seed() + 15)
    interval_events, interval_idents = [], []
    cases = sorted(cases, key=lambda c: (json.dumps(c["hs"]), c["k"]))          # (TLC's workers print in no fixed order: the selection below must not depend on it)
    for ci, c in enumerate(cases):
        hs, k = c["hs"], c["k"]
        factor = int(rng.choice([3, 12, 60])) if tier == "thorough" else 3
        base = expand(hs, factor)
        h = bandwidth(k)
        M, V = c["mean"][0] / c["mean"][1], c["var"][0] / c["var"][1]
        S, Ku = SL.value(c["skew"]), c["kurt"][0] / c["kurt"][1]
        sd = math.sqrt(V)
        results = {}
        for a_log2, b_sd in (AFFINE if (tier == "thorough" or ci % 4 == 0) else [AFFINE[0], AFFINE[1], AFFINE[3]]):
            a = 2.0 ** a_log2
            b = b_sd * sd * a
            sample = a * base + b
            ident = {"histogram": hs, "copies": factor, "n": int(base.size), "bandwidth": h * a, "a": a, "b": b}
            ck.case((json.dumps(hs), k, a_log2, b_sd))
            try:
                kde = make(sample, bandwidth=h * a)
                with np.errstate(all="ignore"):
                    mu, var, skw, kur = (float(v) for v in kde.moments())
            except Exception as ex:
                ck.violation("GaussianKDE / moments raised", {**ident, "error": repr(ex)[:200]}, site="GaussianKDE.moments")
                continue
            results[(a_log2, b_sd)] = (mu, var, skw, kur, kde)
            wm, wv = a * M + b, a * a * V
            bad = []
            # the property's proviso: the estimated density carries negligible probability outside the estimator's own integration range
            lo_lim, hi_lim = getattr(kde, "lwr_limit", None), getattr(kde, "upr_limit", None)
            if lo_lim is not None and hi_lim is not None:
                lv = a * (hs["lo"] + np.arange(len(hs["cnt"]))) + b
                w = np.array(hs["cnt"], dtype=float) / sum(hs["cnt"])
                out = float(np.sum(w * (0.5 * (1 + np.vectorize(math.erf)((lo_lim - lv) / (h * a * math.sqrt(2))))
                                        + 0.5 * (1 - np.vectorize(math.erf)((hi_lim - lv) / (h * a * math.sqrt(2)))))))
                if out > 2e-4:
                    ck.count("kde_moments", "skipped_by_proviso_mass_outside_range", 1)
                    continue
            if not abs(mu - wm) <= 5e-3 * a * sd:
                bad.append(("mean", wm, mu, abs(mu - wm) / (a * sd)))
            if not abs(var / wv - 1.0) <= 1e-2:
                bad.append(("variance", wv, var, abs(var / wv - 1.0)))
            if not abs(skw - S) <= 2e-2:
                bad.append(("skewness", S, skw, abs(skw - S)))
            if not abs(kur - Ku) <= 5e-2:
                bad.append(("excess kurtosis", Ku, kur, abs(kur - Ku)))
            for nm, w, g, e in bad:
                ck.violation(f"{nm} of the estimated density itself (closed form of the Gaussian mixture; locations in units of the data's own std)",
                             {**ident, "moment": nm, "want": w, "got": g, "error_in_scale_units": e}, site="GaussianKDE.moments")
            # mode: a point of maximal estimated density
            grid = np.concatenate([sample, 0.5 * (np.unique(sample)[1:] + np.unique(sample)[:-1])])
            pm = float(kde(kde.mode))
            pmax = float(np.max(kde(np.unique(grid))))
            if not pm >= pmax * (1 - 1e-3):
                ck.violation("mode is a point of maximal estimated density", {**ident, "mode": float(kde.mode), "density_at_mode": pm, "max_on_grid": pmax},
                             site="GaussianKDE.mode")
        # covariance between two runs of the same histogram
        if (0, 0.0) in results:
            m0, v0, s0, k0, kde0 = results[(0, 0.0)]
            for (a_log2, b_sd), (m1, v1, s1, k1, kde1) in results.items():
                a = 2.0 ** a_log2
                b = b_sd * sd * a
                if (a_log2, b_sd) == (0, 0.0):
                    continue
                tol = 1e-6
                bad = []
                if abs(m1 - (a * m0 + b)) > tol * a * sd:
                    bad.append("mean")
                if abs(v1 / (a * a * v0) - 1) > tol:
                    bad.append("variance")
                if abs(s1 - s0) > tol or abs(k1 - k0) > tol:
                    bad.append("shape moments")
                # the mode may be any point of maximal density (several equal peaks are possible): compare the density reached
                if abs(a * float(kde1(kde1.mode)) / float(kde0(kde0.mode)) - 1.0) > 2e-3:      # same band as the maximality check
                    bad.append("density at the mode")
                # a pure rescaling by a power of two leaves every comparison of the search unchanged: the same peak is reported, rescaled
                if b_sd == 0.0 and abs(float(kde1.mode) / a - float(kde0.mode)) > 1e-4 * float(kde0.h):
                    bad.append("location of the mode (rescaling only): %.6g against %.6g, bandwidth %.3g" % (float(kde1.mode) / a, float(kde0.mode), float(kde0.h)))
                if bad:
                    ck.violation("covariance under x -> a x + b: locations shift and scale, variance scales quadratically, shape moments unchanged",
                                 {"histogram": hs, "copies": factor, "a": a, "b": b, "differs": bad, "unscaled": [m0, v0, s0, k0],
                                  "scaled": [m1, v1, s1, k1]}, site="GaussianKDE.moments:covariance")
        if len(ck.samples) < 2 and len(results) > 2:
            ck.sample({"histogram": hs, "copies": factor, "bandwidth": h, "exact_moments": [M, V, S, Ku]})
    # mode of a multi-modal estimate with a narrow tall peak next to a broad one (user bandwidth far below the range): the reported mode
    # must reach the maximum of the estimate on a fine grid
    from scipy import stats as _st
    for pos in (2.3, 2.55, 2.8, 3.05, 3.3):
        tall = pos + 0.05 * _st.norm().ppf((np.arange(300) + 0.5) / 300)
        broad = -2.0 + _st.norm().ppf((np.arange(700) + 0.5) / 700)
        smp = np.concatenate([tall, broad])
        ck.case(("mode-narrow-peak", pos))
        try:
            kd = make(smp, bandwidth=0.05)
            fine = np.linspace(smp.min(), smp.max(), 40001)
            pmax = float(np.max(kd(fine)))
            pm = float(kd(kd.mode))
        except Exception as ex:
            ck.violation("GaussianKDE raised", {"sample": "300 points N(%.2f, 0.05) + 700 points N(-2, 1)" % pos, "error": repr(ex)[:200]}, site="GaussianKDE.__init__")
            continue
        if not pm >= pmax * (1 - 1e-3):
            ck.violation("mode is a point of maximal estimated density", {"sample": "300 points N(%.2f, 0.05) + 700 points N(-2, 1)" % pos, "bandwidth": 0.05,
                                                                           "mode": float(kd.mode), "density_at_mode": pm, "max_on_fine_grid": pmax}, site="GaussianKDE.mode")
    ck.traces += len(cases)
    # interval(f) on samples WITHOUT ties (distinct levels with gaps): with heavily tied data the sample-based starting interval of the
    # search has zero width, which is outside the "reasonable sample" the property speaks about
    dcases = explore(ck, "distinct", 9 if tier == "quick" else 11, "MCCd", "MCKd", "kde_distinct_samples")
    for c in dcases:
        hs, k = c["hs"], c["k"]
        sample = expand(hs)
        ident = {"sample": sample.tolist(), "bandwidth": bandwidth(k)}
        try:
            kde = make(sample, bandwidth=bandwidth(k))
        except Exception as ex:
            ck.violation("GaussianKDE raised", {**ident, "error": repr(ex)[:200]}, site="GaussianKDE.__init__")
            continue
        # Several separate peaks in the estimate of a handful of lattice points: the shortest-interval start of the search (computed
        # from the sample) is then tied between windows around different peaks, which cannot happen for the samples the property
        # quantifies over (hundreds of points and more, no ties).  For those estimates only the mass clause is judged.
        fine = np.linspace(sample.min() - 4 * bandwidth(k), sample.max() + 4 * bandwidth(k), 2001)
        pf = kde(fine)
        # (a ripple counts as a separate peak when the valley next to it is deeper than 1% of the maximum)
        imin = [i for i in range(1, len(pf) - 1) if pf[i] < pf[i - 1] and pf[i] <= pf[i + 1]]
        peaks = 1 + sum(1 for i in imin if min(pf[:i].max(), pf[i:].max()) - pf[i] > 1e-2 * pf.max())
        for f in (0.3, 0.5, 0.8, 0.95):
            ck.case((json.dumps(hs), k, f))
            try:
                lo_, hi_ = kde.interval(f)
            except Exception as ex:
                ck.violation("interval raised", {**ident, "fraction": f, "error": repr(ex)[:200]}, site="DensityEstimator.interval")
                continue
            interval_events.append({"lo": hs["lo"], "cnt": hs["cnt"], "k": k, "a": int(round(lo_ * 1024)), "b": int(round(hi_ * 1024)),
                                    "m": int(round(float(kde.mode) * 1024))})
            interval_idents.append({**ident, "fraction": f, "interval": [float(lo_), float(hi_)], "peaks_of_estimate": peaks})
    if interval_events:
        d_ = scratch("kdeint_")
        path = os.path.join(d_, "trace.ndjson")
        with open(path, "w") as fh:
            for e in interval_events:
                fh.write(json.dumps(e) + "\n")
        rt = run_tlc("KdeInterval", workers=1, env={"TRACE_FILE": path}, timeout=900)
        if rt.error or rt.violated or any("REJECTED" in x for x in rt.raw_printed):
            raise MachineryError("KdeInterval: %s %s" % (rt.error, (rt.stdout or "")[-500:]))
        ck.tlc(rt, "kde_intervals")
        for rec in rt.printed:
            i = rec["i"] - 1
            idn = interval_idents[i]
            mass, pa, pb, pm = (SL.value(rec[x]) for x in ("mass", "pa", "pb", "pm"))
            f = idn["fraction"]
            slack = (pa + pb) / 1024.0            # quantisation of the ends
            # tolerances: the stopping tolerance of the interval search is a free parameter of the specification (DESIGN 2e);
            # the as-built Nelder-Mead stop (1e-4 on a cost that squares both residuals) allows 1e-2 in mass and 5e-2 of the peak in density
            if abs(mass - f) > 1e-2 + slack:
                ck.violation("interval(f) contains probability f under the estimator's own cumulative function", {**idn, "mass_between_ends": mass},
                             site="DensityEstimator.interval:mass")
            if idn["peaks_of_estimate"] > 1:
                ck.count("kde_intervals", "ends_clause_not_judged_multimodal_lattice_estimate", 1)
            elif abs(pa - pb) > 5e-2 * pm + 4 * pm / 1024.0:
                ck.violation("interval(f) has equal density at its two ends", {**idn, "density_at_ends": [pa, pb], "density_at_mode": pm},
                             site="DensityEstimator.interval:ends")
        ck.traces += len(interval_events)
