--------------------------------- MODULE Hdi ---------------------------------
(***************************************************************************)
(* C13 -- sample_hdi returns the shortest interval holding the requested    *)
(* fraction.  Declarative specification (Good) and a model of the           *)
(* algorithm (sort, L = int(fraction n), sliding window argmin); TLC shows  *)
(* Algorithm => Good for every small sample and fraction, and evaluates     *)
(* Good on what the real function returned.                                 *)
(***************************************************************************)
EXTENDS Integers, Sequences, FiniteSets, TLC
CONSTANT Den                          \* fractions are k/Den, 0 < k < Den
Count(s, a, b) == Cardinality({i \in 1..Len(s) : a <= s[i] /\ s[i] <= b})
Vals(s) == {s[i] : i \in 1..Len(s)}
Good(s, k, a, b) ==
    /\ a \in Vals(s) /\ b \in Vals(s) /\ a <= b                      \* sample values as end points
    /\ Count(s, a, b) * Den >= k * Len(s)                            \* holds at least the requested fraction
    /\ \A a2 \in Vals(s), b2 \in Vals(s) :                            \* no interval with as many points is shorter
          (a2 <= b2 /\ Count(s, a2, b2) >= Count(s, a, b)) => b2 - a2 >= b - a
\* ---- algorithm model ----
RECURSIVE Insert(_, _)
Insert(sorted, v) == IF sorted = <<>> THEN <<v>>
                     ELSE IF v <= Head(sorted) THEN <<v>> \o sorted ELSE <<Head(sorted)>> \o Insert(Tail(sorted), v)
RECURSIVE Sort(_)
Sort(s) == IF s = <<>> THEN <<>> ELSE Insert(Sort(Tail(s)), Head(s))
\* int(fraction * n): the float product may round either way when k n / Den is an integer
Ls(n, k) == {(k * n) \div Den} \cup (IF (k * n) % Den = 0 THEN {(k * n) \div Den - 1} ELSE {})
Window(s, L) == LET t == Sort(s)  n == Len(s)
                    widths == [i \in 1..(n - L) |-> t[i + L] - t[i]]
                    best == CHOOSE i \in 1..(n - L) : \A j \in 1..(n - L) : widths[i] < widths[j] \/ (widths[i] = widths[j] /\ i <= j)
                IN <<t[best], t[best + L]>>
AlgorithmIsGood(s, k) == \A L \in Ls(Len(s), k) : (L >= 0 /\ L < Len(s)) => LET w == Window(s, L) IN Good(s, k, w[1], w[2])
\* relations the property states between calls (evaluated on recorded results)
Permuted(r, rp) == rp = r                                             \* unchanged by reordering the sample
Affine(r, ra, a, b) == ra = <<a * r[1] + b, a * r[2] + b>>            \* covariant under x -> a x + b, a > 0
=============================================================================
