---- MODULE MC_Advance ----
EXTENDS Advance, Json
MCM == {0, 1, 7, 99, 100, 101, 250}
Export == Len(calls) = MaxCalls => PrintT(ToJson([calls |-> calls, len |-> clen]))
====
