------------------------------ MODULE HmcStep ------------------------------
(***************************************************************************)
(* C01 / C03 / C04 -- HamiltonianChain.take_step as a state machine over    *)
(* the exact trajectory map of Leapfrog.tla.                                *)
(*                                                                         *)
(* An attempt draws a FRESH momentum r0 = L z, integrates n leapfrog steps  *)
(* and is accepted with probability min(1, exp(H0 - H1)),                   *)
(* H = 1/2 r'M^-1 r - logp(t)/T.  exp of a non-lattice number cannot be     *)
(* decided exactly, so decisions are bracketed (DESIGN 2b): the uniform     *)
(* draw is either "lo" (2^-60: accept whenever dH < 40) or "hi" (1 - 2^-30: *)
(* reject whenever dH > 0, since the smallest positive dH on the lattice is *)
(* 1/HDen > 2^-30); dH <= 0 is accepted without looking at the draw.        *)
(* On rejection: RejectRetry (as built: a new attempt inside the step) or   *)
(* RejectStay (textbook: the unchanged point is recorded).                  *)
(***************************************************************************)
EXTENDS LeapfrogOps
CONSTANTS HConfigs,     \* set of config records (Leapfrog.tla) with fields id, starts
          ZSet1,        \* offered unit-normal draws per coordinate
          NSet,         \* offered numbers of leapfrog steps
          MaxAttH, MaxStepsH
VARIABLES hc, theta, pnum, natt, nretry, nstay, hdraws, gpts
hvars == <<hc, theta, pnum, natt, nretry, nstay, hdraws, gpts>>
Scale(s) == [i \in 1..Len(s) |-> s[i] * D]
\* -2 T D^2 * (logp(t)/T) = t'At + 2 D b't      (stored log-probability, as an exact numerator)
PNum(c, t) == Dot(t, MatVec(c.A, t)) + 2 * D * Dot(c.b, t)
HInit == /\ hc \in HConfigs
         /\ \E s \in hc.starts : theta = <<Scale(s)>> /\ pnum = <<PNum(hc, Scale(s))>>
         /\ natt = 0 /\ nretry = 0 /\ nstay = 0 /\ hdraws = <<>> /\ gpts = <<>>
ZTuples == IF hc.n = 1 THEN {<<z>> : z \in ZSet1} ELSE ZSet1 \X ZSet1
Cur == theta[Len(theta)]
HAttempt(z, n, u) ==
    /\ Len(theta) <= MaxStepsH /\ natt < MaxAttH
    /\ LET mo == Momentum(hc, z) IN mo.ok /\
       LET f == Leap(hc, Cur, mo.r, n)
           dH == HNum(hc, f.t, f.r) - HNum(hc, Cur, mo.r)          \* times 1/HDen
           acc == dH <= 0 \/ u = "lo"
       IN /\ f.ok
          /\ dH < 40 * HDen(hc)                                     \* stay inside the decidable band for u = "lo"
          /\ (dH <= 0 => u = "lo")                                  \* the draw is irrelevant: explore one value only
          /\ hdraws' = Append(hdraws, <<z, n, u>>)
          /\ gpts' = gpts \o f.pts
          /\ IF acc THEN /\ theta' = Append(theta, f.t) /\ pnum' = Append(pnum, PNum(hc, f.t))
                         /\ natt' = 0 /\ UNCHANGED <<nretry, nstay>>
                    ELSE \/ /\ nstay = 0 /\ nretry' = nretry + 1 /\ natt' = natt + 1 /\ UNCHANGED <<theta, pnum, nstay>>   \* RejectRetry (as built)
                         \/ /\ nretry = 0 /\ nstay' = nstay + 1 /\ natt' = 0 /\ UNCHANGED nretry                         \* RejectStay
                            /\ theta' = Append(theta, Cur) /\ pnum' = Append(pnum, pnum[Len(pnum)])
    /\ UNCHANGED hc
HNext == \E z \in ZTuples, n \in NSet, u \in {"lo", "hi"} : HAttempt(z, n, u)
HSpec == HInit /\ [][HNext]_hvars
\* ---------------------------------------------------------------- properties
HProbsBelong == Len(pnum) = Len(theta) /\ \A k \in 1..Len(theta) : pnum[k] = PNum(hc, theta[k])        \* C03
InBox(t) == hc.box => \A i \in 1..hc.n : t[i] >= hc.blo * D /\ t[i] <= hc.bhi * D
HInside == (\A k \in 1..Len(theta) : InBox(theta[k])) /\ (\A k \in 1..Len(gpts) : InBox(gpts[k]))       \* C04: samples and every gradient point
AtHCommit == natt = 0 /\ Len(theta) > 1
=============================================================================
