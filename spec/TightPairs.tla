----------------------------- MODULE TightPairs -----------------------------
(* C08 -- the as-built pairing strategy (ParallelTempering.tight_pairs) with both of its sources of        *)
(* randomness (random.choice among the remaining near-neighbour pairs, shuffle of the leftovers) as         *)
(* nondeterministic choice: every outcome is a set of disjoint valid pairs (each chain in at most one).     *)
EXTENDS Integers, Sequences, FiniteSets, TLC
CONSTANT MaxChains
VARIABLES nc, cand, sample, phase, left, picks, lpairs
vars == <<nc, cand, sample, phase, left, picks, lpairs>>
\* pairs (i, i+j), i in 0..nc-2, j in {1,2}, minus the last one (0-based indices as in the code)
AllCand(n) == LET full == [x \in 1..(2 * (n - 1)) |-> <<(x - 1) \div 2, (x - 1) \div 2 + 1 + ((x - 1) % 2)>>]
              IN {full[x] : x \in 1..(2 * (n - 1) - 1)}
Init == /\ nc \in 1..MaxChains /\ cand = (IF nc >= 2 THEN AllCand(nc) ELSE {}) /\ sample = {} /\ phase = "choose" /\ left = {} /\ picks = <<>> /\ lpairs = <<>>
Choose == /\ phase = "choose" /\ cand # {}
          /\ \E p \in cand : /\ sample' = sample \cup {p} /\ picks' = Append(picks, p)
                             /\ cand' = {q \in cand : q[1] # p[1] /\ q[1] # p[2] /\ q[2] # p[1] /\ q[2] # p[2]}
          /\ UNCHANGED <<nc, phase, left, lpairs>>
Used == UNION {{p[1], p[2]} : p \in sample}
Leftover == /\ phase = "choose" /\ cand = {}
            /\ left' = (0..(nc - 1)) \ Used
            /\ phase' = (IF Cardinality(sample) # nc \div 2 THEN "pairleft" ELSE "done")
            /\ UNCHANGED <<nc, cand, sample, picks, lpairs>>
PairLeft == /\ phase = "pairleft"
            /\ IF Cardinality(left) >= 2
               THEN \E a, b \in left : a < b /\ sample' = sample \cup {<<a, b>>} /\ left' = left \ {a, b} /\ UNCHANGED phase
                                     /\ lpairs' = Append(lpairs, <<a, b>>)
               ELSE phase' = "done" /\ UNCHANGED <<sample, left, lpairs>>
            /\ UNCHANGED <<nc, cand, picks>>
Next == Choose \/ Leftover \/ PairLeft
Spec == Init /\ [][Next]_vars
Valid(P) == /\ \A p \in P : p[1] \in 0..(nc - 1) /\ p[2] \in 0..(nc - 1) /\ p[1] < p[2]
            /\ \A p, q \in P : p # q => {p[1], p[2]} \cap {q[1], q[2]} = {}
PairsDisjoint == Valid(sample)
AtMostHalf == Cardinality(sample) <= nc \div 2
=============================================================================
