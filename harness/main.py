"""./check Cxx [--tier quick|thorough] [--replay path]

exit 0: property held on everything explored; exit 1: VIOLATION line(s) printed;
exit 2: machinery failure (never a property verdict).
"""
import argparse
import importlib
import json
import os
import sys
import traceback

from harness.core import MachineryError


def main():
    ap = argparse.ArgumentParser()
    ap.add_argument("pid")
    ap.add_argument("--tier", default=os.environ.get("VERIF_TIER", "quick"), choices=["quick", "thorough"])
    ap.add_argument("--replay", default=None)
    a = ap.parse_args()
    pid = a.pid.upper()
    try:
        mod = importlib.import_module("harness." + pid.lower())
    except ModuleNotFoundError as ex:
        print(f"no check for {pid}: {ex}", file=sys.stderr)
        return 2
    try:
        if a.replay:
            with open(a.replay) as fh:
                rep = json.load(fh)
            if hasattr(mod, "replay"):
                return mod.replay(rep)
            # default: re-run the tier that produced it with the same seed
            os.environ["VERIF_SEED"] = str(rep.get("seed", 0))
            return mod.run(rep.get("tier", "quick"))
        return mod.run(a.tier)
    except MachineryError as ex:
        print(f"MACHINERY-FAILURE property={pid}: {ex}", file=sys.stderr)
        return 2
    except Exception:
        traceback.print_exc()
        print(f"MACHINERY-FAILURE property={pid}: unexpected exception", file=sys.stderr)
        return 2


if __name__ == "__main__":
    sys.exit(main())
