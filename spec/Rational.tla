------------------------------ MODULE Rational ------------------------------
(* Exact rational arithmetic for the numeric reference models: a rational is <<num, den>> with den > 0, in lowest terms.   *)
(* TLC integers are 32-bit and overflow ABORTS evaluation (no silent wrap-around), so a sizing error can only surface as   *)
(* a machinery failure, never as a wrong verdict.                                                                           *)
EXTENDS Integers, Sequences
RECURSIVE Gcd(_, _)
Gcd(a, b) == IF b = 0 THEN (IF a < 0 THEN -a ELSE a) ELSE Gcd(b, a % b)
RNorm(q) == LET g == Gcd(q[1], q[2])  s == IF q[2] < 0 THEN -1 ELSE 1
            IN IF q[1] = 0 THEN <<0, 1>> ELSE <<(s * q[1]) \div g, (s * q[2]) \div g>>
RInt(n) == <<n, 1>>
RAdd(p, q) == LET g == Gcd(p[2], q[2]) IN RNorm(<<p[1] * (q[2] \div g) + q[1] * (p[2] \div g), (p[2] \div g) * q[2]>>)     \* via the lcm: smaller intermediates
RNeg(p) == <<-p[1], p[2]>>
RSub(p, q) == RAdd(p, RNeg(q))
RMul(p, q) == LET g1 == Gcd(p[1], q[2])  g2 == Gcd(q[1], p[2])                                  \* cross-cancel first
              IN IF p[1] = 0 \/ q[1] = 0 THEN <<0, 1>> ELSE RNorm(<<(p[1] \div g1) * (q[1] \div g2), (p[2] \div g2) * (q[2] \div g1)>>)
RInv(p) == RNorm(<<p[2], p[1]>>)
RDiv(p, q) == RMul(p, RInv(q))
RLess(p, q) == LET g == Gcd(p[2], q[2]) IN p[1] * (q[2] \div g) < q[1] * (p[2] \div g)
RLeq(p, q) == LET g == Gcd(p[2], q[2]) IN p[1] * (q[2] \div g) <= q[1] * (p[2] \div g)
RZero == <<0, 1>>
ROne == <<1, 1>>
RECURSIVE RSum(_, _)
RSum(f, n) == IF n = 0 THEN RZero ELSE RAdd(RSum(f, n - 1), f[n])        \* f: sequence of rationals
RPow2(e) == LET RECURSIVE P(_)
                P(k) == IF k = 0 THEN 1 ELSE 2 * P(k - 1)
            IN IF e >= 0 THEN <<P(e), 1>> ELSE <<1, P(-e)>>
\* ---- small dense linear algebra over rationals (vectors / matrices are sequences) ----
RDot(u, v) == RSum([i \in 1..Len(u) |-> RMul(u[i], v[i])], Len(u))
RMatVec(Mx, v) == [i \in 1..Len(Mx) |-> RDot(Mx[i], v)]
RTranspose(Mx) == [j \in 1..Len(Mx[1]) |-> [i \in 1..Len(Mx) |-> Mx[i][j]]]
RMatMul(P, Q) == LET Qt == RTranspose(Q) IN [i \in 1..Len(P) |-> [j \in 1..Len(Qt) |-> RDot(P[i], Qt[j])]]
RMatAdd(P, Q) == [i \in 1..Len(P) |-> [j \in 1..Len(P[i]) |-> RAdd(P[i][j], Q[i][j])]]
RMatSub(P, Q) == [i \in 1..Len(P) |-> [j \in 1..Len(P[i]) |-> RSub(P[i][j], Q[i][j])]]
RIdent(n) == [i \in 1..n |-> [j \in 1..n |-> IF i = j THEN ROne ELSE RZero]]
\* determinant by Laplace expansion along the first row (n <= 4)
RDrop(s, k) == [i \in 1..(Len(s) - 1) |-> IF i < k THEN s[i] ELSE s[i + 1]]
RMinor(Mx, r, c) == [i \in 1..(Len(Mx) - 1) |-> RDrop(Mx[IF i < r THEN i ELSE i + 1], c)]
RECURSIVE RDet(_)
RDet(Mx) == IF Len(Mx) = 1 THEN Mx[1][1]
            ELSE RSum([j \in 1..Len(Mx) |-> RMul(IF j % 2 = 1 THEN Mx[1][j] ELSE RNeg(Mx[1][j]), RDet(RMinor(Mx, 1, j)))], Len(Mx))
\* inverse by the adjugate
RInverse(Mx) == LET n == Len(Mx)  d == RDet(Mx) IN
    IF n = 1 THEN << <<RInv(Mx[1][1])>> >>
    ELSE [i \in 1..n |-> [j \in 1..n |->
            RDiv(RMul(IF (i + j) % 2 = 0 THEN ROne ELSE RNeg(ROne), RDet(RMinor(Mx, j, i))), d)]]
RSymmetric(Mx) == \A i, j \in 1..Len(Mx) : Mx[i][j] = Mx[j][i]
\* positive (semi)definite by leading principal minors (positive definite when all > 0)
RLeading(Mx, k) == [i \in 1..k |-> [j \in 1..k |-> Mx[i][j]]]
RPos(q) == q[1] > 0
RPosDef(Mx) == \A k \in 1..Len(Mx) : RPos(RDet(RLeading(Mx, k)))
=============================================================================
