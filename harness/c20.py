"""C20 -- conditional approximation evaluates and samples the true 1-D conditionals.

MC   : PiecewiseLinear.tla -- cell masses and the within-cell inverse CDF of the piecewise-linear interpolant in exact
       rationals; TLC enumerates tables (uniform and non-uniform dyadic grids, zero entries, a |delta| < 1e-5 cell) and, working
       backwards from the local coordinate t, the uniform draw u and the sample it must produce.
S->C : piecewise_linear_sample is run with the module generator replaced by a scripted stand-in: the cell probabilities it passes
       to choice() must equal the cell masses, and each (cell, u) must return TLC's sample.
C->S : get_conditionals / conditional_sample on Gaussian posteriors (independent and correlated, any scale, conditioning point in
       and off the high-density region): the posterior-call trace and projected facts about the result are validated by CondTrace.tla.
"""
import json
import math
import os
import numpy as np

from harness.core import Check, run_tlc, must_pass, seed, MachineryError, scratch


def fr(q):
    return q[0] / q[1]


class ScriptRng:
    def __init__(self):
        self.weights = None
        self.inds = None
        self.us = None

    def choice(self, a, size=None, p=None, **kw):
        self.weights = np.array(p, dtype=float)
        return np.array(self.inds, dtype=int)

    def random(self, size=None):
        return np.array(self.us, dtype=float)


def sample_part(ck, tier):
    import inference.approx.conditional as CM
    maxc, pmax = (2, 2) if tier == "quick" else (3, 3)
    r = run_tlc("MC_PiecewiseLinear", cfg_text="INIT Init\nNEXT Next\nCONSTANTS MaxCells = %d PMax = %d\nINVARIANT Ref\nCHECK_DEADLOCK FALSE\n" % (maxc, pmax),
                timeout=2400)
    if r.violated:
        ck.violation("spec: PiecewiseLinear", {"violated": r.violated}, site="spec")
    must_pass(r, "MC_PiecewiseLinear")
    ck.tlc(r, "piecewise_linear_reference")
    real = CM.rng
    fake = ScriptRng()
    CM.rng = fake
    try:
        for c in r.printed:
            x = np.array([fr(v) for v in c["x"]])
            p = np.array([fr(v) for v in c["p"]])
            draws = c["draws"]
            fake.inds = [d["i"] - 1 for d in draws]
            fake.us = [fr(d["u"]) for d in draws]
            ident = {"x": x.tolist(), "p": p.tolist()}
            ck.case((json.dumps(c["x"]), json.dumps(c["p"])))
            try:
                with np.errstate(all="ignore"):
                    got = np.asarray(CM.piecewise_linear_sample(x, p, len(draws)), dtype=float)
            except Exception as ex:
                ck.violation("piecewise_linear_sample raised on an ascending grid and non-negative table", {**ident, "error": repr(ex)},
                             site="piecewise_linear_sample")
                continue
            wantm = np.array([fr(m) for m in c["mass"]])
            if fake.weights is None or fake.weights.shape != wantm.shape or not np.allclose(fake.weights, wantm, rtol=1e-12, atol=1e-15):
                ck.violation("cell probabilities = mass of the piecewise-linear interpolant in each cell (1/2 (p_i + p_i+1) dx_i / Z)",
                             {**ident, "want": wantm, "got": fake.weights}, site="piecewise_linear_sample:weights")
                continue
            wants = np.array([fr(d["s"]) for d in draws])
            width = x[-1] - x[0]
            if got.shape != wants.shape or not np.all(np.abs(got - wants) <= 1e-9 * width):
                bad = int(np.argmax(np.abs(got - wants))) if got.shape == wants.shape else 0
                ck.violation("samples follow the within-cell inverse CDF (1 - d) t + d t^2 = u of the linear density",
                             {**ident, "cell": draws[bad]["i"], "u": fake.us[bad], "want": wants[bad], "got": got[bad] if got.shape == wants.shape else None},
                             site="piecewise_linear_sample:transform")
            # the same table on a grid of nanometre size (x * 2^-40: exact, cell widths far below 1e-8): the same cells, the samples rescaled
            fake.weights = None
            sc_ = 2.0 ** -40
            try:
                with np.errstate(all="ignore"):
                    got_s = np.asarray(CM.piecewise_linear_sample(x * sc_, p / sc_, len(draws)), dtype=float)
                if fake.weights is None or fake.weights.shape != wantm.shape or not np.allclose(fake.weights, wantm, rtol=1e-12, atol=1e-15) \
                        or got_s.shape != wants.shape or not np.all(np.abs(got_s / sc_ - wants) <= 1e-9 * width):
                    ck.violation("cell probabilities and samples of a table on a very fine grid (widths ~1e-12) = those of the same table at unit scale, rescaled",
                                 {**ident, "scale": sc_, "want_masses": wantm, "got_masses": fake.weights}, site="piecewise_linear_sample:scale")
            except Exception as ex:
                ck.violation("piecewise_linear_sample raised on an ascending grid and non-negative table", {**ident, "scale": sc_, "error": repr(ex)},
                             site="piecewise_linear_sample")
            if len(ck.samples) < 2 and len(x) == maxc + 1 and 0.0 in p:
                ck.sample({**ident, "spec_masses": wantm.tolist(), "draw": {"cell": draws[0]["i"], "u": fake.us[0], "spec_sample": wants[0]}})
    finally:
        CM.rng = real
    ck.traces += len(r.printed)


class GaussND:
    def __init__(self, mu, cov, lo, hi, point, events, offset=0.0):
        self.offset = offset            # an additive constant of the log-posterior (an unnormalised posterior): conditionals do not depend on it
        self.mu, self.P = np.asarray(mu, dtype=float), np.linalg.inv(np.asarray(cov, dtype=float))
        self.lo, self.hi, self.point, self.ev = lo, hi, point, events
        self.logging = True

    def __call__(self, t):
        t = np.asarray(t, dtype=float)
        if self.logging:
            diff = [i for i in range(t.size) if t[i] != self.point[i]]
            self.ev.append({"ev": "Eval", "inside": bool(np.all(t >= self.lo) and np.all(t <= self.hi)),
                            "others_fixed": len(diff) <= 1, "coord": (diff[0] + 1) if len(diff) == 1 else 0})
        d = t - self.mu
        return float(-0.5 * d @ self.P @ d) + self.offset


def conditional_part(ck, tier):
    from inference.approx.conditional import get_conditionals, conditional_sample
    rng = np.random.default_rng(seed() + 9)
    ncase = 25 if tier == "quick" else 250
    events = []
    cases = []
    for case in range(ncase):
        n = int(rng.integers(1, 4))
        scale = 10.0 ** rng.uniform(-3, 3, size=n)
        if case % 7 == 3:
            scale = 10.0 ** rng.uniform(-18, -16, size=n)      # parameters of very small absolute magnitude (whole problem below 1e-8) ...
        elif case % 7 == 5:
            scale = scale * 1e7            # ... and very large (1e4 .. 1e10): "any scales"
        mu = rng.normal(size=n) * scale * 3
        A = rng.normal(size=(n, n)) * (0.5 if case % 2 else 0.0) + np.eye(n)
        cov = (A @ A.T) * np.outer(scale, scale)
        P = np.linalg.inv(cov)
        # conditional of coordinate i given the others at `point` is Gaussian: variance 1/P_ii
        sd = 1.0 / np.sqrt(np.diag(P))
        point = mu + rng.uniform(-1.5, 1.5, size=n) * sd * (0.3 if case % 3 else 1.0)
        mode = case % 5
        lo = np.empty(n)
        hi = np.empty(n)
        cm = np.empty(n)
        for i in range(n):
            others = [j for j in range(n) if j != i]
            cm[i] = mu[i] - (P[i, others] @ (point[others] - mu[others])) / P[i, i] if others else mu[i]
        for i in range(n):
            if mode == 0:      # wide bounds: the conditional is a narrow feature met through the conditioning coordinate
                lo[i], hi[i] = cm[i] - sd[i] * rng.uniform(20, 60), cm[i] + sd[i] * rng.uniform(20, 60)
            elif mode == 1:    # bounds cut one tail
                lo[i], hi[i] = cm[i] - sd[i] * rng.uniform(0.5, 2), cm[i] + sd[i] * rng.uniform(6, 12)
            elif mode == 4:    # wide to very wide bounds (2e2 .. 1e8 conditional widths): met only through the conditioning coordinate
                # (one side sweeps the decades 1e4 .. 1e8 in turn, so that every run meets the widest ones)
                e_hi = (2.7, 3.4, 5.0, 6.5, 7.9)[(case // 5 + i) % 5] + rng.uniform(-0.1, 0.1)
                lo[i], hi[i] = cm[i] - sd[i] * 10.0 ** rng.uniform(2.3, min(e_hi + 1.0, 8.0)), cm[i] + sd[i] * 10.0 ** e_hi
            elif mode == 2:    # bounds cut both tails
                lo[i], hi[i] = cm[i] - sd[i] * rng.uniform(1, 3), cm[i] + sd[i] * rng.uniform(1, 3)
            else:
                lo[i], hi[i] = cm[i] - sd[i] * rng.uniform(5, 9), cm[i] + sd[i] * rng.uniform(5, 9)
            point[i] = min(max(point[i], lo[i] + 1e-3 * sd[i]), hi[i] - 1e-3 * sd[i])
            if mode == 2 and case % 2 == 0:
                # a parameter pushed against a limit: the conditioning coordinate inside the LAST (or first) of the fifteen search intervals,
                # the density still high at that bound
                frac = rng.uniform(0.1, 0.9) * (hi[i] - lo[i]) / 15.0
                point[i] = hi[i] - frac if (case // 2 + i) % 2 == 0 else lo[i] + frac
            if mode == 3 and i >= 1 and case % 2 == 1:
                # the conditioning coordinate of a LATER variable exactly on one of the sixteen search points of its own (different) bounds
                point[i] = float(np.linspace(lo[i], hi[i], 16)[3 + (case + i) % 10])
        for i in range(n):      # conditional means depend on the (clipped) conditioning point
            others = [j for j in range(n) if j != i]
            cm[i] = mu[i] - (P[i, others] @ (point[others] - mu[others])) / P[i, i] if others else mu[i]
        ev = [{"ev": "Begin", "n": n}]
        post = GaussND(mu, cov, lo, hi, point.copy(), ev, offset=(0.0, -3000.0, 2500.0, -300.0)[case % 4])
        bounds = [(float(a), float(b)) for a, b in zip(lo, hi)]
        ident = {"case": case, "n": n, "log_posterior_offset": (0.0, -3000.0, 2500.0, -300.0)[case % 4], "bounds": bounds, "conditioning_point": point.tolist(), "cond_mean": cm.tolist(), "cond_sd": sd.tolist()}
        ck.case(("cond", case))
        try:
            # one parameter at a time is how get_conditionals works; the trace keeps the per-parameter order
            marks = []
            gs = (64, 32, 100)[case % 3]                                   # the default and two other grid sizes
            axes, prob = get_conditionals(posterior=post, bounds=bounds, conditioning_point=point.copy(), grid_size=gs)
        except Exception as ex:
            ck.violation("get_conditionals raised", {**ident, "error": repr(ex)}, site="get_conditionals")
            continue
        # split the Eval events per parameter: the scan of parameter i only ever changes coordinate i (or none)
        evals = ev[1:]
        out = [ev[0]]
        k = 0
        for i in range(n):
            while k < len(evals) and evals[k]["coord"] in (0, i + 1) and not (evals[k]["coord"] == 0 and i + 1 < n and
                                                                               all(e["coord"] != i + 1 for e in evals[k:])):
                out.append(evals[k])
                k += 1
            x, p = axes[:, i], prob[:, i]
            post.logging = False
            logp = np.array([post(np.concatenate([point[:i], [v], point[i + 1:]])) for v in x])
            post.logging = True
            a_true = max(lo[i], cm[i] - sd[i] * math.sqrt(2 * math.log(100.0)))
            b_true = min(hi[i], cm[i] + sd[i] * math.sqrt(2 * math.log(100.0)))
            tol = 1e-6 * (hi[i] - lo[i])
            # (coverage judged in units of the conditional's own width: with very wide bounds a slack relative to the bounds would be vacuous)
            ctol = min(tol, 1e-3 * sd[i] + 1e-12 * (hi[i] - lo[i]))
            covers = bool(x[0] <= a_true + ctol and x[-1] >= b_true - ctol)
            j = int(np.argmax(p))
            with np.errstate(all="ignore"):
                ratio = p / p[j]
                want_ratio = np.exp(logp - logp[j])
                ratio_err = float(np.max(np.abs(ratio - want_ratio)))
            norm = float(np.sum(0.5 * (p[1:] + p[:-1]) * np.diff(x)))
            # true conditional: Gaussian truncated to the bounds; compared where the property applies (well resolved, covered)
            za, zb = (lo[i] - cm[i]) / sd[i], (hi[i] - cm[i]) / sd[i]
            Z = 0.5 * (math.erf(zb / math.sqrt(2)) - math.erf(za / math.sqrt(2)))
            true = np.exp(-0.5 * ((x - cm[i]) / sd[i]) ** 2) / (sd[i] * math.sqrt(2 * math.pi)) / Z
            well = sd[i] >= (hi[i] - lo[i]) / 40 or abs(point[i] - cm[i]) <= 3 * sd[i]
            true_err = float(np.max(np.abs(p - true)) / np.max(true)) if well else 0.0
            out.append({"ev": "Result", "coord": i + 1, "ascending": bool(np.all(np.diff(x) > 0)),
                        "grid_inside": bool(x[0] >= lo[i] - tol and x[-1] <= hi[i] + tol), "covers": covers,
                        "ratio_err_e9": int(min(ratio_err * 1e9, 2 ** 30)) if np.isfinite(ratio_err) else 2 ** 30,
                        "norm_err_e6": int(min(abs(norm - 1) * 1e6, 2 ** 30)) if np.isfinite(norm) else 2 ** 30,
                        "true_err_e6": int(min(true_err * 1e6, 2 ** 30)) if np.isfinite(true_err) else 2 ** 30})
        out += evals[k:]
        post.logging = False
        try:
            smp = np.asarray(conditional_sample(posterior=post, bounds=bounds, conditioning_point=point.copy(), n_samples=200))
            out.append({"ev": "Samples", "inside": bool(np.all(smp >= lo - 1e-9 * (hi - lo)) and np.all(smp <= hi + 1e-9 * (hi - lo))),
                        "shape_ok": smp.shape == (200, n)})
        except Exception as ex:
            ck.violation("conditional_sample raised", {**ident, "error": repr(ex)}, site="conditional_sample")
        cases.append((len(events), len(events) + len(out), ident))
        events += out
    d = scratch("c20_")
    path = os.path.join(d, "trace.ndjson")
    with open(path, "w") as fh:
        for e in events:
            fh.write(json.dumps(e) + "\n")
    rt = run_tlc("CondTrace", workers=1, env={"TRACE_FILE": path}, timeout=900)
    if rt.error or rt.violated or any("REJECTED" in x for x in rt.raw_printed):
        raise MachineryError("CondTrace: %s %s" % (rt.error, rt.violated))
    ck.tlc(rt, "conditional_traces")
    ck.traces += len(cases)
    import re
    bad = sorted({int(m.group(1)) - 1 for x in rt.raw_printed for m in [re.match(r'<<"BAD", (\d+)>>', x)] if m})
    for i in bad[:100]:
        ident = next((c[2] for c in cases if c[0] <= i < c[1]), {})
        e = events[i]
        ck.violation("conditional: evaluation points inside the bounds / grid ascending, inside, covering / density proportional to "
                     "exp(logp), normalised, matching the true conditional / samples inside", {**ident, "event": e},
                     site="get_conditionals:" + e["ev"])
    if cases:
        ck.sample({"part": "conditional", **cases[len(cases) // 2][2]})


def run(tier):
    ck = Check("C20", tier)
    ck.rule = "one case per TLC-enumerated table (all its (cell, t) draws in one call) and one per random Gaussian posterior / bounds / point"
    ck.assumptions = ["'a small fraction of its peak' is read as <= 1% (the code's own threshold, e^-8, is a free parameter)",
                      "the true conditional is compared only in the regime the property names (well resolved or met by the conditioning coordinate), to 5e-3 of the peak"]
    sample_part(ck, tier)
    conditional_part(ck, tier)
    return ck.finish()
