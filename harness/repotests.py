"""The repository's own MCMC tests as a trace source: run them with the recorder plug-in, judge every record with TestRunTrace.tla.

run_part(ck, prefix) reports only the clauses of the calling property (prefix 'C03', 'C04', 'C14' or 'C15').
"""
import json
import os
import subprocess
import sys

from harness.core import run_tlc, scratch, MachineryError, REPO, VERIF

_cache = {}


def _records():
    if "recs" in _cache:
        return _cache["recs"], _cache["tests"]
    d = scratch("rec_")
    out = os.path.join(d, "records.ndjson")
    env = dict(os.environ, PYTHONPATH=REPO + ":" + VERIF, VERIF_REC_OUT=out, MPLBACKEND="Agg")
    env.pop("INFERENCE_TOOLS_VERIF", None)
    p = subprocess.run([sys.executable, "-m", "pytest", "-q", "-p", "no:cacheprovider", "-p", "harness.recorder", "tests/mcmc"], cwd=REPO, env=env,
                       stdout=subprocess.PIPE, stderr=subprocess.STDOUT, text=True, timeout=1200)
    tail = p.stdout.strip().splitlines()[-1] if p.stdout.strip() else ""
    recs = []
    if os.path.exists(out):
        with open(out) as fh:
            recs = [json.loads(x) for x in fh if x.strip()]
    _cache["recs"], _cache["tests"] = recs, tail
    return recs, tail


def run_part(ck, prefix):
    recs, tail = _records()
    if not recs:
        # the repository's tests could not be run with the recorder (e.g. the tests were removed): nothing to judge, not a verdict
        ck.count("repo_test_traces", "records", 0)
        return
    d = scratch("rectr_")
    path = os.path.join(d, "trace.ndjson")
    with open(path, "w") as fh:
        for e in recs:
            fh.write(json.dumps(e) + "\n")
    rt = run_tlc("TestRunTrace", cfg_text="SPECIFICATION TraceSpec\nCONSTRAINT Progress\nPOSTCONDITION TraceAccepted\nCHECK_DEADLOCK FALSE\n",
                 workers=1, env={"TRACE_FILE": path}, timeout=600)
    if rt.error or rt.violated or any("REJECTED" in x for x in rt.raw_printed):
        raise MachineryError("TestRunTrace: %s %s" % (rt.error, (rt.stdout or "")[-400:]))
    ck.tlc(rt, "repo_test_traces")
    ck.count("repo_test_traces", "records", len(recs))
    ck.count("repo_test_traces", "repository_tests_result", 0)
    ck.parts["repo_test_traces"]["pytest_summary"] = tail
    mine = 0
    for e in recs:
        if (e["ev"] == "Advance" and prefix in ("C15", "C03", "C04")) or (e["ev"] == "Readout" and prefix == "C14"):
            mine += 1
            ck.case(("repotest", e["seq"]))
    ck.traces += mine
    for rec in rt.printed:
        e = recs[rec["bad"] - 1]
        for clause in rec["clauses"]:
            if not clause.startswith(prefix):
                continue
            cls = e.get("cls") or e["after"]["cls"]
            site = f"{cls}.{e.get('call', 'advance')}:repo-test"
            ck.violation(clause + " (on a trace of the repository's own test)", {"test": e["test"], "record": {k: v for k, v in e.items() if k != "test"}},
                         site=site)
