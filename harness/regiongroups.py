"""Beyond the listed properties: RegionGroups.tla replayed into BinaryTree.region_groups / unique_index_groups (./check regiongroups)."""
import numpy as np

from harness.core import Check, run_tlc, must_pass


def run(tier):
    from inference.pdf.kde import BinaryTree, unique_index_groups
    ck = Check("regiongroups", tier)
    ck.rule = "one case per TLC-enumerated value sequence (all sequences up to the length bound over the value set), for each tree geometry"
    ck.assumptions = ["integer limits and widths (exact edges); values on and between the edges, below and above the range",
                      "the order of the positions inside a group is not specified (sets are compared)"]
    for layers, lo, w in ((1, 0, 2), (2, -4, 2), (3, 0, 1)):
        nreg = 2 ** layers
        vset = sorted(set(range(lo - 1, lo + w * nreg + 2)))
        maxlen = 3 if (tier == "quick" or len(vset) > 8) else 4
        if len(vset) > 9:
            vset = vset[::2] + [vset[-1]]
        cfg = ("INIT Init\nNEXT Next\nCONSTANTS Layers = %d\n Lo <- MCLo\n W = %d\n ValSet <- MCVals\n MaxLen = %d\nINVARIANT Laws\nCHECK_DEADLOCK FALSE\n" % (layers, w, maxlen))
        mod = "---- MODULE MC_RegionGroups ----\nEXTENDS RegionGroups\nMCLo == %s\nMCVals == {%s}\n====\n" % (
            ("0 - %d" % -lo) if lo < 0 else str(lo), ", ".join(("0 - %d" % -v) if v < 0 else str(v) for v in sorted(set(vset))))
        r = run_tlc("MC_RegionGroups", cfg_text=cfg, extra_files={"MC_RegionGroups.tla": mod}, timeout=900)
        if r.violated:
            ck.violation("spec: RegionGroups " + ",".join(r.violated), {"violated": r.violated}, site="spec")
        must_pass(r, "MC_RegionGroups")
        ck.tlc(r, "regions_%d_layers" % layers)
        tree = BinaryTree(layers, (float(lo), float(lo + w * nreg)))
        for c in r.printed:
            vals = np.array(c["vals"], dtype=float)
            ck.case((layers, lo, w, tuple(c["vals"])))
            want = {int(g_["r"]): sorted(int(i) - 1 for i in g_["idx"]) for g_ in c["regions"]}
            try:
                regs, groups = tree.region_groups(vals)
                got = {int(rr): sorted(int(i) for i in g) for rr, g in zip(regs, groups)}
                asc = list(regs) == sorted(regs)
                u, g2 = unique_index_groups(np.array(c["vals"]))
                got_u = {int(a): sorted(int(i) for i in b) for a, b in zip(u, g2)}
                want_u = {int(v): [i for i, x in enumerate(c["vals"]) if x == v] for v in set(c["vals"])}
            except Exception as ex:
                ck.violation("region_groups raised", {"values": c["vals"], "error": repr(ex)[:200]}, site="BinaryTree.region_groups")
                continue
            if got != want or not asc:
                ck.violation("regions that occur, ascending, each with the positions of the values in it ((edge_k, edge_k+1], clamped at both ends)",
                             {"layers": layers, "limits": [lo, lo + w * nreg], "values": c["vals"], "spec": want, "code": got}, site="BinaryTree.region_groups")
            if got_u != want_u:
                ck.violation("unique_index_groups: positions grouped by value", {"values": c["vals"], "spec": want_u, "code": got_u}, site="unique_index_groups")
        ck.traces += len(r.printed)
    return ck.finish()
