"""C01 -- MCMC samplers draw from the posterior the user supplied.

MC   : Samplers.tla step machine (all configs) with ProbsBelong / WorkConsistent / limits invariants;
       KernelId.tla identities (proposal symmetry, detailed balance w.r.t. w*2^-E/T, irreducibility) on the
       specification's own attempt kernel AND on the kernel table tabulated from the real samplers.
S->C : every TLC behaviour (single steps exhaustively, multi-step by -simulate) replayed into the real
       Metropolis / Gibbs / PCA chains with scripted draws; evaluated points, samples, stored
       probabilities, chain_length and mode() compared with the TLC state.
       Ensemble (Ensemble.tla) and HMC (HmcStep.tla) behaviours likewise.
"""
import json
import numpy as np

from harness.core import Check, run_tlc, must_pass, seed, tla_val, MachineryError
from harness import samplers as S


def kernel_part(ck, tier):
    """1-D attempt kernels: spec table from TLC, observed table from the code, identities on both by TLC"""
    m = 6
    kmax = 3
    cfgs = [c for c in S.make_configs("thorough") if c["n"] == 1]
    if tier == "quick":
        cfgs = [c for i, c in enumerate(cfgs) if i % 4 == seed() % 4 or c["T"] == 2 and c["tabname"] == "tent"]
    regions = {"free": list(range(-3, 5)), "box": list(range(-2, 4)), "nonneg": list(range(0, 6)), "boxnn": list(range(0, 4))}
    # --- specification's own kernel, exported by TLC
    mod = S.MC_TEMPLATE % {"configs": S.tla_configs(cfgs), "tables": S.tla_tables(), "kset": "{0}", "depth": 1}
    mod = mod.replace("====\n", """MCWLo == %d
KReg(cc) == CASE cc.mode = "free" -> -3..4 [] cc.mode = "box" -> cc.blo..cc.bhi [] cc.mode = "nonneg" -> 0..5 [] cc.mode = "boxnn" -> 0..cc.bhi
KOut(cc, x, k, ui) == LET y == Prop(cc, x + k) IN
      IF AcceptU(cc, Energy(cc, <<y>>) - Energy(cc, <<x>>), ui) THEN y ELSE x
VARIABLE kc
KInit == /\\ kc \\in MCConfigs /\\ cf = kc /\\ chain = <<>> /\\ probs = <<>> /\\ work = <<>> /\\ pold = 0 /\\ coord = 1
         /\\ natt = 0 /\\ nretry = 0 /\\ nstay = 0 /\\ draws = <<>> /\\ evals = <<>>
KNext == UNCHANGED <<kc, svars>>
KExport == PrintT(ToJson([cf |-> kc.id, tab |-> [x \\in KReg(kc) |-> [k \\in 1..%d |-> [u \\in 1..%d |-> KOut(kc, x, k - %d, u - 1)]]]]))
====
""" % (S.WLO, 2 * kmax + 1, 2 ** m, kmax + 1))
    cfg = ("INIT KInit\nNEXT KNext\nCONSTANTS Configs <- MCConfigs\n Tables <- MCTables\n KSet <- MCKSet\n WLo <- MCWLo\n"
           " WHi = %d Outside = %d M = %d MaxAtt = 1 MaxSteps = 1\nINVARIANT KExport\nCHECK_DEADLOCK FALSE\n" % (S.WHI, S.OUTSIDE, m))
    r = run_tlc("MC_Samplers", cfg_text=cfg, extra_files={"MC_Samplers.tla": mod}, workers=4, timeout=600)
    must_pass(r, "spec kernel export")
    ck.tlc(r, "spec_kernel_export")
    spec_tab = {}
    for rec in r.printed:
        c = next(c for c in cfgs if c["id"] == rec["cf"])
        reg = regions[c["mode"]]
        t = rec["tab"]
        # ToJson of a function over an integer interval starting at lo: list if lo = 1 else dict keyed by str
        if isinstance(t, dict):
            spec_tab[c["id"]] = {x: t[str(x)] for x in reg}
        else:
            spec_tab[c["id"]] = {x: t[i] for i, x in enumerate(reg)}
    # --- implementation's kernel
    obs_tab = {}
    differ = 0
    for c in cfgs:
        reg = regions[c["mode"]]
        obs_tab[c["id"]] = S.tabulate_kernel(c, reg, kmax, m)
        ck.case(("kernel", c["id"]))
        if obs_tab[c["id"]] != spec_tab[c["id"]]:
            differ += 1
    ck.count("observed_kernel", "attempts_tabulated", sum(len(regions[c["mode"]]) for c in cfgs) * (2 * kmax + 1) * 2 ** m)
    ck.count("observed_kernel", "tables_differing_from_spec_operator", differ)

    def kernel_id(tabs, label, invs=("SupportSymmetric", "DetailedBalance", "Irreducible", "JumpBalancePiA")):
        NP, ob, en, wt = [], [], [], []
        for c in cfgs:
            reg = regions[c["mode"]]
            pos = {x: i + 1 for i, x in enumerate(reg)}
            NP.append(len(reg))
            t = tabs[c["id"]]
            ob.append([[[pos.get(y, 0) if y is not None else 0 for y in row] for row in t[x]] for x in reg])
            base = S.base_tables()[c["tabname"]]
            en.append([base[x - S.WLO] for x in reg])
            if c["mode"] == "box":
                wt.append([1 if x in (c["blo"], c["bhi"]) else 2 for x in reg])
            elif c["mode"] == "nonneg":
                wt.append([1 if x == 0 else 2 for x in reg])
            elif c["mode"] == "boxnn":
                wt.append([1 if x in (0, c["bhi"]) else 2 for x in reg])
            else:
                wt.append([2 for _ in reg])
        mod2 = ("---- MODULE MC_KernelId ----\nEXTENDS KernelId\nMCNP == %s\nMCObs == %s\nMCEn == %s\nMCWt == %s\n====\n"
                % (tla_val(NP), tla_val(ob), tla_val(en), tla_val(wt)))
        cfg2 = ("INIT Init\nNEXT Next\nCONSTANTS NC = %d NK = %d NU = %d\n NP <- MCNP\n Obs <- MCObs\n En <- MCEn\n Wt <- MCWt\n"
                "%sCHECK_DEADLOCK FALSE\n"
                % (len(cfgs), 2 * kmax + 1, 2 ** m, "".join("INVARIANT %s\n" % i for i in invs)))
        rr = run_tlc("MC_KernelId", cfg_text=cfg2, extra_files={"MC_KernelId.tla": mod2}, workers=16, timeout=900,
                     extra=["-continue"])
        if rr.error:
            raise MachineryError(label + ": " + rr.error)
        ck.tlc(rr, label)
        return rr

    rs = kernel_id(spec_tab, "kernel_identities_on_spec")
    if rs.violated:
        ck.violation("spec: attempt-kernel identities", {"violated": rs.violated}, site="spec")
    # spec-level demonstration of F1: the stored (jump) chain is not reversible w.r.t. pi
    rj = kernel_id(spec_tab, "jump_chain_not_pi_reversible", invs=("JumpBalancePi",))
    ck.parts["jump_chain_not_pi_reversible"]["tlc_refutes_JumpBalancePi"] = "JumpBalancePi" in rj.violated
    ro = kernel_id(obs_tab, "kernel_identities_on_implementation")
    if ro.violated:
        # which configs: TLC prints the state (c = ...) of each violation with -continue
        bad = sorted({int(x) for x in __import__("re").findall(r"^/\\ c = (\d+)|^c = (\d+)", ro.stdout, flags=__import__("re").M) for x in x if x})
        for ci in bad or [0]:
            c = cfgs[ci - 1] if ci else None
            ck.violation("observed attempt kernel violates " + "/".join(sorted(set(ro.violated))),
                         {"config": {k: c[k] for k in ("kind", "n", "T", "mode", "tabname")} if c else None},
                         site=(S.CLASSNAME[c["kind"]] + ".attempt_kernel") if c else "attempt_kernel")
    ck.sample({"part": "observed_kernel", "config": {k: cfgs[0][k] for k in ("kind", "T", "mode", "tabname")},
               "row_x=%d_k=-3" % regions[cfgs[0]["mode"]][0]: obs_tab[cfgs[0]["id"]][regions[cfgs[0]["mode"]][0]][0][:8]})


def replay_part(ck, tier, part="single_step"):
    cfgs = S.make_configs(tier)
    m = 6
    if part == "single_step":
        kset = [-5, -1, 0, 2] if tier == "quick" else [-6, -2, -1, 0, 3]
        r = S.explore(cfgs, kset, m, maxatt=3, maxsteps=1, timeout=1500)
    else:
        kset = [-5, -2, -1, 0, 1, 3]
        n = 150 if tier == "quick" else 1500
        r = S.explore(cfgs, kset, m, maxatt=6, maxsteps=5, simulate=f"num={n}", depth=40, seed_=seed() + 7, timeout=1500)
    if r.violated:
        ck.violation("spec: Samplers invariants", {"violated": r.violated}, site="spec")
    must_pass(r, "Samplers " + part)
    ck.tlc(r, "samplers_" + part)
    byid = {c["id"]: c for c in cfgs}
    index = S.index_behaviours(r.printed)
    seen = set()
    n_ok = n_retry = 0
    for b in r.printed:
        key = (b["cf"], tuple(b["start"]), json.dumps(b["draws"]), b["nstay"], b["nretry"])
        if key in seen:
            continue
        seen.add(key)
        c = byid[b["cf"]]
        obs = S.replay_behaviour(c, b, m)
        v = S.judge(ck, c, b, obs, index, S.CLASSNAME[c["kind"]])
        n_ok += v == "ok"
        n_retry += v == "retry"
        rejected = b["nstay"] + b["nretry"] > 0
        ck.case(("beh", part) + key, nontrivial=True)
        if rejected and len(ck.samples) < 4:
            ck.sample({"part": part, "config": {k: c[k] for k in ("kind", "n", "T", "mode", "tabname")}, "start": b["start"],
                       "draws[k,ui]": b["draws"], "spec_chain": b["chain"], "spec_energies": b["probs"], "verdict": v})
    ck.count("samplers_" + part, "behaviours_replayed", len(seen))
    ck.count("samplers_" + part, "conforming", n_ok)
    ck.count("samplers_" + part, "retry_semantics_observed", n_retry)
    ck.traces += len(seen)


def run(tier):
    ck = Check("C01", tier)
    ck.rule = ("one case per distinct TLC behaviour (config, start, draw sequence, stay/retry variant) replayed into the real "
               "sampler, plus one per tabulated attempt-kernel configuration; all are non-trivial (each fixes the outcome of "
               "at least one accept/reject decision)")
    ck.assumptions = ["lattice posterior logp = -ln2*E with integer E/T: Metropolis ratios are exact powers of two",
                      "uniform draws on the mid-point lattice (2i+1)/2^(M+1), M = 6",
                      "proposal widths frozen (tuning is a free parameter of the specification, DESIGN 2e)",
                      "stretch-move density and HMC volume preservation arguments are trusted calculus lemmas"]
    kernel_part(ck, tier)
    replay_part(ck, tier, "single_step")
    replay_part(ck, tier, "multi_step")
    from harness import ensemble, hmcstep
    ensemble.run_part(ck, tier)
    hmcstep.run_part(ck, tier)
    # each chain run under parallel tempering: a point installed by an exchange must carry the probability the next
    # accept/reject decision of the receiving chain needs (trace-validated real runs with forced exchanges)
    from harness import c03
    c03.pt_part(ck, tier, unforced=True)
    from harness import c08
    c08.pairs_part(ck, tier)            # every outcome of the pairing strategy proposes disjoint pairs (TightPairs.tla replayed)
    from harness import c09
    c09.kernel_after_reload_part(ck, tier)
    c03.dtype_part(ck, tier)        # whole-number inputs given as integer arrays: same kernel, same trajectory
    # the proposal map of the Hamiltonian sampler at temperatures other than one: trajectory end points of Leapfrog.tla (HmcStep.tla is T = 1)
    from harness import c07
    c07.orbit_part(ck, tier, reversibility=False)
    c07.massupdate_part(ck, tier)            # momenta are drawn from the law of the mass in force, also after the mass was re-estimated
    return ck.finish()
