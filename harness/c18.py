"""C18 -- acquisition functions compute what they define; proposals respect bounds.

MC   : Acquire.tla -- UCB, MaxVariance and expected improvement (closed form of E[max(f - ymax, 0)] under the predictive normal) and
       their spatial gradients, on the exact posteriors / derivative predictions of GpExact.tla; improvement z-scores from -29 to +5
       (both evaluation branches of EI).  AcquireSM.tla -- GpOptimiser as a state machine over propose / add sequences.
S->C : __call__, opt_func and opt_func_gradient of the three acquisition classes on every enumerated regressor state and query point.
C->S : every TLC call sequence executed on a real GpOptimiser (both optimisers); after each call the observed facts (proposal inside the
       bounds, data and fitted model sizes, last point, incumbent, caller arrays byte- and shape-identical) are validated by
       AcquireTrace.tla.
"""
import json
import math
import os
import warnings
import numpy as np

from harness.core import Check, run_tlc, must_pass, seed, scratch, MachineryError
from harness import gpexact as GE
from harness import gpkit as G
from harness import symlin as SL


def install():
    return


def values_part(ck, tier):
    from inference.gp.acquisition import ExpectedImprovement, UpperConfidenceBound, MaxVariance
    r = run_tlc("MC_Acquire", cfg_text="INIT Init\nNEXT Next\nINVARIANT VarOK\nCHECK_DEADLOCK FALSE\n", timeout=1800)
    if r.violated:
        ck.violation("spec: Acquire", {"violated": r.violated}, site="spec")
    must_pass(r, "MC_Acquire")
    ck.tlc(r, "acquisition_reference")
    tail = 0
    # ONE acquisition object of each kind is attached to every regressor in turn (update_gp): what it holds is the current model's
    from inference.gp.acquisition import ExpectedImprovement as _EI, UpperConfidenceBound as _UCB, MaxVariance as _MV
    shared_acqs = {"ei": _EI(), "ucb": _UCB(kappa=2.0), "ucb3": _UCB(kappa=3.0), "ucb0": _UCB(kappa=0.0), "maxvar": _MV()}
    for c in r.printed:
        pb = c["pb"]
        idn = GE.ident(pb)
        try:
            gp, hp, _ = GE.regressor(pb)
        except Exception as ex:
            ck.violation("GpRegressor raised", {**idn, "error": repr(ex)[:200]}, site="GpRegressor")
            continue
        acqs = shared_acqs
        for a in acqs.values():
            a.update_gp(gp)
        d = len(pb["X"][0])
        for p in c["pts"]:
            q = np.array(p["q"], dtype=float)
            x = q if d > 1 else q[:1]
            mu, v = G.fr(p["mu"]), G.fr(p["v"])
            z = (mu - p["ymax"]) / math.sqrt(v)
            tail += z < -3
            ident = {**idn, "query": p["q"], "z_score": z}
            ck.case((str(idn), str(p["q"])))
            if not SL.value(p["ei"]) > 1e-300:
                # EI itself is below the range of doubles here; the optimiser's objective -ln EI is not: its two forms are finite and agree
                ck.count("acquisition_reference", "query_points_with_EI_below_double_range", 1)
                try:
                    with np.errstate(all="ignore"):
                        of_ = float(acqs["ei"].opt_func(x))
                        ov_ = float(np.squeeze(acqs["ei"].opt_func_gradient(x)[0]))
                    if not (math.isfinite(of_) and math.isfinite(ov_) and abs(of_ - ov_) <= 1e-7 * max(1.0, abs(ov_))):
                        ck.violation("optimiser objective: value form and value-and-gradient form return the same objective (far tail, EI below the double range)",
                                     {**idn, "query": p["q"], "z_score": z, "opt_func": of_, "opt_func_gradient_value": ov_}, site="ExpectedImprovement.opt_func")
                except Exception as ex:
                    ck.violation("acquisition call raised", {**idn, "query": p["q"], "error": repr(ex)[:200]}, site="ExpectedImprovement")
                continue
            want = {"ei": SL.value(p["ei"]), "ucb": SL.value(p["ucb"]), "ucb3": SL.value(p["ucb3"]), "ucb0": SL.value(p["ucb0"]), "maxvar": G.fr(p["maxvar"])}
            wgrad = {"ei": np.array([SL.value(g) for g in p["gei"]]) / want["ei"],        # grad ln EI = grad EI / EI
                     "ucb": np.array([SL.value(g) for g in p["gucb"]]), "ucb3": np.array([SL.value(g) for g in p["gucb3"]]), "ucb0": np.array([SL.value(g) for g in p["gucb0"]]), "maxvar": np.array([SL.value(g) for g in p["gvar"]])}
            for name, acq in acqs.items():
                cname = type(acq).__name__ + ("(kappa=3)" if name == "ucb3" else "(kappa=0)" if name == "ucb0" else "")
                try:
                    with np.errstate(all="ignore"):
                        val = float(acq(x))
                        of = float(acq.opt_func(x))
                        ov, og = acq.opt_func_gradient(x)
                        ov, og = float(np.squeeze(ov)), np.asarray(og, dtype=float).reshape(-1)
                except Exception as ex:
                    ck.violation("acquisition call raised", {**ident, "class": cname, "error": repr(ex)[:200]}, site=f"{cname}")
                    continue
                w = want[name]
                rel = 1e-7 if name == "ei" else 1e-9
                if not (math.isfinite(val) and abs(val - w) <= rel * max(abs(w), 1e-300 if name == "ei" else 1.0)):
                    ck.violation("acquisition value: EI = E[max(f - ymax, 0)] under the predictive normal (both branches) / UCB = mean + kappa sd / "
                                 "MaxVariance = predictive variance", {**ident, "class": cname, "want": w, "got": val}, site=f"{cname}.__call__")
                    continue
                # objective used by the optimiser: -ln EI / -UCB / -variance, value form and value-and-gradient form
                wobj = -math.log(w) if name == "ei" else -w
                tol = 1e-7 * max(1.0, abs(wobj))
                if not (abs(of - wobj) <= tol and abs(ov - wobj) <= tol):
                    ck.violation("optimiser objective: value form and value-and-gradient form return the same objective",
                                 {**ident, "class": cname, "want": wobj, "opt_func": of, "opt_func_gradient_value": ov}, site=f"{cname}.opt_func")
                wg = -wgrad[name]
                gs = max(1.0, float(np.max(np.abs(wg))))
                if og.shape != wg.shape or not np.all(np.abs(og - wg) <= 1e-6 * gs):
                    ck.violation("optimiser objective gradient is the true spatial gradient", {**ident, "class": cname, "want": wg, "got": og},
                                 site=f"{cname}.opt_func_gradient")
            if len(ck.samples) < 3 and z < -3 and d == 2:
                ck.sample({**ident, "spec_EI": want["ei"], "spec_UCB": want["ucb"], "spec_grad_lnEI": wgrad["ei"].tolist()})
    ck.count("acquisition_reference", "query_points_in_far_tail_branch", int(tail))
    ck.traces += len(r.printed)


def optimiser_part(ck, tier):
    from inference.gp import GpOptimiser, ExpectedImprovement, UpperConfidenceBound, MaxVariance
    maxops = 3 if tier == "quick" else 4
    r = run_tlc("MC_AcquireSM", cfg_text=("SPECIFICATION Spec\nCONSTANTS YInit <- MCYInit\n YNew <- MCYNew\n Opts <- MCOpts\n MaxOps = %d\n"
                                          "INVARIANT ModelSeesAllData\nINVARIANT Export\nCHECK_DEADLOCK FALSE\n" % maxops))
    if r.violated:
        ck.violation("spec: AcquireSM", {"violated": r.violated}, site="spec")
    must_pass(r, "MC_AcquireSM")
    ck.tlc(r, "optimiser_model")
    rng = np.random.default_rng(seed() + 12)
    hists = r.printed
    # diffev proposals are slow: keep the histories with at most one of them, and a seeded sample
    hists = [h for h in hists if sum(1 for o in h["hist"] if o[1] == "diffev") <= 1]
    take = 14 if tier == "quick" else 60
    if len(hists) > take:
        hists = [hists[i] for i in rng.choice(len(hists), size=take, replace=False)]
    events, idents = [], []
    acqs = [ExpectedImprovement, UpperConfidenceBound, MaxVariance]
    for hi, h in enumerate(hists):
        dim = 1 + hi % 2
        acq = acqs[hi % 3]
        if dim == 1:
            x0 = np.array([-1.0, 0.5, 2.0])
            bounds = [(-2.0, 3.0)]
        else:
            x0 = np.array([[-1.0, 0.0], [0.5, 1.0], [2.0, -1.0]])
            bounds = [(-2.0, 3.0), (-2.0, 2.0)]
        bounds_list = list(bounds)
        if hi % 4 >= 2:
            bounds = np.array(bounds, dtype=float)       # the search bounds given as a float array of shape (dim, 2): the caller's array, left alone
        bkeep = np.array(bounds_list, dtype=float)
        # every other time the upper-confidence-bound acquisition is given as a configured INSTANCE (kappa = 3.5) instead of the class
        kappa = 3.5 if (acq is UpperConfidenceBound and (hi // 3) % 2 == 1) else None
        acq_arg = UpperConfidenceBound(kappa=kappa) if kappa is not None else acq
        y0 = np.array([1.0, -2.0, 0.0])
        e0 = np.array([0.1, 0.2, 0.1])
        keep = [x0.copy(), y0.copy(), e0.copy()]
        np.random.seed(int(rng.integers(0, 2 ** 31)))
        ident = {"history": h["hist"], "dim": dim, "acquisition": acq.__name__}
        ck.case(("opt", hi))

        def unchanged(extra=()):
            ok = all(a.shape == b.shape and np.array_equal(a, b) for a, b in zip((x0, y0, e0), keep)) and np.array_equal(np.asarray(bounds, dtype=float), bkeep)
            return bool(ok and all(a.shape == b.shape and np.array_equal(a, b) for a, b in extra))
        try:
            with warnings.catch_warnings(), np.errstate(all="ignore"):
                warnings.simplefilter("ignore")
                opt = GpOptimiser(x=x0, y=y0, y_err=e0, bounds=bounds, acquisition=acq_arg)
                acq_ok = True
                if acq is UpperConfidenceBound:
                    # the optimiser's own acquisition object computes mean + kappa * sd of ITS model with the kappa it was configured with
                    xq = np.array([0.3] * dim)
                    m_, s_ = opt.gp(xq.reshape(1, dim) if dim > 1 else xq)
                    want_u = float(m_[0]) + (kappa if kappa is not None else 2.0) * float(s_[0])
                    acq_ok = bool(abs(float(opt.acquisition(xq)) - want_u) <= 1e-9 * (1 + abs(want_u)) and
                                  abs(float(opt.acquisition.opt_func(xq)) + want_u) <= 1e-9 * (1 + abs(want_u)) and
                                  abs(float(opt.acquisition.opt_func_gradient(xq)[0]) + want_u) <= 1e-9 * (1 + abs(want_u)))
                    # kappa changed on the optimiser's acquisition object after construction (a schedule): value, objective and the GRADIENT
                    # are those of a fresh object built with the new kappa on the same model; then the original kappa again
                    k_old = opt.acquisition.kappa
                    for k_new in (0.75, 0.0, 5.0):
                        opt.acquisition.kappa = k_new
                        fresh_a = UpperConfidenceBound(kappa=k_new)
                        fresh_a.update_gp(opt.gp)
                        v1, g1 = opt.acquisition.opt_func_gradient(xq)
                        v2, g2 = fresh_a.opt_func_gradient(xq)
                        acq_ok = acq_ok and bool(float(v1) == float(v2) and np.array_equal(np.asarray(g1, dtype=float), np.asarray(g2, dtype=float))
                                                 and float(opt.acquisition(xq)) == float(fresh_a(xq)) and float(opt.acquisition.opt_func(xq)) == float(fresh_a.opt_func(xq)))
                    opt.acquisition.kappa = k_old
                evs = [{"ev": "Init", "ys": [int(v) for v in y0], "n": int(len(opt.y)), "gp_n": int(opt.gp.y.size), "acq_ok": acq_ok,
                        "mu_max": int(round(float(opt.acquisition.mu_max))), "caller_unchanged": unchanged()}]
                last_prop = None
                for op, o, yv in h["hist"]:
                    if op == "propose":
                        p = np.atleast_1d(np.asarray(opt.propose_evaluation(optimizer=o), dtype=float))
                        last_prop = p
                        inside = bool(p.shape == (dim,) and all(b[0] - 1e-9 <= v <= b[1] + 1e-9 for v, b in zip(p, bounds_list)))
                        evs.append({"ev": "Propose", "inside": inside, "n": int(len(opt.y)), "caller_unchanged": unchanged()})
                    else:
                        nx = (last_prop.copy() if last_prop is not None else np.array([0.25] * dim))
                        ny = np.array(float(yv))
                        ne = np.array(0.15)
                        kx, ky, ke = nx.copy(), ny.copy(), ne.copy()
                        errs_before = np.array(opt.y_err, dtype=float).copy()
                        opt.add_evaluation(nx, ny, new_y_err=ne)
                        evs.append({"ev": "Add", "y": int(yv), "n": int(len(opt.y)), "gp_n": int(opt.gp.y.size),
                                    "last_y": int(round(float(opt.y[-1]))),
                                    "last_x_ok": bool(len(opt.x) == len(opt.y) and np.allclose(np.ravel(opt.x[-1]), kx) and
                                                      np.allclose(np.ravel(opt.gp.x[-1]), kx) and opt.gp.x.shape[0] == len(opt.y)),
                                    "errs_aligned": bool(np.array_equal(np.asarray(opt.y_err, dtype=float), np.append(errs_before, 0.15))
                                                         and np.allclose(np.sqrt(np.diag(np.atleast_2d(opt.gp.sig))) if np.ndim(opt.gp.sig) == 2 else opt.gp.sig,
                                                                         np.append(errs_before, 0.15))),
                                    # (the incumbent as the acquisition holds it and, where the optimiser keeps its own copy, as the optimiser holds it)
                                    "mu_max": int(round(float(opt.acquisition.mu_max))) if float(getattr(opt, "mu_max", opt.acquisition.mu_max)) == float(opt.acquisition.mu_max)
                                    else -999999,
                                    "caller_unchanged": unchanged(((nx, kx), (ny, ky), (ne, ke)))})
                # data given as an INTEGER array, then a fractional evaluation added as a plain number: recorded in quarter units
                if hi % 4 == 1:
                    yi = np.array([1, -2, 0])
                    opi = GpOptimiser(x=x0, y=yi, y_err=e0, bounds=bounds, acquisition=acq)
                    evs.append({"ev": "Init", "ys": [4, -8, 0], "n": int(len(opi.y)), "gp_n": int(opi.gp.y.size),
                                "mu_max": int(round(4 * float(opi.acquisition.mu_max))), "caller_unchanged": bool(np.array_equal(yi, [1, -2, 0]) and yi.dtype.kind == "i")})
                    eb = np.array(opi.y_err, dtype=float).copy()
                    opi.add_evaluation(np.array([0.25] * dim), 3.75, new_y_err=0.15)
                    evs.append({"ev": "Add", "y": 15, "n": int(len(opi.y)), "gp_n": int(opi.gp.y.size), "last_y": int(round(4 * float(opi.y[-1]))),
                                "last_x_ok": bool(len(opi.x) == len(opi.y) and opi.gp.x.shape[0] == len(opi.y) and round(4 * float(opi.gp.y[-1])) == 15),
                                "errs_aligned": bool(np.array_equal(np.asarray(opi.y_err, dtype=float), np.append(eb, 0.15))),
                                "mu_max": int(round(4 * float(opi.acquisition.mu_max))), "caller_unchanged": bool(np.array_equal(yi, [1, -2, 0]))})
                # optimisers built with the DEFAULT acquisition are independent objects: construct and use another one, then look again
                if hi % 4 == 0:
                    # (with the default acquisition, or -- every other time -- with ONE acquisition object given to both optimisers)
                    shared = {} if hi % 8 == 0 else {"acquisition": acq()}
                    mine = GpOptimiser(x=x0, y=y0, y_err=e0, bounds=bounds, **shared)
                    evs.append({"ev": "Init", "ys": [int(v) for v in y0], "n": int(len(mine.y)), "gp_n": int(mine.gp.y.size),
                                "mu_max": int(round(float(mine.acquisition.mu_max))), "caller_unchanged": unchanged()})
                    other = GpOptimiser(x=x0 + 0.125, y=y0 + 7.0, y_err=e0, bounds=bounds, **shared)
                    other.add_evaluation(np.array([0.25] * dim), np.array(30.0), new_y_err=np.array(0.15))
                    evs.append({"ev": "Other", "n": int(len(mine.y)), "gp_n": int(mine.gp.y.size), "mu_max": int(round(float(mine.acquisition.mu_max))),
                                "own_model": bool(mine.acquisition.gp is mine.gp)})
        except Exception as ex:
            ck.violation("GpOptimiser call raised", {**ident, "error": repr(ex)[:300]}, site="GpOptimiser")
            continue
        for e in evs:
            events.append(e)
            idents.append({**ident, "event": e})
    d_ = scratch("c18_")
    path = os.path.join(d_, "trace.ndjson")
    with open(path, "w") as fh:
        for e in events:
            fh.write(json.dumps(e) + "\n")
    rt = run_tlc("AcquireTrace", workers=1, env={"TRACE_FILE": path}, timeout=600)
    if rt.error or rt.violated or any("REJECTED" in x for x in rt.raw_printed):
        raise MachineryError("AcquireTrace: %s %s" % (rt.error, rt.violated))
    ck.tlc(rt, "optimiser_traces")
    ck.traces += len(hists)
    import re
    bad = sorted({int(m.group(1)) - 1 for x in rt.raw_printed for m in [re.match(r'<<"BAD", (\d+)>>', x)] if m})
    for i in bad[:100]:
        e = idents[i]["event"]
        if e["ev"] == "Propose" and not e["inside"]:
            site = "GpOptimiser.propose_evaluation"
        elif not e.get("caller_unchanged", True):
            site = "GpOptimiser:ownership"
        elif e["ev"] == "Other":
            site = "GpOptimiser:independence"
        else:
            site = "GpOptimiser.add_evaluation"
        ck.violation("GpOptimiser: proposals inside the bounds; an added evaluation joins the data of the next model and updates the incumbent; "
                     "caller arrays unchanged", idents[i], site=site)
    ck.sample({"part": "optimiser", "history": hists[0]["hist"], "spec_final_ys": hists[0]["ys"], "spec_incumbent": hists[0]["inc"]})


def run(tier):
    ck = Check("C18", tier)
    ck.rule = "one case per (regressor state, query point) for the three acquisition classes, and one per TLC propose/add history executed on a real GpOptimiser"
    ck.assumptions = ["EI as the closed form of E[max(f - ymax, 0)] (textbook identity, not integrated)",
                      "continuity across the z = -3 switch is checked at the enumerated z-scores on both sides, not in the limit",
                      "tolerance for EI relative to EI itself (1e-7), so the far tail is meaningful"]
    install()
    values_part(ck, tier)
    optimiser_part(ck, tier)
    return ck.finish()
