"""C12 -- GaussianKDE is a faithful, normalised Gaussian kernel-density estimate.

MC   : KdeExact.tla -- the exact mixture density and cumulative function as SymLin values (exp / erf atoms at rational arguments) for every
       small sample (3-8 points over 4-5 levels, ties and gaps) and bandwidths 2^k/sqrt(2), on a half-integer grid from three cut-offs left of
       the data to three cut-offs right of it; plus bandwidths far larger than the data range.
S->C : the real __call__ and cdf must stay inside the explicit one-sided truncation band (density 0 <= exact - got <= 2.5e-3 kernel peaks, cdf
       within 5e-4), be non-negative, non-decreasing from 0 to 1, independent of sample / evaluation order, equal for scalar and array inputs.
C->S : affine covariance of bandwidth, density and cdf for the user / rule-of-thumb / cross-validated bandwidths on seeded samples (normal,
       bimodal, heavy-tailed, with ties), validated by KdeCovTrace.tla.
"""
from harness.core import Check
from harness import kde as K


def run(tier):
    ck = Check("C12", tier)
    ck.rule = "one case per TLC-enumerated (sample, bandwidth) with its whole evaluation grid, and one per (random sample, affine map, bandwidth mode)"
    ck.assumptions = ["band constants: density 2.5e-3 kernel peaks (analytic bound exp(-3.5^2/2) = 2.2e-3 for the observed cut-off of 4 bandwidths and "
                      "region width < 1 bandwidth), cdf 5e-4 (analytic 1 - Phi(3.5) = 2.3e-4)",
                      "quality of the cross-validated bandwidth as an estimator is not decided, only its scale covariance"]
    K.values_part(ck, tier)
    K.covariance_part(ck, tier)
    # the estimate with a cross-validated bandwidth (also chosen on a sub-sample) on continuous samples: tabulated and judged by PdfTable.tla
    # (non-negative, cdf non-decreasing from 0 to 1 and equal to the integral of the density, total probability one)
    from harness import pdftable
    pdftable.run_part(ck, tier, kinds=("kde_cv", "kde_cv_sub"))
    return ck.finish()
