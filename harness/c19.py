"""C19 -- density-estimator intervals, moments and normalisation are self-consistent (GaussianKDE clauses only).

MC   : KdeExact.tla -- closed-form mean, variance, skewness and excess kurtosis of the Gaussian mixture for light-tailed histograms with
       integer mean, exact mass between two points and density at them (KdeInterval.tla).
S->C : moments() of the real estimator on the replicated histogram under affine maps x -> a x + b (a from 2^-20 to 2^20, locations up to
       1e6 standard deviations from zero) against the closed form in units of the data's own scale; covariance between runs; mode.
C->S : interval(f) ends are quantised to 1/1024 and handed back to the reference, which prints the mass between them and the densities at
       the ends.
The UnimodalPdf clauses of C19 are NOT decided (quadrature / optimiser accuracy of a fitted curve: nothing exactly computable to model).
"""
from harness.core import Check
from harness import kde as K


def run(tier):
    ck = Check("C19", tier)
    ck.rule = "one case per (light-tailed integer-mean histogram, bandwidth, affine map); intervals: one per (histogram, bandwidth, fraction)"
    ck.assumptions = ["GaussianKDE clauses only; UnimodalPdf clauses excluded (DESIGN section 5)",
                      "histograms whose end levels hold one sample each, so that < 1e-3 of the mass lies outside the estimator's integration range (the property's proviso)",
                      "tolerances: mean 5e-3 std, variance 1e-2 relative, skewness 2e-2, excess kurtosis 5e-2; interval mass 1e-2, end densities 5e-2 of the peak (the interval search's own stopping tolerance)"]
    K.moments_part(ck, tier)
    return ck.finish()
