------------------------------- MODULE Select -------------------------------
(* C11 -- automatic hyper-parameter selection as a state machine: multi-start local optimisation inside a box.            *)
(* Scores are abstract integers on a small lattice of candidate points; a local optimiser never returns a point scoring    *)
(* worse than its start and never leaves the box; the start points include the centre; the result is the best local        *)
(* result.  Hence: result inside the bounds, Score(result) >= Score(centre).                                              *)
EXTENDS Integers, Sequences, FiniteSets, TLC
CONSTANTS Points,      \* candidate points inside the box (integers); the centre is 0
          Score,       \* Score[p]: model-selection score at p
          NStarts
VARIABLES starts, results, phase, best
vars == <<starts, results, phase, best>>
Init == /\ starts \in {s \in SUBSET Points : 0 \in s /\ Cardinality(s) <= NStarts} /\ results = {} /\ phase = "local" /\ best = 0
\* one local run from a start not yet processed: ends anywhere in the box with a score at least that of the start
Local == /\ phase = "local" /\ \E s \in starts \ {r[1] : r \in results} :
              \E e \in Points : Score[e] >= Score[s] /\ results' = results \cup {<<s, e>>}
         /\ UNCHANGED <<starts, phase, best>>
Pick == /\ phase = "local" /\ {r[1] : r \in results} = starts
        /\ best' = CHOOSE e \in {r[2] : r \in results} : \A f \in {r[2] : r \in results} : Score[e] >= Score[f]
        /\ phase' = "done" /\ UNCHANGED <<starts, results>>
Next == Local \/ Pick
Spec == Init /\ [][Next]_vars
InBounds == phase = "done" => best \in Points
AtLeastCentre == phase = "done" => Score[best] >= Score[0]
=============================================================================
