------------------------------- MODULE SymLin -------------------------------
(* Values of the form   rat + SUM_i coef_i * atom_i   with exact rational coefficients and ATOMS that stay symbolic:       *)
(*    <<"ln", <<n,d>>>>      natural log of an exact rational          <<"lnpi">>  ln(pi)       <<"ln2">>  ln 2             *)
(*    <<"ln1p2", e>>         ln(1 + 2^e)  (e any integer, e.g. 600)     <<"sqrt", <<n,d>>>>   <<"exp", <<n,d>>>>            *)
(*    <<"erf", <<n,d>>>>     <<"r2p", e>>  (2^e - 1)/(2^e + 1)          <<"isqrtpi">> 1/sqrt(pi)  <<"pi">>                  *)
(* The module is closed under + and rational scaling, which is all that log-densities, their gradients, log-determinants   *)
(* and kernel gradients need.  TLC prints the coefficient table; the harness evaluates the atoms with Python's math at      *)
(* the exact arguments (trusted base) and compares with the implementation.                                                *)
EXTENDS Rational
SZero == [rat |-> RZero, atoms |-> <<>>]
SRat(q) == [rat |-> q, atoms |-> <<>>]
SAtom(c, a) == [rat |-> RZero, atoms |-> << <<c, a>> >>]
SAdd(x, y) == [rat |-> RAdd(x.rat, y.rat), atoms |-> x.atoms \o y.atoms]
SScale(c, x) == [rat |-> RMul(c, x.rat), atoms |-> [i \in 1..Len(x.atoms) |-> <<RMul(c, x.atoms[i][1]), x.atoms[i][2]>>]]
SNeg(x) == SScale(RNeg(ROne), x)
RECURSIVE SSum(_, _)
SSum(f, n) == IF n = 0 THEN SZero ELSE SAdd(SSum(f, n - 1), f[n])          \* f: sequence of SymLin values
SLn(c, q) == SAtom(c, <<"ln", q>>)
=============================================================================
