---------------------------- MODULE MC_LimitsMap ----------------------------
(* Enumerates boxes; checks the map laws on the specification's own maps and exports, per box,      *)
(* the expected image and momentum sign of every t in a window of R lattice units around the box.   *)
EXTENDS LimitMaps, Json
CONSTANTS LoMin, LoMax, WMax, R
VARIABLES lo, w, out
Lo0 == -LoMin
MInit == lo \in Lo0..LoMax /\ w \in 1..WMax /\ out = 0
MNext == /\ out = 0 /\ out' = 1 /\ UNCHANGED <<lo, w>>
         /\ PrintT(ToJson([lo |-> lo, hi |-> lo + w, r |-> R,
                           img |-> [i \in 1..(w + 2*R + 1) |-> Reflect(lo, lo + w, lo - R + i - 1)],
                           sgn |-> [i \in 1..(w + 2*R + 1) |-> ReflectSign(lo, lo + w, lo - R + i - 1)],
                           fold |-> [i \in 1..(w + 2*R + 1) |-> Fold(lo - R + i - 1)]]))
Laws == MapLaws(lo, lo + w, R)
FoldLaws == \A t \in -R..R : Fold(t) >= 0 /\ (t >= 0 => Fold(t) = t) /\ Fold(-t) = Fold(t)
=============================================================================
