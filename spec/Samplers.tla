------------------------------ MODULE Samplers ------------------------------
(***************************************************************************)
(* C01 / C03 / C04 -- step-level state machine of the Metropolis-type       *)
(* samplers (MetropolisChain, GibbsChain, PcaChain before its first         *)
(* direction update) on an integer lattice.                                 *)
(*                                                                         *)
(* The user's posterior is logp(x) = -ln2 * E(x) with an integer energy E   *)
(* (additive table + optional coupling); the chain temperature T divides    *)
(* E exactly, so every Metropolis ratio is 2^-d with integer d and the      *)
(* specification works in integers.  Uniform draws live on the mid-point    *)
(* lattice u_i = (2i+1)/2^(M+1), so no comparison is ever close to its      *)
(* threshold.                                                               *)
(*                                                                         *)
(* One action per decision of the code: Attempt (draw, evaluate, decide;    *)
(* on rejection either RejectStay -- textbook: the coordinate keeps its     *)
(* value -- or RejectRetry -- AS BUILT: the coordinate is re-proposed until *)
(* accepted, a named deviation, DESIGN section 6 F1), Commit.               *)
(***************************************************************************)
EXTENDS LimitMaps
CONSTANTS Configs,      \* set of records [kind, n, T, mode, blo, bhi, tab, couple, starts]
                        \*   kind in {"metropolis","gibbs","pca"}, n in {1,2}, T in {1,2,4},
                        \*   mode in {"free","box","nonneg","boxnn"}, tab: energy table name, starts: set of start tuples
          WLo, WHi,     \* lattice window on which the energy tables are given
          Tables,       \* Tables[name][v - WLo + 1] = additive energy of coordinate value v (multiples of 4)
          Outside,      \* energy of a coordinate outside the window
          KSet,         \* integer proposal displacements offered per coordinate
          M,            \* the uniform lattice has 2^M mid-points
          MaxAtt,       \* bound on attempts per step (exploration bound only)
          MaxSteps      \* bound on committed steps per behaviour

RECURSIVE Pow2(_)
Pow2(n) == IF n = 0 THEN 1 ELSE 2 * Pow2(n - 1)
Abs(v) == IF v < 0 THEN -v ELSE v
E1(c, v) == IF v >= WLo /\ v <= WHi THEN Tables[c.tab][v - WLo + 1] ELSE Outside
Energy(c, x) == IF c.n = 1 THEN E1(c, x[1]) ELSE E1(c, x[1]) + E1(c, x[2]) + c.couple * Abs(x[1] - x[2])
\* proposal post-processing per coordinate
\* "boxnn": boundaries (blo < 0) AND the non-negativity switch: the interval in force is [max(blo, 0), bhi], mirrored at both of ITS ends
Prop(c, t) == CASE c.mode = "free" -> t [] c.mode = "box" -> Reflect(c.blo, c.bhi, t) [] c.mode = "nonneg" -> Fold(t)
                [] c.mode = "boxnn" -> Reflect(IF c.blo < 0 THEN 0 ELSE c.blo, c.bhi, t)

\* decision with uniform mid-point index ui:  accept iff uphill/level, or u < 2^-(dE/T)
AcceptU(c, dE, ui) == IF dE <= 0 THEN TRUE
                      ELSE IF dE \div c.T > M THEN FALSE
                      ELSE (2 * ui + 1) * Pow2(dE \div c.T) < Pow2(M + 1)
\* decision-relevant uniform indices for a downhill move of d = dE/T levels: just below and just above 2^-d
URelevant(c, dE) == IF dE <= 0 THEN {0}
                    ELSE IF dE \div c.T > M THEN {Pow2(M) - 1}
                    ELSE {Pow2(M - dE \div c.T) - 1, Pow2(M - dE \div c.T)} \cap 0..(Pow2(M) - 1)

VARIABLES cf,         \* configuration of this behaviour
          chain,      \* sequence of committed samples
          probs,      \* probs[k] = energy whose tempered log-probability is stored for chain[k]
          work,       \* working point inside the step
          pold,       \* energy of the last accepted point inside the step
          coord,      \* coordinate being updated (gibbs / pca); 1 for metropolis
          natt,       \* attempts made in the current step
          nretry,     \* RejectRetry actions taken in this behaviour
          nstay,      \* RejectStay actions taken in this behaviour
          draws,      \* draws consumed in this behaviour: <<k-tuple, ui>>
          evals       \* points handed to the posterior in this behaviour
svars == <<cf, chain, probs, work, pold, coord, natt, nretry, nstay, draws, evals>>

Last(s) == s[Len(s)]
SInit == /\ cf \in Configs
         /\ \E s \in cf.starts : chain = <<s>> /\ probs = <<Energy(cf, s)>> /\ work = s /\ pold = Energy(cf, s)
         /\ coord = 1 /\ natt = 0 /\ nretry = 0 /\ nstay = 0 /\ draws = <<>> /\ evals = <<>>

NCoord == IF cf.kind = "metropolis" THEN 1 ELSE cf.n
\* candidate for displacement tuple k (metropolis: all coordinates from the last sample; gibbs/pca: coordinate coord)
Cand(k) == IF cf.kind = "metropolis" THEN [j \in 1..cf.n |-> Prop(cf, Last(chain)[j] + k[j])]
           ELSE [work EXCEPT ![coord] = Prop(cf, work[coord] + k[1])]
KTuples == IF cf.kind = "metropolis" /\ cf.n = 2 THEN KSet \X KSet ELSE {<<k>> : k \in KSet}

Attempt(k, ui) ==
    /\ coord <= NCoord /\ Len(chain) <= MaxSteps /\ natt < MaxAtt
    /\ LET c == Cand(k)  dE == Energy(cf, c) - pold  acc == AcceptU(cf, dE, ui) IN
         /\ ui \in URelevant(cf, dE)
         /\ evals' = Append(evals, c)
         /\ draws' = Append(draws, <<k, ui>>)
         /\ natt' = natt + 1
         /\ IF acc THEN /\ work' = c /\ pold' = Energy(cf, c) /\ coord' = coord + 1 /\ UNCHANGED <<nretry, nstay>>
                   ELSE \* a sampler follows ONE rejection semantics throughout a behaviour
                        \/ /\ nstay = 0 /\ UNCHANGED <<work, pold, coord, nstay>> /\ nretry' = nretry + 1       \* RejectRetry (as built)
                        \/ /\ nretry = 0 /\ UNCHANGED <<work, pold, nretry>> /\ coord' = coord + 1 /\ nstay' = nstay + 1   \* RejectStay
    /\ UNCHANGED <<cf, chain, probs>>
Commit == /\ coord = NCoord + 1 /\ Len(chain) <= MaxSteps
          /\ chain' = Append(chain, work) /\ probs' = Append(probs, pold)
          /\ coord' = 1 /\ natt' = 0
          /\ UNCHANGED <<cf, work, pold, nretry, nstay, draws, evals>>
SNext == Commit \/ \E k \in KTuples, ui \in 0..(Pow2(M) - 1) : Attempt(k, ui)
SSpec == SInit /\ [][SNext]_svars

\* ---------------------------------------------------------------- properties
ProbsBelong == /\ Len(probs) = Len(chain)                                  \* C03: k-th probability belongs to k-th sample
               /\ \A i \in 1..Len(chain) : probs[i] = Energy(cf, chain[i])
WorkConsistent == pold = Energy(cf, work)                                  \* the "old" value of the ratio is the current point's
InsideLimits(x) == \A j \in 1..cf.n : CASE cf.mode = "free" -> TRUE [] cf.mode = "box" -> x[j] >= cf.blo /\ x[j] <= cf.bhi
                                         [] cf.mode = "nonneg" -> x[j] >= 0
                                         [] cf.mode = "boxnn" -> x[j] >= 0 /\ x[j] >= cf.blo /\ x[j] <= cf.bhi
SamplesInside == \A i \in 1..Len(chain) : InsideLimits(chain[i])            \* C04 (starts are chosen inside)
EvalsInside == \A i \in 1..Len(evals) : InsideLimits(evals[i])              \* C04
\* the indices whose stored probability is maximal (C03: the mode is one of these samples)
ArgMax == {i \in 1..Len(chain) : \A j \in 1..Len(chain) : probs[i] <= probs[j]}
AtCommit == coord = 1 /\ natt = 0 /\ Len(chain) > 1
=============================================================================
