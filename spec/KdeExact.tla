------------------------------- MODULE KdeExact -------------------------------
(***************************************************************************)
(* C12 / C19 (GaussianKDE half) -- a Gaussian kernel-density estimate with  *)
(* equal weights and one bandwidth is a finite Gaussian mixture; everything *)
(* the properties say about it has a closed form.                           *)
(*                                                                         *)
(* A sample is a histogram over integer levels: cnt[l - Lo + 1] copies of   *)
(* level l (replicating every count by a common factor changes nothing, so  *)
(* samples of thousands of points cost nothing here).  The bandwidth is     *)
(* h = 2^k / sqrt(2), so that (x - s)/(sqrt(2) h) = (x - s)/2^k is rational.*)
(*   pdf(x) = 1/(n h sqrt(2 pi)) SUM c_l exp(-((x-l)/2^k)^2)                *)
(*          = 2^-k / (n sqrt(pi)) SUM ...                                   *)
(*   cdf(x) = 1/(2n) SUM c_l (1 + erf((x-l)/2^k))                           *)
(*   mean = m1, variance = m2c + h^2, third central moment = m3c,           *)
(*   fourth = m4c + 6 m2c h^2 + 3 h^4    (m.c = central moments of sample)  *)
(***************************************************************************)
EXTENDS SymLin, FiniteSets, TLC
Levels(hs) == hs.lo..(hs.lo + Len(hs.cnt) - 1)
Cnt(hs, l) == hs.cnt[l - hs.lo + 1]
RECURSIVE ISumS(_, _)
ISumS(f, n) == IF n = 0 THEN 0 ELSE ISumS(f, n - 1) + f[n]
NTot(hs) == ISumS(hs.cnt, Len(hs.cnt))
Q(k) == RPow2(-k)                                            \* 1/(sqrt(2) h)
H2(k) == RMul(<<1, 2>>, RPow2(2 * k))                        \* h^2
\* density and cumulative function at a rational point x
Pdf(hs, k, x) == SSum([i \in 1..Len(hs.cnt) |->
      LET l == hs.lo + i - 1  z == RMul(RSub(x, RInt(l)), Q(k)) IN
      SAtom(RDiv(RMul(RInt(hs.cnt[i]), Q(k)), RInt(NTot(hs))), <<"prod", <<"isqrtpi">>, <<"exp", RNeg(RMul(z, z))>>>>)], Len(hs.cnt))
Cdf(hs, k, x) == SSum([i \in 1..Len(hs.cnt) |->
      LET l == hs.lo + i - 1  z == RMul(RSub(x, RInt(l)), Q(k))  w == RDiv(RInt(hs.cnt[i]), RInt(2 * NTot(hs))) IN
      SAdd(SRat(w), SAtom(w, <<"erf", z>>))], Len(hs.cnt))
\* peak height of one kernel (the unit in which the truncation band is stated)
KernelPeak(hs, k) == SAtom(RDiv(Q(k), RInt(NTot(hs))), <<"isqrtpi">>)
\* ---- moments (histograms whose mean is an integer, so that central moments have denominator n) -----------------------
S1(hs) == ISumS([i \in 1..Len(hs.cnt) |-> hs.cnt[i] * (hs.lo + i - 1)], Len(hs.cnt))
MeanInt(hs) == S1(hs) % NTot(hs) = 0
Mu(hs) == S1(hs) \div NTot(hs)
Central(hs, p) == RDiv(RInt(ISumS([i \in 1..Len(hs.cnt) |->
                     LET d == hs.lo + i - 1 - Mu(hs) IN hs.cnt[i] * (CASE p = 2 -> d * d [] p = 3 -> d * d * d [] p = 4 -> d * d * d * d)],
                     Len(hs.cnt))), RInt(NTot(hs)))
Mean(hs, k) == RInt(Mu(hs))
Var(hs, k) == RAdd(Central(hs, 2), H2(k))
Skew(hs, k) == SAtom(Central(hs, 3), <<"pow", Var(hs, k), <<-3, 2>>>>)                     \* m3c / var^(3/2)
Kurt(hs, k) == RSub(RDiv(RAdd(RAdd(Central(hs, 4), RMul(RInt(6), RMul(Central(hs, 2), H2(k)))), RMul(RInt(3), RMul(H2(k), H2(k)))),
                         RMul(Var(hs, k), Var(hs, k))), RInt(3))
\* properties of the reference: variance positive, excess kurtosis >= -2, covariance under x -> a x + b is algebraic
RefOK(hs, k) == RLess(RZero, Var(hs, k)) /\ RLeq(RInt(-2), Kurt(hs, k))
=============================================================================
