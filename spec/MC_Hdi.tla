---- MODULE MC_Hdi ----
EXTENDS Hdi, Json
CONSTANTS MaxLen, Levels
VARIABLES s, k, out
Init == /\ s \in UNION {[1..n -> 0..(Levels - 1)] : n \in 2..MaxLen} /\ k \in 1..(Den - 1) /\ out = 0
Next == out = 0 /\ out' = 1 /\ UNCHANGED <<s, k>> /\ PrintT(ToJson([s |-> s, k |-> k]))
AlgGood == AlgorithmIsGood(s, k)
====
