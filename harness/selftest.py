"""Binding self-test:  ./check selftest

Demonstrates that the trace specifications are bound to what they read: a recorded field is corrupted, or an event
dropped, and TLC must reject the trace (or report the record).  Exit 0 iff every corruption is rejected and every
untouched trace is accepted.  Not a property check; results go to evidence/selftest.json.
"""
import copy
import json
import os
import time

from harness.core import run_tlc, scratch, seed, EVID, tla_val
from harness import c08
from harness import pt as PT


def _tlc_trace(module, events, **kw):
    d = scratch("self_")
    path = os.path.join(d, "trace.ndjson")
    with open(path, "w") as fh:
        for e in events:
            fh.write(json.dumps(e) + "\n")
    return run_tlc(module, workers=1, env={"TRACE_FILE": path}, timeout=600, **kw)


def _rejected(r):
    return bool(r.violated or r.error or any("REJECTED" in x or "BAD" in x for x in r.raw_printed))


def run(tier):
    t0 = time.time()
    results = []

    def record(name, ok, detail=""):
        results.append({"test": name, "ok": bool(ok), "detail": detail})
        print(("ok   " if ok else "FAIL ") + name + (" -- " + detail if detail else ""))

    # --- PTTrace on a real multi-process run
    args = dict(temps=[1, 2, 4], starts=[[-3, 4], [4, -3], [0, 1]], kind="gibbs", display=True, seed=seed() + 51, force="accept", stats=True,
                prog=[["steps", 2], ["swap"], ["steps", 2], ["swap"], ["return"], ["shutdown"]], delays=[0.0, 0.0, 0.0])
    sc = c08.run_scenario(args)

    class _Ck:
        parts = {}

        def tlc(self, r, part):
            pass
    ok, st, r, rej = c08.validate_trace(_Ck(), args, sc, "selftest")
    record("PTTrace accepts the untouched trace of a real run", ok, f"{len(sc['events'])} events, exchanges {st}")
    ev = copy.deepcopy(sc["events"])
    upd = [i for i, e in enumerate(ev) if e["p"] == "M" and e.get("task") == "update_position"]
    if upd:
        ev[upd[0]]["e"] += 4
        sc2 = dict(sc, events=ev)
        ok2, *_ = c08.validate_trace(_Ck(), args, sc2, "selftest")
        record("PTTrace rejects an exchanged energy altered by one level", not ok2)
    ev = copy.deepcopy(sc["events"])
    steps = [i for i, e in enumerate(ev) if e["p"] == "W2" and e.get("ev") == "step"]
    del ev[steps[1]]
    ok3, *_ = c08.validate_trace(_Ck(), args, dict(sc, events=ev), "selftest")
    record("PTTrace rejects a trace with one worker step event removed", not ok3)
    ev = copy.deepcopy(sc["events"])
    pos = [i for i, e in enumerate(ev) if e["p"] == "W1" and e.get("reply") == "position"]
    ev[pos[0]]["tp4"] += 4
    ok4, *_ = c08.validate_trace(_Ck(), args, dict(sc, events=ev), "selftest")
    record("PTTrace rejects a reported log-probability that does not belong to the reported point", not ok4)
    ev = copy.deepcopy(sc["events"])
    sts = [i for i, e in enumerate(ev) if e["p"] == "M" and e.get("ev") == "swapstats"]
    hit = next(k for k, t in enumerate(ev[sts[-1]]["suc"]) if t[2] > 0)
    t = ev[sts[-1]]["suc"][hit]
    other = next(k for k, u in enumerate(ev[sts[-1]]["suc"]) if u[0] == t[1] and u[1] == t[0])
    ev[sts[-1]]["suc"][other][2], ev[sts[-1]]["suc"][hit][2] = t[2], 0
    ok5, *_ = c08.validate_trace(_Ck(), args, dict(sc, events=ev), "selftest")
    record("PTTrace rejects exchange statistics booked under the transposed pair", not ok5)
    ev = copy.deepcopy(sc["events"])
    ev[sts[0]]["att"][0][2] += 1
    ok6, *_ = c08.validate_trace(_Ck(), args, dict(sc, events=ev), "selftest")
    record("PTTrace rejects an attempted-exchange count that is one too high", not ok6)

    # --- RunFor
    good = [{"ev": "Begin", "budget": 1000}, {"ev": "Clock", "t": 0}, {"ev": "Steps", "n": 20}, {"ev": "Clock", "t": 600},
            {"ev": "Steps", "n": 5}, {"ev": "Clock", "t": 1100}, {"ev": "End", "added": 25}]
    record("RunFor accepts a well-formed timed run", not _rejected(_tlc_trace("RunFor", good)))
    early = good[:4] + [{"ev": "End", "added": 20}]
    record("RunFor rejects a return before the budget is used up", _rejected(_tlc_trace("RunFor", early)))
    late = good[:6] + [{"ev": "Steps", "n": 1}, {"ev": "End", "added": 26}]
    record("RunFor rejects a step after the deadline was seen", _rejected(_tlc_trace("RunFor", late)))
    idle = good[:3] + [{"ev": "Clock", "t": 100 + i} for i in range(9)] + good[3:]
    record("RunFor rejects nine consecutive idle clock reads (StarvationFree)", _rejected(_tlc_trace("RunFor", idle)))
    short = good[:6] + [{"ev": "End", "added": 24}]
    record("RunFor rejects a chain that grew by fewer samples than steps taken", _rejected(_tlc_trace("RunFor", short)))

    # --- LimitsTrace
    lt = [{"ev": "Init", "sampler": "pca", "n": 2}, {"ev": "Eval", "ex": [0, 0]}, {"ev": "Commit", "ex": [0, 3]}]
    record("LimitsTrace accepts points inside the limits (<= 4 ulp)", not _rejected(_tlc_trace("LimitsTrace", lt)))
    lt2 = lt[:2] + [{"ev": "Commit", "ex": [0, 9]}]
    record("LimitsTrace rejects a sample 9 ulp outside", _rejected(_tlc_trace("LimitsTrace", lt2)))

    # --- ReadoutTrace / HdiTrace / AcquireTrace (record-by-record reporting)
    ro = {"n": 6, "burn": 1, "thin": 2, "f8": 4, "m": 0, "rank": [0, 5, 1, 4, 2, 3], "ids": [1, 3], "pids": [1, 3], "ndim": 2}
    record("ReadoutTrace accepts the top half of rows 1,3,5 by probability", not _rejected(_tlc_trace("ReadoutTrace", [ro])))
    record("ReadoutTrace reports a row outside the requested top fraction", _rejected(_tlc_trace("ReadoutTrace", [dict(ro, ids=[1, 5], pids=[1, 5])])))
    record("ReadoutTrace reports a probability belonging to another row", _rejected(_tlc_trace("ReadoutTrace", [dict(ro, pids=[3, 1])])))
    hd = {"s": [0, 4, 7, 9, 10, 11], "k": 8, "r": [7, 11], "same": [[7, 11]], "rp": [7, 11], "ra": [14, 22], "a": 2, "b": 0, "unchanged": True, "rf": [7, 11], "ric": [[7, 11]],
          "gs": [0, 536870896, 939524047, 1207959471, 1342177180, 1476394887], "rg": [1207959471, 1476394887]}                                                    # the sample under g(v) = 2^27 v - v^2
    record("HdiTrace accepts the shortest interval", not _rejected(_tlc_trace("HdiTrace", [hd])))
    record("HdiTrace reports a longer interval with the same count", _rejected(_tlc_trace("HdiTrace", [dict(hd, r=[4, 10], same=[[4, 10]], rp=[4, 10], ra=[8, 20])])))
    record("HdiTrace reports a modified caller array", _rejected(_tlc_trace("HdiTrace", [dict(hd, unchanged=False)])))
    # four equally spaced values under the concave map: the three windows of two points have widths 2^27 - 1, - 3, - 5 (equal to 7 digits)
    hq = {"s": [0, 1, 2, 3], "k": 8, "r": [0, 1], "same": [[0, 1]], "rp": [0, 1], "ra": [0, 2], "a": 2, "b": 0, "unchanged": True, "rf": [0, 1],
          "ric": [[0, 1]], "gs": [0, 2 ** 27 - 1, 2 ** 28 - 4, 3 * 2 ** 27 - 9], "rg": [2 ** 28 - 4, 3 * 2 ** 27 - 9]}
    record("HdiTrace accepts the right-most of three windows whose widths agree to 7 digits", not _rejected(_tlc_trace("HdiTrace", [hq])))
    record("HdiTrace reports the left-most of them (what a single-precision ranking returns)", _rejected(_tlc_trace("HdiTrace", [dict(hq, rg=[0, 2 ** 27 - 1])])))
    # tied ranks: six rows, ranks 0,1,1,1,1,2, top half = row 5 and any two of rows 1..4
    rt_ = {"n": 6, "burn": 0, "thin": 1, "f8": 4, "m": 0, "rank": [0, 1, 1, 1, 1, 2], "ids": [5, 1, 2], "pids": [5, 1, 2], "ndim": 2}
    record("ReadoutTrace accepts one tie-break of a top half with tied log-probabilities", not _rejected(_tlc_trace("ReadoutTrace", [rt_])))
    record("ReadoutTrace accepts another tie-break of it", not _rejected(_tlc_trace("ReadoutTrace", [dict(rt_, ids=[3, 5, 4], pids=[3, 5, 4])])))
    record("ReadoutTrace reports the whole group of tied rows returned for the top half", _rejected(_tlc_trace("ReadoutTrace", [dict(rt_, ids=[5, 1, 2, 3, 4], pids=[5, 1, 2, 3, 4])])))
    record("ReadoutTrace reports a kept row that a dropped row outranks", _rejected(_tlc_trace("ReadoutTrace", [dict(rt_, ids=[0, 5, 1], pids=[0, 5, 1])])))
    record("ReadoutTrace accepts a requested count served from the tied group", not _rejected(_tlc_trace("ReadoutTrace", [dict(rt_, m=2, ids=[4, 2], pids=[4, 2])])))
    record("ReadoutTrace reports a requested count served with the least probable row", _rejected(_tlc_trace("ReadoutTrace", [dict(rt_, m=2, ids=[0, 5], pids=[0, 5])])))
    aq = [{"ev": "Init", "ys": [1, -2, 0], "n": 3, "gp_n": 3, "mu_max": 1, "caller_unchanged": True},
          {"ev": "Add", "y": 5, "n": 4, "gp_n": 4, "last_y": 5, "last_x_ok": True, "errs_aligned": True, "mu_max": 5, "caller_unchanged": True}]
    record("AcquireTrace accepts an add that updates data, model and incumbent", not _rejected(_tlc_trace("AcquireTrace", aq)))
    record("AcquireTrace reports a stale incumbent", _rejected(_tlc_trace("AcquireTrace", [aq[0], dict(aq[1], mu_max=1)])))
    record("AcquireTrace reports a model not refitted to the new point", _rejected(_tlc_trace("AcquireTrace", [aq[0], dict(aq[1], gp_n=3)])))

    # --- TestRunTrace (records of the repository's own tests)
    adv = {"ev": "Advance", "m": 25, "before": {"cls": "GibbsChain", "samples": 1, "probs": 1, "length": 1, "walkers": 1},
           "after": {"cls": "GibbsChain", "samples": 26, "probs": 26, "length": 26, "walkers": 1, "pd": [[0, 0], [25, 3]], "ex": 0}}
    ro = {"ev": "Readout", "cls": "GibbsChain", "call": "get_sample", "n": 9, "burn": 2, "thin": 3, "ids": [2, 5, 8], "ndim": 2}
    cfgt = "SPECIFICATION TraceSpec\nCONSTRAINT Progress\nPOSTCONDITION TraceAccepted\nCHECK_DEADLOCK FALSE\n"

    def bad_tr(recs):
        r = _tlc_trace("TestRunTrace", recs, cfg_text=cfgt)
        return bool(r.error or r.violated or r.printed)
    record("TestRunTrace accepts a well-formed advance and read-out", not bad_tr([adv, ro]))
    record("TestRunTrace reports an advance that stored one sample too few", bad_tr([dict(adv, after=dict(adv["after"], samples=25))]))
    record("TestRunTrace reports a stored probability that is not the posterior at its sample", bad_tr([dict(adv, after=dict(adv["after"], pd=[[0, 0], [25, 5000]]))]))
    record("TestRunTrace reports a stored sample 9 ulp outside its limits", bad_tr([dict(adv, after=dict(adv["after"], ex=9))]))
    record("TestRunTrace reports a read-out that starts one row late", bad_tr([dict(ro, ids=[3, 6])]))

    # --- ProgressTrace: a timed run of 2 s with steps of 0.5 s (messages after 20 and 21 steps), then an ensemble run of two iterations
    pg = [{"ev": "Begin", "call": "run_for", "m": 2000, "display": True, "t": 0},
          {"ev": "Count", "steps": 20, "h": -1, "mi": 59, "s": 52, "done": 20, "t": 10000},
          {"ev": "Final", "steps": 20, "h": 0, "mi": 0, "s": 2, "done": 20, "t": 10000}, {"ev": "End", "added": 20},
          {"ev": "Begin", "call": "ensemble", "m": 2, "display": True, "t": 0},
          {"ev": "Iter", "k": 0, "total": 2, "plain": True, "eta": 0, "done": 0, "t": 0},
          {"ev": "Iter", "k": 1, "total": 2, "plain": False, "eta": 3, "done": 1, "t": 3400},
          {"ev": "Iter", "k": 2, "total": 2, "plain": False, "eta": 0, "done": 2, "t": 6800},
          {"ev": "Iter", "k": 2, "total": 2, "plain": True, "eta": 0, "done": 2, "t": 6800}, {"ev": "End", "added": 2}]

    def bad_pg(recs):
        return _rejected(_tlc_trace("ProgressTrace", recs, cfg_text=cfgt))

    def edit(i, **kw):
        return [dict(e, **kw) if k == i else e for k, e in enumerate(pg)]
    record("ProgressTrace accepts a timed run and an ensemble run as displayed", not bad_pg(pg))
    record("ProgressTrace reports a remaining time that is not the deadline minus now", bad_pg(edit(1, s=51)))
    record("ProgressTrace reports a step count in the message that is not the growth of the chain", bad_pg(edit(2, steps=21)))
    record("ProgressTrace reports an ETA of the wrong iteration", bad_pg(edit(7, eta=3)))
    record("ProgressTrace reports a missing closing message", bad_pg(pg[:8] + pg[9:]))
    record("ProgressTrace reports a message written while the display is off", bad_pg([dict(pg[4], display=False)] + pg[5:]))

    # a tempering run_for of 3 s with cycles of 21 ms (batches of 95 cycles): messages after 96 and 191 cycles, the second 1.011 s late
    pr = [{"ev": "Begin", "call": "pt_run_for", "m": 3000, "si": 7, "cms": 21, "display": True, "t": 0},
          {"ev": "PtCount", "h": 0, "mi": 0, "s": 0, "cyc": 96, "t": 2016},
          {"ev": "PtCount", "h": -1, "mi": 59, "s": 58, "cyc": 191, "t": 4011},
          {"ev": "PtDone", "cyc": 191, "steps": 1337, "t": 4011}, {"ev": "End", "added": 1337}]

    def edit_pr(i, **kw):
        return [dict(e, **kw) if k == i else e for k, e in enumerate(pr)]
    record("ProgressTrace accepts a timed tempering run as displayed", not bad_pg(pr))
    record("ProgressTrace reports a tempering batch of the wrong number of cycles", bad_pg(edit_pr(1, cyc=97)))
    record("ProgressTrace reports a tempering time remaining that is not floor(deadline - now)", bad_pg(edit_pr(2, s=59)))
    record("ProgressTrace reports a tempering batch started after the deadline", bad_pg(edit_pr(2, t=5100, h=-1, mi=59, s=57)))
    record("ProgressTrace reports a closing tempering message before the deadline", bad_pg([pr[0], pr[1], dict(pr[3], cyc=96, steps=672, t=2016), dict(pr[4], added=672)]))
    record("ProgressTrace reports chains that grew by other than cycles x swap_interval", bad_pg(edit_pr(3, steps=1330)))

    allok = all(r["ok"] for r in results)
    os.makedirs(EVID, exist_ok=True)
    with open(os.path.join(EVID, "selftest.json"), "w") as fh:
        json.dump({"what": "binding self-test: corrupted traces must be rejected", "all_ok": allok, "results": results,
                   "wall_s": round(time.time() - t0, 1)}, fh, indent=1)
    print("selftest:", "all corruptions rejected" if allok else "FAILED")
    return 0 if allok else 2
