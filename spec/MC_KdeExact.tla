---- MODULE MC_KdeExact ----
EXTENDS KdeExact, Json
CONSTANTS NLev, CSet, KVals, Mode       \* Mode = "values" / "gap": small samples with the pdf/cdf tables; "moments": light-tailed histograms with integer mean
MCKa == {-1, 0, 1}
MCKb == {3}
MCKg == {-1, 0}
MCKm == {-1, 0, 1}
MCKd == {0, 1, 2}
MCCa == 0..2
MCCm == {100, 200, 300}
MCCd == {0, 1}
VARIABLES hs, k, out
\* "moments": the two end levels hold ONE sample each, so that the estimated density carries negligible probability outside the
\* estimator's own integration range (the property's proviso)
GapCnt(e) == [i \in 1..NLev |-> IF i <= 2 THEN e[i] ELSE IF i >= NLev - 1 THEN e[i - NLev + 4] ELSE 0]   \* two clusters, empty stretch between
Init == /\ IF Mode = "gap"
           THEN \E e \in [1..4 -> CSet] : hs = [lo |-> 0, cnt |-> GapCnt(e)] /\ e[1] > 0 /\ e[4] > 0 /\ NTot(hs) >= 3
           ELSE \E c \in [1..NLev -> CSet] :
               /\ hs = [lo |-> 0, cnt |-> IF Mode = "moments" THEN [i \in 1..NLev |-> IF i = 1 \/ i = NLev THEN 1 ELSE c[i]] ELSE c]
               /\ Cardinality({i \in 1..NLev : hs.cnt[i] > 0}) >= 2 /\ hs.cnt[1] > 0 /\ hs.cnt[NLev] > 0 /\ NTot(hs) >= 3
               /\ (Mode = "moments" => (MeanInt(hs) /\ c[1] = 100 /\ c[NLev] = 100))
        /\ k \in KVals
        /\ (Mode = "distinct" => Cardinality({i \in 1..NLev : hs.cnt[i] > 0}) >= NLev - 2)
        /\ out = 0
\* evaluation points: half-integer grid from 3 cut-offs (cut-off = 4h ~ 3 * 2^k) left of the data to 3 cut-offs right of it
Reach == IF k = -1 THEN 5 ELSE 9 * (CASE k = 0 -> 1 [] k = 1 -> 2 [] k = 2 -> 4 [] k = 3 -> 8)
Grid == {<<j, 2>> : j \in (2 * (0 - Reach))..(2 * (NLev - 1 + Reach))}
GridSeq == [j \in 1..(2 * (NLev - 1 + 2 * Reach) + 1) |-> <<j - 1 - 2 * Reach, 2>>]
Next == /\ out = 0 /\ out' = 1 /\ UNCHANGED <<hs, k>>
        /\ IF Mode \in {"values", "gap"}
           THEN PrintT(ToJson([hs |-> hs, k |-> k, peak |-> KernelPeak(hs, k), xs |-> GridSeq,
                               pdf |-> [j \in 1..Len(GridSeq) |-> Pdf(hs, k, GridSeq[j])], cdf |-> [j \in 1..Len(GridSeq) |-> Cdf(hs, k, GridSeq[j])]]))
           ELSE IF Mode = "distinct" THEN PrintT(ToJson([hs |-> hs, k |-> k]))
           ELSE PrintT(ToJson([hs |-> hs, k |-> k, mean |-> Mean(hs, k), var |-> Var(hs, k), skew |-> Skew(hs, k), kurt |-> Kurt(hs, k)]))
Ref == Mode = "moments" => RefOK(hs, k)
====
