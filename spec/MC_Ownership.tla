---- MODULE MC_Ownership ----
EXTENDS Ownership, Json
Export == Len(order) = MaxOps => PrintT(ToJson([order |-> order]))
====
