--------------------------- MODULE LeapfrogOps ---------------------------
(***************************************************************************)
(* C07 (and the Hamiltonian part of C01 / C03 / C04) -- the trajectory map  *)
(* of HamiltonianChain in exact dyadic arithmetic.                          *)
(*                                                                         *)
(* Positions t and momenta r are integer tuples in units of 1/D (D a power  *)
(* of two).  The potential is quadratic, U(x) = 1/2 x'Ax + b'x with small   *)
(* integer A, b (so logp = -U and grad logp = -(Ax + b) exactly); the       *)
(* temperature T divides the force; eps = en/ed; the inverse mass is        *)
(* minv/md (scalar, diagonal or full matrix), and Lf/ld is the factor that  *)
(* sample_momentum applies to unit normal draws.                            *)
(*                                                                         *)
(* One operator per sub-step of the code: HalfKick, Drift (+ wall fold and  *)
(* momentum flip), Kick.  Every operation is defined only while it is       *)
(* exact on the 1/D lattice ("ok"); inexact cases are not explored.         *)
(***************************************************************************)
EXTENDS LimitMaps
CONSTANT D

RECURSIVE SumTo(_, _)
SumTo(f, n) == IF n = 0 THEN 0 ELSE SumTo(f, n - 1) + f[n]
Dot(u, v) == SumTo([i \in 1..Len(u) |-> u[i] * v[i]], Len(u))
MatVec(Mx, v) == [i \in 1..Len(Mx) |-> Dot(Mx[i], v)]
AllDiv(v, d) == \A i \in 1..Len(v) : v[i] % d = 0

\* gradient of the log-density (before tempering), scaled by D:  -(A t + b D)
Grad(c, t) == LET At == MatVec(c.A, t) IN [i \in 1..c.n |-> -(At[i] + c.b[i] * D)]
\* r + f * (eps / T) * grad,  f = 1/2 (half kick: den 2) or 1 (kick: den 1)
KickBy(c, t, r, den) == LET g == Grad(c, t)  num == [i \in 1..c.n |-> c.en * g[i]]  d == den * c.ed * c.T
                        IN [ok |-> AllDiv(num, d), r |-> [i \in 1..c.n |-> r[i] + num[i] \div d]]
HalfKick(c, t, r) == KickBy(c, t, r, 2)
Kick(c, t, r) == KickBy(c, t, r, 1)
Velocity(c, r) == MatVec(c.minv, r)                   \* times 1/md
OnWall(c, t) == c.box /\ \E i \in 1..c.n : (t[i] - c.blo * D) % ((c.bhi - c.blo) * D) = 0
\* t + eps * velocity, then the fold into the box with the momentum sign of each coordinate
Drift(c, t, r) == LET v == Velocity(c, r)  num == [i \in 1..c.n |-> c.en * v[i]]  d == c.ed * c.md
                      raw == [i \in 1..c.n |-> t[i] + num[i] \div d]
                  IN [ok |-> AllDiv(num, d) /\ ~OnWall(c, raw),
                      t |-> IF c.box THEN [i \in 1..c.n |-> Reflect(c.blo * D, c.bhi * D, raw[i])] ELSE raw,
                      sg |-> IF c.box THEN [i \in 1..c.n |-> ReflectSign(c.blo * D, c.bhi * D, raw[i])] ELSE [i \in 1..c.n |-> 1],
                      raw |-> raw]
\* the loop of (standard|bounded)_leapfrog after the first half kick; pts collects every point handed to grad
RECURSIVE Loop(_, _, _, _, _, _)
Loop(c, t, r, k, ok, pts) ==
    IF ~ok THEN [ok |-> FALSE, t |-> t, r |-> r, pts |-> pts]
    ELSE LET d == Drift(c, t, r)  r1 == [i \in 1..c.n |-> r[i] * d.sg[i]] IN
         IF k = 1 THEN LET h == HalfKick(c, d.t, r1) IN
                       [ok |-> d.ok /\ h.ok, t |-> d.t, r |-> h.r, pts |-> Append(pts, d.t)]
         ELSE LET kk == Kick(c, d.t, r1) IN Loop(c, d.t, kk.r, k - 1, d.ok /\ kk.ok, Append(pts, d.t))
Leap(c, t, r, n) == LET h == HalfKick(c, t, r) IN Loop(c, t, h.r, n, h.ok, <<t>>)

Neg(v) == [i \in 1..Len(v) |-> -v[i]]
\* 2 * md * T * D^2 * H(t, r),  H = 1/2 r' Minv r + U(t)/T
HNum(c, t, r) == c.T * Dot(r, Velocity(c, r)) + c.md * (Dot(t, MatVec(c.A, t)) + 2 * D * Dot(c.b, t))
HDen(c) == 2 * c.md * c.T * D * D
KENum(c, r) == Dot(r, Velocity(c, r))                 \* 2 * md * D^2 * kinetic energy
\* momentum drawn from unit normals z (integers):  r = Lf z / ld   (scaled by D)
Momentum(c, z) == LET v == MatVec(c.Lf, z) IN [ok |-> AllDiv([i \in 1..c.n |-> v[i] * D], c.ld),
                                                r |-> [i \in 1..c.n |-> (v[i] * D) \div c.ld]]

\* ---------------------------------------------------------------- C07 laws (checked by TLC on every enumerated orbit)
\* time reversal: integrate, flip the momentum, integrate again, flip: back at the start
\* (a start exactly on a wall is excluded: the reverse orbit would end on the wall, where the fold count is a convention)
Reversible(c, t, r, n) == LET f == Leap(c, t, r, n) IN (f.ok /\ ~OnWall(c, t)) =>
                             LET g == Leap(c, f.t, Neg(f.r), n) IN g.ok /\ g.t = t /\ Neg(g.r) = r
\* momenta law = kinetic-energy law:  (Lf/ld)(Lf/ld)' * (minv/md) = I
Transpose(Mx) == [i \in 1..Len(Mx) |-> [j \in 1..Len(Mx) |-> Mx[j][i]]]
MatMul(P, Q) == [i \in 1..Len(P) |-> [j \in 1..Len(P) |-> Dot(P[i], Transpose(Q)[j])]]
MassConsistent(c) == LET LLt == MatMul(c.Lf, Transpose(c.Lf))  prod == MatMul(LLt, c.minv)
                     IN \A i, j \in 1..c.n : prod[i][j] = (IF i = j THEN c.ld * c.ld * c.md ELSE 0)
\* volume preservation, 1-D: the Jacobian of (t, r) -> Leap has determinant 1 (unit offsets of size D; the map is affine without walls)
Det1(c, t, r, n) == LET f0 == Leap(c, t, r, n)  ft == Leap(c, <<t[1] + D>>, r, n)  fr == Leap(c, t, <<r[1] + D>>, n)
                    IN (f0.ok /\ ft.ok /\ fr.ok) =>
                         (ft.t[1] - f0.t[1]) * (fr.r[1] - f0.r[1]) - (fr.t[1] - f0.t[1]) * (ft.r[1] - f0.r[1]) = D * D
\* second-order energy accuracy as an exact identity (1-D, b = 0, no walls): the shadow energy
\*   Hs = 1/2 m r^2 + 1/2 (a' - eps^2/4 a' m a') x^2,  a' = a/T, m = minv/md   is conserved exactly, hence
\*   H(end) - H(start) = eps^2/8 * a'^2 m (x_end^2 - x_start^2)
\* common factor 8 * md * T^2 * ed^2 * D^2 :
ShadowNum(c, t, r) == LET a == c.A[1][1]  m == c.minv[1][1] IN
      4 * c.T * c.T * c.ed * c.ed * m * r[1] * r[1] + (4 * c.T * c.ed * c.ed * c.md * a - c.en * c.en * a * a * m) * t[1] * t[1]
ShadowConserved(c, t, r, n) == LET f == Leap(c, t, r, n) IN f.ok => ShadowNum(c, f.t, f.r) = ShadowNum(c, t, r)
=============================================================================
