"""C07 -- Hamiltonian trajectories are reversible, volume-preserving and energy-accurate.

MC   : Leapfrog.tla state machine (one action per sub-step, forward pass / flip / second pass) over a family of
       quadratic potentials, temperatures, step sizes, masses (scalar, vector, matrix) and boxes, in exact
       dyadic arithmetic: RevSM, VolSM (Jacobian determinant 1), ShadowSM (exact shadow-energy conservation =
       second-order energy accuracy), MassSM (momentum law = kinetic-energy law), InsideSM.
S->C : every exact orbit TLC exports is run through the real sample_momentum / run_leapfrog / hamiltonian /
       kinetic_energy: bit-exact equality of momentum, every gradient-evaluation point, end point, energies;
       forward - flip - forward on the real code returns to the start.
C->S : finite_diff posterior-call traces validated by FdTrace.tla (probe differs from t in exactly one coordinate by
       a non-zero amount, every coordinate probed once, result within tolerance of the true gradient of a linear
       log-density), including points with zero-valued coordinates.
"""
import json
import os
import numpy as np

from harness.core import Check, run_tlc, must_pass, seed, MachineryError, scratch
from harness import leapfrog as L
from harness.mcmc_kit import Script, ScriptedGen


def orbit_part(ck, tier, only_box=False, reversibility=True):
    cfgs = L.configs()
    zset = [-2, 0, 1] if tier == "quick" else [-3, -2, -1, 0, 1, 2]
    nset = [1, 2, 3] if tier == "quick" else [1, 2, 3, 4]
    r = L.explore_leapfrog(cfgs, zset, nset, timeout=1500)
    if r.violated:
        ck.violation("spec: Leapfrog laws " + ",".join(r.violated), {"violated": r.violated}, site="spec")
    must_pass(r, "Leapfrog")
    ck.tlc(r, "leapfrog_state_machine")
    D = L.D
    for b in r.printed:
        c = cfgs[b["cf"]]
        if only_box and not c["box"]:
            continue
        plog, glog = [], []
        ch, q = L.build_chain(c, b["t0"], plog, glog)
        ident = {"config": {k: c[k] for k in ("n", "A", "b", "T", "en", "ed", "minv", "md", "box", "mass")},
                 "t0": L.scaled(b["t0"]), "z": b["z"], "n_steps": b["n"]}
        site = "HamiltonianChain.run_leapfrog"
        # momentum law
        r0 = np.array(L.scaled(b["r0"]))
        if c["mass"] != "skipmom":
            script = Script([{"k": b["z"], "u": [0.5]}], n_normals=c["n"])
            got = np.asarray(ch.mass.sample_momentum(ScriptedGen(script)), dtype=float)
            if not np.array_equal(got, r0):
                ck.violation("momentum law: sample_momentum(z) = L z with (L L') M^-1 = I", {**ident, "want": r0, "got": got},
                             site="ParticleMass.sample_momentum")
            ke = ch.kinetic_energy(r0)
            if ke != b["ke0"] / (2.0 * c["md"] * D * D):
                ck.violation("kinetic energy = 1/2 r' M^-1 r (the law the momenta are drawn from)",
                             {**ident, "want": b["ke0"] / (2.0 * c["md"] * D * D), "got": ke}, site="HamiltonianChain.kinetic_energy")
        t0 = np.array(L.scaled(b["t0"]))
        glog.clear()
        t1, r1 = ch.run_leapfrog(t0.copy(), r0.copy(), b["n"])
        pts = [L.vec(p) for p in glog]
        want_pts = [L.scaled(p) for p in b["pts"]]
        ck.case(("orbit", b["cf"], tuple(b["t0"]), tuple(b["z"]), b["n"]))
        if pts != want_pts:
            ck.violation("gradient-evaluation points along the trajectory (drift / wall fold)", {**ident, "want": want_pts, "got": pts},
                         site=site)
            continue
        if L.vec(t1) != L.scaled(b["t1"]) or L.vec(r1) != L.scaled(b["r1"]):
            ck.violation("end point of the trajectory (kick coefficients, temperature, velocity = M^-1 r, momentum flip at walls)",
                         {**ident, "want_t": L.scaled(b["t1"]), "got_t": L.vec(t1), "want_r": L.scaled(b["r1"]), "got_r": L.vec(r1)},
                         site=site)
            continue
        h0 = ch.hamiltonian(t0, r0)
        h1 = ch.hamiltonian(np.asarray(t1), np.asarray(r1))
        if h0 != b["h0"] / b["hden"] or h1 != b["h1"] / b["hden"]:
            ck.violation("hamiltonian = 1/2 r' M^-1 r - logp(t)/T", {**ident, "want": [b["h0"] / b["hden"], b["h1"] / b["hden"]],
                                                                      "got": [h0, h1]}, site="HamiltonianChain.hamiltonian")
        # reversibility on the implementation itself
        on_wall = c["box"] and any((x - c["blo"] * D) % ((c["bhi"] - c["blo"]) * D) == 0 for x in b["t0"])
        if not on_wall and reversibility:
            t2, r2 = ch.run_leapfrog(np.array(t1, dtype=float).copy(), -np.array(r1, dtype=float), b["n"])
            back = np.array_equal(t2, t0) and np.array_equal(-np.asarray(r2), r0)
            diag = all(c["minv"][i][j] == 0 for i in range(c["n"]) for j in range(c["n"]) if i != j)
            if not back:
                if c["box"] and not diag:
                    ck.violation("time reversibility with walls and a non-diagonal inverse mass",
                                 {"class": "bounded_leapfrog + MatrixMass"}, site="HamiltonianChain.bounded_leapfrog:matrix-mass-reflection")
                else:
                    ck.violation("time reversibility: forward, flip, forward returns to the start",
                                 {**ident, "back_t": L.vec(t2), "back_r": L.vec(-np.asarray(r2))}, site=site)
        if len(ck.samples) < 3 and c["n"] == 2:
            ck.sample({"part": "orbit", **ident, "spec_end_t": L.scaled(b["t1"]), "spec_end_r": L.scaled(b["r1"]),
                       "H0": b["h0"] / b["hden"], "H1": b["h1"] / b["hden"]})
    ck.count("leapfrog_state_machine", "orbits_replayed", len(r.printed))
    ck.traces += len(r.printed)
    if not reversibility:
        return
    # spec-level demonstration of the matrix-mass / wall finding (expected to be violated: TLC exhibits the counterexample)
    mod = L.MC_LF % {"cfgs": L.tla_cfg(cfgs[8]), "zset": "{-2, 0, 1}", "nset": "{1, 2}"}
    cfg = L.CFG_LF % L.D
    for inv in ("RevSM", "VolSM", "ShadowSM", "InsideSM", "MassSM", "Export"):
        cfg = cfg.replace("INVARIANT %s\n" % inv, "")
    cfg += "INVARIANT RevMatrixBox\n"
    r2 = run_tlc("MC_Leapfrog", cfg_text=cfg, extra_files={"MC_Leapfrog.tla": mod}, timeout=300)
    if r2.error:
        raise MachineryError("RevMatrixBox run: " + r2.error)
    ck.parts["matrix_mass_wall_reversibility"] = {"tlc_counterexample_found": "RevMatrixBox" in r2.violated,
                                                  "tlc_states": r2.distinct}


def offlattice_part(ck, tier):
    """reversibility and energy scaling on random (non-dyadic) inputs, tolerance-based (C->S, TLC checks the integers)"""
    from inference.mcmc import HamiltonianChain
    rng = np.random.default_rng(seed() + 3)
    n_cases = 40 if tier == "quick" else 400
    events = []
    for case in range(n_cases):
        n = int(rng.integers(1, 4))
        Q = rng.normal(size=(n, n))
        A = Q @ Q.T + np.eye(n)
        b = rng.normal(size=n)
        q = L.Quad(A, b)
        kind = case % 4
        kw = {}
        if kind == 1:
            kw["inverse_mass"] = float(rng.uniform(0.3, 3))
        elif kind == 2:
            kw["inverse_mass"] = rng.uniform(0.3, 3, size=n)
        elif kind == 3:
            R = rng.normal(size=(n, n))
            kw["inverse_mass"] = R @ R.T + np.eye(n)
        bounded = case % 3 == 0 and kind != 3
        if bounded:
            kw["bounds"] = (np.full(n, -2.0), np.full(n, 2.5))
        T = float(rng.choice([1.0, 2.0, 3.5]))
        start = rng.uniform(-1.5, 1.5, size=n)
        eps = float(rng.uniform(0.02, 0.1))
        # every other case the user's gradient function hands out an array it KEEPS (a memoised evaluation): the sampler must not write into it
        memo = {}

        def kept_grad(x, memo=memo, q=q):
            k = np.asarray(x, dtype=float).tobytes()
            if k not in memo:
                memo[k] = (np.asarray(q.grad(x), dtype=float), np.array(q.grad(x), dtype=float))
            return memo[k][0]
        grad_fn = kept_grad if case % 2 else q.grad
        ch = HamiltonianChain(posterior=q, start=start, grad=grad_fn, epsilon=eps, temperature=T, display_progress=False, **kw)
        ch_built = ch
        if case % 4 >= 2:
            # ... and every other pair of cases the trajectory is run by a sampler that was saved and loaded again
            fname = os.path.join(scratch("c07sv_"), "h.npz")
            ch.save(fname)
            ch = HamiltonianChain.load(fname, posterior=q, grad=grad_fn)
        r0 = ch.mass.sample_momentum(np.random.default_rng(int(rng.integers(0, 2 ** 31))))
        ns = int(rng.integers(1, 12))
        t1, r1 = ch.run_leapfrog(start.copy(), np.array(r0, dtype=float).copy(), ns)
        # the energy is that of the temperature the sampler was GIVEN, and a reloaded sampler integrates the same trajectory
        h_want = float(ch_built.kinetic_energy(np.asarray(r0, dtype=float))) - q(start) / T
        h_got = float(ch.hamiltonian(start, np.asarray(r0, dtype=float)))
        if abs(h_got - h_want) > 1e-10 * (1.0 + abs(h_want)):
            ck.violation("hamiltonian = 1/2 r' M^-1 r - logp(t)/T for the temperature the sampler was constructed with (also after save / load)",
                         {"case": case, "temperature": T, "reloaded": ch is not ch_built, "want": h_want, "got": h_got}, site="HamiltonianChain.hamiltonian:temperature")
        if ch is not ch_built:
            t1b, r1b = ch_built.run_leapfrog(start.copy(), np.array(r0, dtype=float).copy(), ns)
            if not (np.array_equal(np.asarray(t1b), np.asarray(t1)) and np.array_equal(np.asarray(r1b), np.asarray(r1))):
                ck.violation("a saved and reloaded sampler integrates the same trajectory as the sampler it was saved from",
                             {"case": case, "temperature": T, "mass_kind": kind, "end_original": np.asarray(t1b), "end_reloaded": np.asarray(t1)},
                             site="HamiltonianChain.load:trajectory")
        t2, r2 = ch.run_leapfrog(np.array(t1).copy(), -np.array(r1), ns)
        scale = 1.0 + np.max(np.abs(start)) + np.max(np.abs(r0))
        rev_err = max(np.max(np.abs(t2 - start)), np.max(np.abs(-np.asarray(r2) - r0))) / scale
        # energy error ratio when the step size is halved (same total time): ~4 for a second-order scheme
        h0 = ch.hamiltonian(start, np.asarray(r0))
        e1 = abs(ch.hamiltonian(np.asarray(t1), np.asarray(r1)) - h0)
        ch.ES.epsilon = eps / 2
        t1h, r1h = ch.run_leapfrog(start.copy(), np.array(r0, dtype=float).copy(), 2 * ns)
        e2 = abs(ch.hamiltonian(np.asarray(t1h), np.asarray(r1h)) - h0)
        ratio_ok = bounded or e1 < 1e-9 or (e2 <= e1 * 0.45)
        dirty = [k for k, (held, ref) in memo.items() if not np.array_equal(held, ref)]
        if dirty:
            ck.violation("arrays returned by the user's gradient function are left unchanged by the sampler",
                         {"case": case, "mass_kind": kind, "temperature": T, "gradient_arrays_modified": len(dirty)}, site="HamiltonianChain.run_leapfrog:callback-ownership")
        events.append({"ev": "Orbit", "case": case, "n": n, "mass": kind, "bounded": bounded,
                       "rev_err_e12": int(min(rev_err * 1e12, 2 ** 30)), "ratio_ok": bool(ratio_ok),
                       "e1_e12": int(min(e1 * 1e12, 2 ** 30)), "e2_e12": int(min(e2 * 1e12, 2 ** 30))})
        ck.case(("offlattice", case))
    d = scratch("c07tr_")
    path = os.path.join(d, "trace.ndjson")
    with open(path, "w") as fh:
        for e in events:
            fh.write(json.dumps(e) + "\n")
    r = run_tlc("LeapTrace", workers=1, env={"TRACE_FILE": path}, timeout=300)
    if r.error and "TraceAccepted" not in r.error:
        raise MachineryError("LeapTrace: " + r.error)
    ck.tlc(r, "offlattice_orbits")
    ck.traces += len(events)
    if r.violated:
        for e in events:
            if e["rev_err_e12"] > 1000 or not e["ratio_ok"]:
                ck.violation("off-lattice reversibility (<= 1e-9 relative) / energy error shrinks ~4x when eps is halved",
                             e, site="HamiltonianChain.run_leapfrog:offlattice")
        if not ck.violations:
            raise MachineryError("LeapTrace rejected but no offending event found")


class LinPost:
    def __init__(self, g, c0, log):
        self.g, self.c0, self.log = np.asarray(g, dtype=float), c0, log

    def __call__(self, x):
        x = np.asarray(x, dtype=float)
        self.log.append(x.copy())
        return float(self.g @ x + self.c0)


def fd_part(ck, tier):
    from inference.mcmc import HamiltonianChain
    rng = np.random.default_rng(seed() + 4)
    events = []
    n_cases = 60 if tier == "quick" else 600
    for case in range(n_cases):
        n = int(rng.integers(1, 5))
        g = rng.normal(size=n) * 10.0 ** rng.uniform(-2, 2)
        T = float(rng.choice([1.0, 2.0, 4.0]))
        t = rng.normal(size=n) * 10.0 ** rng.uniform(-3, 3)
        mode = case % 4
        if mode == 0:
            t[int(rng.integers(0, n))] = 0.0            # a zero-valued coordinate
        elif mode == 1:
            t[:] = 0.0                                   # the origin
        bounded = case % 5 == 2
        kw = {}
        if bounded:
            lo = t - np.abs(t) * rng.uniform(0.1, 1, size=n) - 1e-3
            hi = t + np.abs(t) * rng.uniform(0, 1, size=n) * (rng.random(n) < 0.5)      # often exactly on the upper bound
            hi = np.where(hi <= lo, lo + 1.0, hi)
            on_lower = rng.random(n) < 0.4                                             # ... or exactly on the lower bound (of either sign)
            lo = np.where(on_lower, t, lo)
            hi = np.where(on_lower, t + np.abs(t) * rng.uniform(0.1, 1, size=n) + 1e-3, hi)
            kw["bounds"] = (lo, hi)
        log = []
        post = LinPost(g, 0.7, log)
        ch = HamiltonianChain(posterior=post, start=t.copy(), grad=None, temperature=T, display_progress=False, **kw)
        log.clear()
        err = None
        with np.errstate(all="ignore"):
            try:
                G = np.asarray(ch.grad(t.copy()), dtype=float)
            except Exception as ex:
                err = repr(ex)
                G = np.full(n, np.nan)
        events.append({"ev": "Begin", "case": case, "n": n})
        base = None
        for x in log:
            diff = [i for i in range(n) if x[i] != t[i]]
            if not diff:
                events.append({"ev": "Base"})
            else:
                inside = True
                if bounded:
                    inside = bool(np.all(x >= kw["bounds"][0]) and np.all(x <= kw["bounds"][1]))
                events.append({"ev": "Probe", "coords": [i + 1 for i in diff], "inside": inside})
        want = g                    # the gradient of the log-density itself: the leapfrog applies the temperature
        scale = np.max(np.abs(want))
        relerr = np.max(np.abs(G - want)) / scale if np.all(np.isfinite(G)) else 1e9
        events.append({"ev": "Result", "err_ppm": int(min(relerr * 1e6, 2 ** 30)), "finite": bool(np.all(np.isfinite(G))),
                       "raised": err is not None})
        ck.case(("fd", case))
        if mode < 2 and len(ck.samples) < 5:
            ck.sample({"part": "finite_diff", "t": t, "true_grad": want, "estimate": G})
    d = scratch("c07fd_")
    path = os.path.join(d, "trace.ndjson")
    with open(path, "w") as fh:
        for e in events:
            fh.write(json.dumps(e) + "\n")
    r = run_tlc("FdTrace", workers=1, env={"TRACE_FILE": path}, timeout=300)
    if r.error and "TraceAccepted" not in r.error:
        raise MachineryError("FdTrace: " + r.error)
    ck.tlc(r, "finite_diff_traces")
    ck.traces += n_cases
    rej = [ln for ln in r.stdout.splitlines() if "REJECTED" in ln]
    if r.violated or rej or r.error:
        # report the first offending case
        case = None
        for e in events:
            if e["ev"] == "Begin":
                case = e["case"]
            if (e["ev"] == "Result" and (e["err_ppm"] > 1000 or not e["finite"] or e["raised"])) or \
               (e["ev"] == "Probe" and (len(e["coords"]) != 1 or not e["inside"])):
                ck.violation("FdProbe: internally estimated gradient approximates the true gradient at every point "
                             "(one non-zero single-coordinate probe per coordinate, inside the bounds)",
                             {"case": case, "event": e}, site="HamiltonianChain.finite_diff")
        if not ck.violations and not ck.known_hits:
            raise MachineryError("FdTrace rejected but no offending event found: " + "\n".join(rej) + r.stdout[-1500:])


def massupdate_part(ck, tier):
    """the kinetic energy of the acceptance test is the one the momenta are drawn under -- also after estimate_mass() has replaced the
    mass during a session: for scripted unit normals z, kinetic_energy(sample_momentum(z)) = z'z / 2 and velocity = M^-1 r"""
    from inference.mcmc import HamiltonianChain

    class Zs:
        def __init__(self, z):
            self.z = np.array(z, dtype=float)

        def normal(self, loc=0.0, scale=1.0, size=None):
            return np.asarray(loc) + np.asarray(scale) * self.z
    c_ = np.array([0.3, -0.7, 1.1])
    s_ = np.array([0.5, 2.0, 1.0])
    post = lambda x: -0.5 * float(np.sum(((np.asarray(x, dtype=float) - c_) / s_) ** 2))
    grad = lambda x: -(np.asarray(x, dtype=float) - c_) / s_ ** 2
    zs = [np.array([1.0, 0.0, 0.0]), np.array([0.0, 1.0, 0.0]), np.array([0.0, 0.0, 1.0]), np.array([1.0, -2.0, 0.5])]
    for diagonal in (True, False):
        for start_mass in (None, np.array([1.0, 2.0, 0.5])):
            ck.case(("estimate_mass", diagonal, start_mass is None))
            try:
                ch = HamiltonianChain(posterior=post, grad=grad, start=np.array([0.0, 0.0, 0.0]), epsilon=0.3, display_progress=False,
                                      **({} if start_mass is None else {"inverse_mass": start_mass}))
                ch.rng = np.random.default_rng(3 + seed())
                ch.steps = 5
                ch.advance(40)
                ch.estimate_mass(diagonal=diagonal)
                bad = []
                for z in zs:
                    r = np.asarray(ch.mass.sample_momentum(Zs(z)), dtype=float)
                    ke = float(ch.kinetic_energy(r))
                    if not abs(ke - 0.5 * float(z @ z)) <= 1e-9 * max(1.0, 0.5 * float(z @ z)):
                        bad.append({"z": z.tolist(), "kinetic_energy": ke, "z'z/2": 0.5 * float(z @ z)})
                ch.advance(3)                         # and the chain keeps running with the new mass
            except Exception as ex:
                ck.violation("estimate_mass / sample_momentum raised", {"diagonal": diagonal, "error": repr(ex)[:300]}, site="HamiltonianChain.estimate_mass")
                continue
            if bad:
                ck.violation("after estimate_mass() the momenta are drawn under the kinetic energy used in the acceptance test: "
                             "kinetic_energy(sample_momentum(z)) = z'z / 2", {"diagonal": diagonal, "mass_given_at_construction": start_mass is not None,
                                                                                "mismatches": bad[:2]}, site="HamiltonianChain.estimate_mass")


def run(tier):
    ck = Check("C07", tier)
    ck.rule = ("one case per exact orbit (config, start, unit-normal draw, step count) exported by TLC and replayed bit-exactly; "
               "plus one per random off-lattice orbit and per finite-difference call; all distinct by construction")
    ck.assumptions = ["quadratic potentials with small integer coefficients; dyadic step sizes and masses: float arithmetic is exact",
                      "Stormer-Verlet order for non-quadratic potentials is a trusted lemma; measured only as the error ratio under halving",
                      "a start exactly on a wall is excluded from the reversibility statement (fold-count convention on the wall)"]
    orbit_part(ck, tier)
    offlattice_part(ck, tier)
    fd_part(ck, tier)
    massupdate_part(ck, tier)
    from harness import c03
    c03.dtype_part(ck, tier)                 # integer / single-precision starts: the trajectory is computed in double precision all the same
    return ck.finish()
