"""Drivers shared by C01 / C03 (/C04): Samplers.tla behaviours replayed into the real Metropolis-type
chains, and tabulation of the implementation's one-attempt kernel for KernelId.tla."""
import json
import numpy as np

from harness.core import run_tlc, must_pass, tla_val, MachineryError, seed
from harness.mcmc_kit import TablePost, Script, ScriptedGen, freeze_adaptation, mid, to_lattice, LN2

WLO, WHI = -8, 10
OUTSIDE = 400


def base_tables():
    """energy tables in units where one level = one factor 2 at T = 1 (multiplied by T per config)"""
    rng = range(WLO, WHI + 1)
    return {
        "tent": [(2 * -v if v < 0 else v) for v in rng],
        "wells": [min(abs(v + 1), abs(v - 3) + 1) for v in rng],
        "flat": [0 for _ in rng],
    }


def table_for(name, T):
    return [T * e for e in base_tables()[name]]


def make_configs(tier, which="all"):
    """list of config dicts; energies are stored per (table, T) so that dE/T is an integer"""
    cfgs = []
    cid = 0
    kinds = ["gibbs", "metropolis", "pca"]
    for kind in kinds:
        for n in (1, 2):
            for mode in ("free", "box", "nonneg", "boxnn"):
                if kind == "pca" and mode in ("nonneg", "boxnn"):
                    continue
                for T in (1, 2, 4):
                    for tab in ("tent", "wells"):
                        if tier == "quick":
                            # covering subset: every kind x mode x n once per T-rotation
                            if (cid + T + (0 if tab == "tent" else 1)) % 3 != 0:
                                cid += 1
                                continue
                        blo, bhi = (-2, 3) if mode in ("box", "boxnn") else (0, 0)
                        if mode == "free":
                            pts = [-2, 0, 1, 3]
                        elif mode == "box":
                            pts = [-2, 0, 3]
                        elif mode == "boxnn":
                            pts = [0, 1, 3]
                        else:
                            pts = [0, 1, 4]
                        starts = [[p] for p in pts] if n == 1 else [[pts[0], pts[-1]], [pts[1], pts[1]], [pts[-1], pts[0]]]
                        cfgs.append({"id": cid, "kind": kind, "n": n, "T": T, "mode": mode, "blo": blo, "bhi": bhi,
                                     "tab": f"{tab}{T}", "tabname": tab, "couple": (T if n == 2 else 0), "starts": starts})
                        cid += 1
    return cfgs


def tla_configs(cfgs):
    recs = []
    for c in cfgs:
        starts = "{" + ", ".join(tla_val(s) for s in c["starts"]) + "}"
        recs.append('[id |-> %d, kind |-> "%s", n |-> %d, T |-> %d, mode |-> "%s", blo |-> %d, bhi |-> %d, '
                    'tab |-> "%s", couple |-> %d, starts |-> %s]' % (c["id"], c["kind"], c["n"], c["T"], c["mode"], c["blo"],
                                                                     c["bhi"], c["tab"], c["couple"], starts))
    return "{" + ",\n   ".join(recs) + "}"


def tla_tables():
    items = []
    for name in base_tables():
        for T in (1, 2, 4):
            items.append('%s%d |-> %s' % (name, T, tla_val(table_for(name, T))))
    return "[" + ",\n   ".join(items) + "]"


MC_TEMPLATE = """---- MODULE MC_Samplers ----
EXTENDS Samplers, Json
MCConfigs == %(configs)s
MCTables == %(tables)s
MCKSet == %(kset)s
Export == AtCommit => PrintT(ToJson([cf |-> cf.id, start |-> chain[1], draws |-> draws, evals |-> evals, chain |-> chain,
                                     probs |-> probs, nretry |-> nretry, nstay |-> nstay, argmax |-> ArgMax]))
Depth == TLCGet("level") <= %(depth)d
====
"""

MC_CFG = """SPECIFICATION SSpec
CONSTANTS Configs <- MCConfigs
  Tables <- MCTables
  KSet <- MCKSet
  WLo <- MCWLo
  WHi = %(whi)d Outside = %(outside)d M = %(m)d MaxAtt = %(maxatt)d MaxSteps = %(maxsteps)d
INVARIANT ProbsBelong
INVARIANT WorkConsistent
INVARIANT SamplesInside
INVARIANT EvalsInside
INVARIANT Export
CONSTRAINT Depth
CHECK_DEADLOCK FALSE
"""


def explore(cfgs, kset, m, maxatt, maxsteps, simulate=None, depth=60, timeout=900, seed_=None):
    mod = MC_TEMPLATE % {"configs": tla_configs(cfgs), "tables": tla_tables(), "kset": "{" + ", ".join(map(str, kset)) + "}",
                         "depth": depth}
    cfg = MC_CFG % {"whi": WHI, "outside": OUTSIDE, "m": m, "maxatt": maxatt, "maxsteps": maxsteps}
    # cfg files reject negative literals: WLo is defined through the module
    mod = mod.replace("====\n", "MCWLo == %d\n====\n" % WLO)
    r = run_tlc("MC_Samplers", cfg_text=cfg, extra_files={"MC_Samplers.tla": mod}, simulate=simulate,
                depth=(depth if simulate else None), timeout=timeout, seed_=seed_,
                workers=(1 if simulate else 16))
    return r


# ------------------------------------------------------------------------------ real chains

def build_chain(c, start, log, dtype=float):
    from inference.mcmc.gibbs import GibbsChain, MetropolisChain
    from inference.mcmc.pca import PcaChain
    post = TablePost(table_for(c["tabname"], c["T"]), WLO, outside=OUTSIDE, couple=c["couple"], log=log)
    n = c["n"]
    st = np.array(start, dtype=dtype)            # lattice starts are whole numbers: given as floats or, for every other behaviour, as integers
    kw = dict(posterior=post, start=st, widths=np.ones(n), temperature=float(c["T"]), display_progress=False)
    if c["kind"] == "pca":
        if c["mode"] == "box":
            kw["bounds"] = (np.full(n, float(c["blo"])), np.full(n, float(c["bhi"])))
        ch = PcaChain(**kw)
    else:
        cls = GibbsChain if c["kind"] == "gibbs" else MetropolisChain
        ch = cls(**kw)
        for i in range(n):
            if c["mode"] == "box":
                ch.set_boundaries(i, (float(c["blo"]), float(c["bhi"])))
            elif c["mode"] == "nonneg":
                ch.set_non_negative(i, True)
            elif c["mode"] == "boxnn":
                ch.set_boundaries(i, (float(c["blo"]), float(c["bhi"])))
                ch.set_non_negative(i, True)
    freeze_adaptation(ch)
    return ch, post


def observe(ch, c):
    """projection: concrete chain -> (chain as lattice ints, stored energies as ints or None)"""
    smp = ch.get_sample(burn=0)
    prb = ch.get_probabilities(burn=0)
    xs = [to_lattice(row) for row in np.asarray(smp, dtype=float).reshape(len(smp), -1)] if len(smp) else []
    es = []
    for p in np.atleast_1d(prb):
        v = to_lattice(-float(p) * c["T"] / LN2, tol=1e-7)
        es.append(None if v is None else v[0])
    return xs, es


def replay_behaviour(c, b, m):
    """run the real chain along behaviour b (from TLC); return observation dict"""
    log = []
    ch, post = build_chain(c, b["start"], log, dtype=(int if (len(b["draws"]) + sum(int(v) for v in b["start"])) % 2 else float))
    nn = c["n"] if c["kind"] == "metropolis" else 1
    attempts = [{"k": d[0], "u": [mid(d[1], m)]} for d in b["draws"]]
    script = Script(attempts, n_normals=nn)
    from harness.mcmc_kit import inject
    inject(ch, lambda path: ScriptedGen(script, path))
    log.clear()
    steps = len(b["chain"]) - 1
    err = None
    try:
        for _ in range(steps):
            ch.take_step()
    except Exception as ex:          # the library raising on a legal history is itself an observation
        err = repr(ex)
    evals = [to_lattice(e[1]) for e in log if e[0] == "eval"]
    xs, es = observe(ch, c)
    consumed = min(script.t + 1, len(attempts)) if script.t >= 0 else 0
    try:
        mode = to_lattice(ch.mode())
    except Exception as ex:
        mode = "error: " + repr(ex)
    return {"evals": evals, "chain": xs, "probs": es, "consumed": consumed, "overrun": script.overrun, "error": err,
            "chain_length": getattr(ch, "chain_length", None), "mode": mode}


def judge(ck, c, b, obs, index, classname):
    """compare an observation with the TLC behaviour(s); returns 'ok' | 'retry' | 'violation'"""
    site = f"{classname}.take_step"
    ident = {"cf": {k: c[k] for k in ("kind", "n", "T", "mode", "tabname")}, "start": b["start"], "draws": b["draws"]}
    if obs["error"]:
        ck.violation("step raised", {**ident, "error": obs["error"]}, site=site)
        return "violation"
    if obs["overrun"]:
        if b["nstay"] > 0:
            # the code asked for another proposal after a rejection instead of recording the unchanged coordinate
            if ck.pid == "C01":      # a C01 matter (known finding F1); for other properties both semantics conform
                ck.violation("rejected proposal is retried inside the step (RejectRetry) instead of being recorded (RejectStay)",
                             {"class": classname}, site=f"{classname}.take_step:retry-until-accept")
            return "retry"
        ck.violation("acceptance decision: the code rejected / kept drawing where the specification commits",
                     {**ident, "spec_evals": b["evals"], "code_evals": obs["evals"]}, site=site)
        return "violation"
    target = b
    if obs["consumed"] < len(b["draws"]):
        key = (c["id"], tuple(b["start"]), json.dumps(b["draws"][:obs["consumed"]]), len(b["chain"]))
        cands = index.get(key, [])
        match = [t for t in cands if t["evals"] == obs["evals"] and t["chain"] == obs["chain"]]
        if not match:
            ck.violation("step committed early: no specification behaviour explains the draws consumed",
                         {**ident, "consumed": obs["consumed"], "code_evals": obs["evals"], "code_chain": obs["chain"]}, site=site)
            return "violation"
        target = match[0]
    bad = None
    if obs["evals"] != target["evals"]:
        bad = "points handed to the posterior (proposal map / proposal centre)"
    elif obs["chain"] != target["chain"]:
        bad = "recorded samples (acceptance decision / commit)"
    elif obs["probs"] != target["probs"]:
        bad = "ProbsBelong: recorded log-probability * T / -ln2 = energy of the recorded sample"
    elif obs["chain_length"] != len(target["chain"]):
        bad = "LenAgree: chain_length = number of stored samples"
    if bad:
        ck.violation(bad, {**ident, "spec": {k: target[k] for k in ("evals", "chain", "probs")},
                           "code": {k: obs[k] for k in ("evals", "chain", "probs", "chain_length")}}, site=site)
        return "violation"
    # mode(): a recorded sample whose recorded log-probability is maximal
    am = [target["chain"][i - 1] for i in target["argmax"]]
    if obs["mode"] not in am:
        ck.violation("ModeIsArgmax: mode() is a recorded sample with maximal recorded log-probability",
                     {**ident, "mode": obs["mode"], "argmax_samples": am}, site=f"{classname}.mode")
        return "violation"
    return "ok"


CLASSNAME = {"gibbs": "GibbsChain", "metropolis": "MetropolisChain", "pca": "PcaChain"}


def index_behaviours(printed):
    idx = {}
    for b in printed:
        key = (b["cf"], tuple(b["start"]), json.dumps(b["draws"]), len(b["chain"]))
        idx.setdefault(key, []).append(b)
    return idx


# ------------------------------------------------------------------------------ observed kernel

def tabulate_kernel(c, region, kmax, m):
    """implementation's one-attempt kernel: table[x][k][ui] = y (lattice int) or None when outside `region`"""
    from harness.mcmc_kit import inject
    table = {}
    for x in region:
        rows = []
        for k in range(-kmax, kmax + 1):
            row = []
            for ui in range(2 ** m):
                log = []
                ch, post = build_chain(c, [x], log)
                script = Script([{"k": [k], "u": [mid(ui, m)]}], n_normals=1)
                inject(ch, lambda path: ScriptedGen(script, path))
                ch.take_step()
                y = to_lattice(ch.get_last())
                row.append(None if y is None else y[0])
            rows.append(row)
        table[x] = rows
    return table
