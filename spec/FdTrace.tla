------------------------------- MODULE FdTrace -------------------------------
(* C07, finite differences (code -> spec).  One estimate of the gradient at t is a sequence of posterior   *)
(* calls: Base (the point t itself, any number of times) and FdProbe(i) -- a point that differs from t in  *)
(* coordinate i only, by a non-zero amount, inside the bounds -- for every coordinate exactly once; the     *)
(* result must be finite and within tolerance of the true gradient (the log-density is linear, so the       *)
(* quotient is exact up to rounding), for every t including zero-valued coordinates.                       *)
EXTENDS Integers, Sequences, FiniteSets, TLC, TLCExt, Json, IOUtils
Log == ndJsonDeserialize(IOEnv.TRACE_FILE)
TolPpm == 1000
VARIABLES l, dim, probed, open
vars == <<l, dim, probed, open>>
Ev == Log[l]
TraceInit == TLCSet(1, 1) /\ l = 1 /\ dim = 0 /\ probed = {} /\ open = FALSE
Begin == Ev.ev = "Begin" /\ ~open /\ dim' = Ev.n /\ probed' = {} /\ open' = TRUE
Base == Ev.ev = "Base" /\ open /\ UNCHANGED <<dim, probed, open>>
FdProbe == /\ Ev.ev = "Probe" /\ open
           /\ Len(Ev.coords) = 1                       \* differs in exactly one coordinate (so by a non-zero amount)
           /\ Ev.coords[1] \notin probed               \* each coordinate once
           /\ Ev.inside                                \* never outside the bounds (C04)
           /\ probed' = probed \cup {Ev.coords[1]} /\ UNCHANGED <<dim, open>>
Result == /\ Ev.ev = "Result" /\ open
          /\ probed = 1..dim                           \* every coordinate was probed, zero-valued ones included
          /\ Ev.finite /\ ~Ev.raised /\ Ev.err_ppm <= TolPpm
          /\ open' = FALSE /\ UNCHANGED <<dim, probed>>
TraceNext == l <= Len(Log) /\ l' = l + 1 /\ (Begin \/ Base \/ FdProbe \/ Result)
TraceSpec == TraceInit /\ [][TraceNext]_vars
Progress == TLCSet(1, IF l > TLCGet(1) THEN l ELSE TLCGet(1))
TraceAccepted == IF TLCGet(1) = Len(Log) + 1 THEN TRUE ELSE PrintT(<<"REJECTED at line", TLCGet(1)>>) /\ FALSE
=============================================================================
