SPECIFICATION TraceSpec
CONSTRAINT Progress
POSTCONDITION TraceAccepted
CHECK_DEADLOCK FALSE
