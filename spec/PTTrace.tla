------------------------------- MODULE PTTrace -------------------------------
(***************************************************************************)
(* C08 / C03, code -> spec: validates the per-process event logs of a REAL  *)
(* ParallelTempering run (master + N forked workers, traced pipes).         *)
(*                                                                         *)
(* There is no global clock: each process has its own cursor into its own   *)
(* log, and events of different processes are related only through the      *)
(* FIFO pipes of the specification.  TLC explores every interleaving        *)
(* consistent with the per-process orders (depth-first queue) and must be   *)
(* able to consume every event.  The pairing is not logged: TLC infers it   *)
(* -- a uniform draw not followed by update sends must be a REJECTION for   *)
(* some pair of chains not yet used in this round; a draw followed by two   *)
(* sends must be an ACCEPTANCE for exactly that pair, each chain receiving  *)
(* the other's point and UNTEMPERED energy.                                 *)
(***************************************************************************)
EXTENDS Integers, Sequences, FiniteSets, TLC, TLCExt, Json, IOUtils
CONSTANTS N,          \* number of chains
          Beta4,      \* Beta4[w] = 4 / T_w
          ETab, ELo,  \* additive energy table (multiples of 4): E(x) = SUM_j ETab[x_j - ELo + 1]
          InitPos,    \* InitPos[w] = starting point of chain w
          MB          \* the master's uniform draws are mid-points of a 2^MB lattice
W == 1..N
RECURSIVE Pow2(_)
Pow2(n) == IF n = 0 THEN 1 ELSE 2 * Pow2(n - 1)
RECURSIVE SumE(_, _)
SumE(x, n) == IF n = 0 THEN 0 ELSE SumE(x, n - 1) + ETab[x[n] - ELo + 1]
Energy(x) == SumE(x, Len(x))
\* exchange rule for chains a < b with untempered energies Ea, Eb and u = (2i+1)/2^(MB+1):
\*   accept iff u <= exp((1/Ta - 1/Tb)(Lb - La)) = 2^x,  x = (Beta4_a - Beta4_b)(Ea - Eb)/4     (L = -ln2 E, 1/T = Beta4/4)
Accept(a, b, Ea, Eb, i) == LET x == ((Beta4[a] - Beta4[b]) * (Ea - Eb)) \div 4
                           IN IF x >= 0 THEN TRUE ELSE IF -x > MB THEN FALSE ELSE (2 * i + 1) * Pow2(-x) <= Pow2(MB + 1)
Log == ndJsonDeserialize(IOEnv.TRACE_FILE)
ProcName(w) == "W" \o ToString(w)
VARIABLES logM, logW,      \* per-process event sequences (bound once in Init)
          lm, lw,          \* cursors
          inbox, outbox,   \* FIFO pipes (abstract messages = the logged records)
          chain,           \* chain[w] = [n, pos, tp4]
          wtask,           \* worker's current task: <<>> or <<"advance", remaining>> ...
          got,             \* last position reply received by the master from w
          swapst,          \* master's swap sub-state: <<>> | <<"drawn", i>> | <<"half", a, b>>
          used,            \* workers already paired in this swap round
          stats,           \* [acc, rej, nontrivial]: exchanges accepted / rejected / accepted with different energies
          plist,           \* pairs proposed in this round that have not had their draw yet
          att, suc         \* the master's exchange book-keeping: att[<<a, b>>] = times pair (a, b) was proposed, suc = times it was exchanged
vars == <<logM, logW, lm, lw, inbox, outbox, chain, wtask, got, swapst, used, stats, plist, att, suc>>
TraceInit == /\ TLCSet(1, 0)
             /\ logM = SelectSeq(Log, LAMBDA e : e.p = "M")
             /\ logW = [w \in W |-> SelectSeq(Log, LAMBDA e : e.p = ProcName(w))]
             /\ lm = 1 /\ lw = [w \in W |-> 1]
             /\ inbox = [w \in W |-> <<>>] /\ outbox = [w \in W |-> <<>>]
             /\ chain = [w \in W |-> [n |-> 1, pos |-> InitPos[w], tp4 |-> Energy(InitPos[w]) * Beta4[w]]]
             /\ wtask = [w \in W |-> <<>>] /\ got = [w \in W |-> <<>>] /\ swapst = <<>> /\ used = {}
             /\ stats = [acc |-> 0, rej |-> 0, nontrivial |-> 0] /\ plist = <<>>
             /\ att = [p \in W \X W |-> 0] /\ suc = [p \in W \X W |-> 0]
EM == logM[lm]
\* untempered energy reported by worker a in this round (the master divides by the inverse temperature)
Untemper(a) == got[a][2] \div Beta4[a]
\* ---- master events ----
\* The master logs the pairs it proposes in a round ("pairs", in the order it goes through them), one "draw" per pair, and the two
\* update messages of an accepted exchange.  swapst: <<>> | <<"drawn", i, a, b>> (a draw made for pair (a, b), outcome not yet known)
\* | <<"half", a, b>> (first update message of an accepted exchange sent)
PairsValid(ps) == /\ \A k \in 1..Len(ps) : ps[k][1] \in W /\ ps[k][2] \in W /\ ps[k][1] < ps[k][2]
                  /\ \A k, m \in 1..Len(ps) : k # m => {ps[k][1], ps[k][2]} \cap {ps[m][1], ps[m][2]} = {}     \* PairsDisjoint
\* a pending draw that is not followed by update messages was a rejection: the exchange rule must say so for THAT pair
\* (IF, not a disjunction: inside an action TLC explores both sides of a disjunction)
CloseDraw == IF swapst = <<>> THEN TRUE
             ELSE swapst[1] = "drawn" /\ ~Accept(swapst[3], swapst[4], Untemper(swapst[3]), Untemper(swapst[4]), swapst[2])
Rejected == IF swapst = <<>> THEN FALSE ELSE swapst[1] = "drawn"
MSendTask == /\ lm <= Len(logM) /\ EM.ev = "send" /\ EM.task # "update_position"
             /\ CloseDraw /\ swapst' = <<>>
             /\ plist = <<>>                                       \* every proposed pair got its draw before the next request goes out
             /\ used' = {}
             /\ stats' = IF Rejected THEN [stats EXCEPT !.rej = @ + 1] ELSE stats
             /\ inbox' = [inbox EXCEPT ![EM.w] = Append(@, EM)] /\ lm' = lm + 1
             /\ UNCHANGED <<logM, logW, lw, outbox, chain, wtask, got, plist, att, suc>>
MPairs == /\ lm <= Len(logM) /\ EM.ev = "pairs"
          /\ swapst = <<>> /\ plist = <<>>
          /\ PairsValid(EM.pairs)
          /\ plist' = EM.pairs /\ lm' = lm + 1
          \* (the pairs of a round are disjoint, so each is counted once)
          /\ att' = [p \in W \X W |-> att[p] + (IF \E k \in 1..Len(EM.pairs) : <<EM.pairs[k][1], EM.pairs[k][2]>> = p THEN 1 ELSE 0)]
          /\ UNCHANGED <<logM, logW, lw, inbox, outbox, chain, wtask, got, swapst, used, stats, suc>>
MDraw == /\ lm <= Len(logM) /\ EM.ev = "draw"
         /\ CloseDraw
         /\ plist # <<>>                                            \* one draw per proposed pair, in order
         /\ stats' = IF Rejected THEN [stats EXCEPT !.rej = @ + 1] ELSE stats
         /\ swapst' = <<"drawn", EM.i, Head(plist)[1], Head(plist)[2]>> /\ plist' = Tail(plist)
         /\ used' = used \cup {Head(plist)[1], Head(plist)[2]} /\ lm' = lm + 1
         /\ UNCHANGED <<logM, logW, lw, inbox, outbox, chain, wtask, got, att, suc>>
\* as coded the first update goes to chain i (= the lower index a) and carries chain j's point, the second to j carrying i's
MUpdate1 == /\ lm <= Len(logM) /\ EM.ev = "send" /\ EM.task = "update_position"
            /\ swapst # <<>> /\ swapst[1] = "drawn"
            /\ LET a == swapst[3]  b == swapst[4] IN
                    /\ EM.w = a
                    /\ Accept(a, b, Untemper(a), Untemper(b), swapst[2])          \* the exchange rule for the pair that was proposed
                    /\ EM.pos = got[b][1] /\ EM.e = Untemper(b)                 \* HandOver: the other's point, untempered energy
                    /\ swapst' = <<"half", a, b>>
            /\ inbox' = [inbox EXCEPT ![EM.w] = Append(@, EM)] /\ lm' = lm + 1
            /\ UNCHANGED <<logM, logW, lw, outbox, chain, wtask, got, used, stats, plist, att, suc>>
MUpdate2 == /\ lm <= Len(logM) /\ EM.ev = "send" /\ EM.task = "update_position"
            /\ swapst # <<>> /\ swapst[1] = "half" /\ EM.w = swapst[3]
            /\ LET a == swapst[2] IN EM.pos = got[a][1] /\ EM.e = Untemper(a)
            /\ swapst' = <<>>
            /\ stats' = [stats EXCEPT !.acc = @ + 1,
                                      !.nontrivial = @ + (IF Untemper(swapst[2]) # Untemper(swapst[3]) THEN 1 ELSE 0)]
            /\ suc' = [suc EXCEPT ![<<swapst[2], swapst[3]>>] = @ + 1]
            /\ inbox' = [inbox EXCEPT ![EM.w] = Append(@, EM)] /\ lm' = lm + 1
            /\ UNCHANGED <<logM, logW, lw, outbox, chain, wtask, got, used, plist, att>>
MRecv == /\ lm <= Len(logM) /\ EM.ev = "recv" /\ outbox[EM.w] # <<>>
         /\ LET m == Head(outbox[EM.w]) IN
              /\ m.reply = EM.reply
              /\ (EM.reply = "position" => m.pos = EM.pos /\ m.tp4 = EM.tp4)
              /\ (EM.reply = "chain" => m.n = EM.n)
         /\ got' = IF EM.reply = "position" THEN [got EXCEPT ![EM.w] = <<EM.pos, EM.tp4>>] ELSE got
         /\ outbox' = [outbox EXCEPT ![EM.w] = Tail(@)] /\ lm' = lm + 1
         /\ UNCHANGED <<logM, logW, lw, inbox, chain, wtask, swapst, used, stats, plist, att, suc>>
\* the master's exchange statistics (attempted_swaps / successful_swaps, read after a swap or advance call returned): every ordered pair
\* a # b is reported; only pairs a < b are ever proposed, each counted once per proposal and once per exchange
MStats == /\ lm <= Len(logM) /\ EM.ev = "swapstats"
          /\ CloseDraw /\ swapst' = <<>> /\ plist = <<>>
          /\ stats' = IF Rejected THEN [stats EXCEPT !.rej = @ + 1] ELSE stats
          /\ \A k \in 1..Len(EM.att) : att[<<EM.att[k][1], EM.att[k][2]>>] = EM.att[k][3]
          /\ \A k \in 1..Len(EM.suc) : suc[<<EM.suc[k][1], EM.suc[k][2]>>] = EM.suc[k][3]
          /\ Len(EM.att) = N * (N - 1) /\ Len(EM.suc) = N * (N - 1)
          /\ lm' = lm + 1
          /\ UNCHANGED <<logM, logW, lw, inbox, outbox, chain, wtask, got, used, plist, att, suc>>
\* ---- worker events ----
EW(w) == logW[w][lw[w]]
WRecv(w) == /\ lw[w] <= Len(logW[w]) /\ EW(w).ev = "recv" /\ inbox[w] # <<>> /\ wtask[w] = <<>>
            /\ LET m == Head(inbox[w]) IN
                 /\ m.task = EW(w).task
                 /\ (m.task = "advance" => m.n = EW(w).n)
                 /\ (m.task = "update_position" => m.pos = EW(w).pos /\ m.e = EW(w).e)
                 /\ chain' = IF m.task = "update_position"
                             THEN [chain EXCEPT ![w].pos = m.pos, ![w].tp4 = m.e * Beta4[w]]   \* as coded: probability * inv_temp
                             ELSE chain
                 /\ wtask' = [wtask EXCEPT ![w] = CASE m.task = "advance" -> <<"advance", m.n>>
                                                     [] m.task = "update_position" -> <<>>
                                                     [] OTHER -> <<m.task>>]
            /\ inbox' = [inbox EXCEPT ![w] = Tail(@)] /\ lw' = [lw EXCEPT ![w] = @ + 1]
            /\ UNCHANGED <<logM, logW, lm, outbox, got, swapst, used, stats, plist, att, suc>>
WStep(w) == /\ lw[w] <= Len(logW[w]) /\ EW(w).ev = "step" /\ wtask[w] # <<>> /\ wtask[w][1] = "advance" /\ wtask[w][2] > 0
            /\ EW(w).n = chain[w].n + 1
            /\ chain' = [chain EXCEPT ![w] = [n |-> EW(w).n, pos |-> EW(w).pos, tp4 |-> EW(w).tp4]]
            /\ wtask' = [wtask EXCEPT ![w] = <<"advance", @[2] - 1>>] /\ lw' = [lw EXCEPT ![w] = @ + 1]
            /\ UNCHANGED <<logM, logW, lm, inbox, outbox, got, swapst, used, stats, plist, att, suc>>
WSend(w) == /\ lw[w] <= Len(logW[w]) /\ EW(w).ev = "send" /\ wtask[w] # <<>>
            /\ \/ wtask[w] = <<"advance", 0>> /\ EW(w).reply = "advance_complete"
               \/ wtask[w] = <<"send_position">> /\ EW(w).reply = "position" /\ EW(w).pos = chain[w].pos /\ EW(w).tp4 = chain[w].tp4
               \/ wtask[w] = <<"send_chain">> /\ EW(w).reply = "chain" /\ EW(w).n = chain[w].n
            /\ outbox' = [outbox EXCEPT ![w] = Append(@, EW(w))] /\ wtask' = [wtask EXCEPT ![w] = <<>>]
            /\ lw' = [lw EXCEPT ![w] = @ + 1]
            /\ UNCHANGED <<logM, logW, lm, inbox, chain, got, swapst, used, stats, plist, att, suc>>
MAct == MSendTask \/ MPairs \/ MDraw \/ MUpdate1 \/ MUpdate2 \/ MRecv \/ MStats
WAct(w) == WRecv(w) \/ WStep(w) \/ WSend(w)
TraceNextFull == MAct \/ \E w \in W : WAct(w)             \* every interleaving of the per-process logs
\* Partial-order reduction.  A worker's event is determined by its own log, touches only its own chain, task, cursor and the tail /
\* head of its two pipes, and can neither disable nor be disabled by an event of another process (the master only appends to inbox[w]
\* and only pops outbox[w]).  So worker events commute with everything else: it is enough to let the lowest-numbered enabled worker
\* move, and the master only when no worker can.  Every value chain[w] ever takes (ProbsBelong) and every choice of the master
\* (pair inference) is still visited; the number of states becomes linear in the trace length instead of exponential in N.
TraceNext == \/ \E w \in W : WAct(w) /\ \A v \in 1..(w - 1) : ~ENABLED WAct(v)
             \/ MAct /\ \A v \in W : ~ENABLED WAct(v)
TraceSpec == TraceInit /\ [][TraceNext]_vars
TraceSpecFull == TraceInit /\ [][TraceNextFull]_vars
\* book-keeping: never more exchanges than proposals, nothing ever recorded for a pair with a >= b
StatsSane == \A p \in W \X W : suc[p] <= att[p] /\ (p[1] >= p[2] => att[p] = 0)
\* C03 under exchanges: at every moment each chain's stored value belongs to its current point
ProbsBelong == \A w \in W : chain[w].tp4 = Energy(chain[w].pos) * Beta4[w]
RECURSIVE SumLw(_)
SumLw(n) == IF n = 0 THEN 0 ELSE SumLw(n - 1) + (lw[n] - 1)
Consumed == (lm - 1) + SumLw(N)
\* a trailing rejected draw is closed at the end of the master's log
EndOK == lm > Len(logM) => (CloseDraw /\ plist = <<>>)
Progress == TLCSet(1, IF Consumed > TLCGet(1) THEN Consumed ELSE TLCGet(1))
AtEnd == Consumed = Len(Log)
Report == AtEnd => PrintT(<<"STATS", stats.acc, stats.rej + (IF swapst = <<>> THEN 0 ELSE 1), stats.nontrivial>>)
TraceAccepted == IF TLCGet(1) = Len(Log) THEN TRUE ELSE PrintT(<<"REJECTED: events explained", TLCGet(1), "of", Len(Log)>>) /\ FALSE
=============================================================================
