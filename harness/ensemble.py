"""Ensemble.tla behaviours replayed into the real EnsembleSampler (used by C01, C03, C04, C15)."""
import json
import numpy as np

from harness.core import run_tlc, must_pass, tla_val, seed, MachineryError
from harness.mcmc_kit import Script, ScriptedGen, inject, mid, to_lattice, LN2

D = 4096
THRESHOLDS = [-1, 1, 2]
M = 6
MAXATTW = 2


class StepPost:
    """logp(x) = -ln2 * 4 * sum_j #{th : x_j >= th} (piecewise constant, picklable)"""

    def __init__(self, log=None):
        self.log = log

    def __call__(self, x):
        x = np.atleast_1d(np.asarray(x, dtype=float))
        if self.log is not None:
            self.log.append(x.copy())
        return -LN2 * 4 * sum(int(v >= th) for v in x for th in THRESHOLDS)


def configs():
    out = []
    starts = {1: [[-2], [1], [3]], 2: [[-2, 0], [1, 3], [3, -1]]}
    cid = 0
    for n in (1, 2):
        for mode in ("free", "box"):
            out.append({"id": cid, "n": n, "w": 3, "mode": mode, "blo": -3, "bhi": 4, "start": starts[n]})
            cid += 1
    out.append({"id": cid, "n": 2, "w": 4, "mode": "free", "blo": 0, "bhi": 0, "start": [[-2, 0], [1, 3], [3, -1], [0, -3]]})
    cid += 1
    # a stretch parameter other than the default: alpha = 8 (sqrt(2/alpha) = 1/2 and sqrt(2 alpha) = 4 are rational)
    out.append({"id": cid, "n": 2, "w": 3, "mode": "free", "blo": 0, "bhi": 0, "start": starts[2], "alpha": 8})
    cid += 1
    out.append({"id": cid, "n": 1, "w": 3, "mode": "box", "blo": -3, "bhi": 4, "start": starts[1], "alpha": 8})
    for c in out:
        c.setdefault("alpha", 2)
    return out


ZS = {2: [[0, 1], [1, 2], [3, 4]], 8: [[0, 1], [1, 7], [3, 7]]}
XL = {2: ([1, 1], [1, 1]), 8: ([1, 2], [7, 2])}


MC = """---- MODULE MC_Ensemble ----
EXTENDS Ensemble, Json
MCConfigs == %(cfgs)s
MCZ == %(zset)s
MCUA == %(ua)s
MCTh == {-1, 1, 2}
Export == AtIterEnd => PrintT(ToJson([cf |-> ec.id, iter |-> iter, draws |-> draws, evals |-> evals, pos |-> pos, wp |-> wp,
                                      rows |-> rows, rowp |-> rowp, props |-> props, fails |-> fails, nretry |-> nretry, nstay |-> nstay]))
====
"""
CFG = """SPECIFICATION ESpec
CONSTANTS EConfigs <- MCConfigs
  ZSet <- MCZ
  UASet <- MCUA
  Thresholds <- MCTh
  D = %(d)d M = %(m)d MaxAttW = %(maxatt)d MaxIter = %(maxiter)d
INVARIANT WalkerProbsBelong
INVARIANT RowsBelong
INVARIANT EInside
INVARIANT Involution
INVARIANT Counters
INVARIANT Export
CHECK_DEADLOCK FALSE
"""


def explore(cfgs, zset, ua, maxiter, simulate=None, depth=30, seed_=None, timeout=900):
    global CFG
    recs = ", ".join('[id |-> %d, n |-> %d, w |-> %d, mode |-> "%s", blo |-> %d, bhi |-> %d, start |-> %s, xl |-> %s, xw |-> %s, zs |-> {%s}]'
                     % (c["id"], c["n"], c["w"], c["mode"], c["blo"], c["bhi"], tla_val(c["start"]), tla_val(XL[c["alpha"]][0]),
                        tla_val(XL[c["alpha"]][1]), ", ".join(tla_val(z) for z in ZS[c["alpha"]])) for c in cfgs)
    mod = MC % {"cfgs": "{" + recs + "}", "zset": "{" + ", ".join(tla_val(z) for z in zset) + "}",
                "ua": "{" + ", ".join(map(str, ua)) + "}"}
    cfg = CFG % {"d": D, "m": M, "maxatt": MAXATTW, "maxiter": maxiter}
    if simulate:
        cfg = cfg.replace("INVARIANT Involution\n", "")
    return run_tlc("MC_Ensemble", cfg_text=cfg, extra_files={"MC_Ensemble.tla": mod}, simulate=simulate,
                   depth=(depth if simulate else None), seed_=seed_, workers=(1 if simulate else 16), timeout=timeout)


def replay(c, b):
    from inference.mcmc import EnsembleSampler
    log = []
    post = StepPost(log)
    # whole-number starting positions: given as a float array or, for every other behaviour, as an integer array
    start = np.array(c["start"], dtype=(int if len(b["draws"]) % 2 else float))
    start_copy = start.copy()
    kw = {}
    if c["mode"] == "box":
        kw["bounds"] = (np.full(c["n"], float(c["blo"])), np.full(c["n"], float(c["bhi"])))
    ch = EnsembleSampler(posterior=post, starting_positions=start, alpha=float(c["alpha"]), display_progress=False, **kw)
    ch.max_attempts = MAXATTW
    attempts = [{"k": [], "j": d[0], "u": [d[1][0] / d[1][1], mid(d[2], M)]} for d in b["draws"]]
    script = Script(attempts, n_normals=0)
    inject(ch, lambda path: ScriptedGen(script, path))
    log.clear()
    err = None
    try:
        ch.advance(b["iter"])
    except Exception as ex:
        err = repr(ex)
    def lat(a):
        return [to_lattice(r, unit=1.0 / D) for r in np.asarray(a, dtype=float).reshape(-1, c["n"])]
    def en(a):
        return [(to_lattice(-float(p) / LN2, tol=1e-7) or [None])[0] for p in np.atleast_1d(a)]
    obs = {"error": err, "evals": lat(log) if log else [], "consumed": min(script.t + 1, len(attempts)), "overrun": script.overrun}
    if err is None:
        obs.update({"pos": lat(ch.walker_positions), "wp": en(ch.walker_probs), "rows": lat(ch.get_sample()),
                    "rowp": en(ch.get_probabilities()), "chain_length": int(ch.chain_length),
                    "props": [int(ch.total_proposals[w][it]) for it in range(b["iter"]) for w in range(c["w"])],
                    "props_shape": [len(v) for v in ch.total_proposals], "fails": [int(v) for v in ch.failed_updates],
                    "n_iterations": int(ch.n_iterations),
                    "start_unchanged": bool(np.array_equal(start, start_copy))})
        try:
            mode = to_lattice(ch.mode(), unit=1.0 / D)
            best = min(obs["rowp"]) if None not in obs["rowp"] else None
            obs["mode_ok"] = any(mode == r and p == best for r, p in zip(obs["rows"], obs["rowp"]))
        except Exception as ex:
            obs["mode_ok"] = False
    return obs


def judge(ck, c, b, obs, index, counters=False):
    site = "EnsembleSampler.advance"
    ident = {"cf": {k: c[k] for k in ("n", "w", "mode", "start")}, "draws[jraw,uz,ui]": b["draws"], "iterations": b["iter"]}
    if obs["error"]:
        ck.violation("advance raised", {**ident, "error": obs["error"]}, site=site)
        return "violation"
    if obs["overrun"]:
        if b["nstay"] > 0:
            if ck.pid == "C01":      # a C01 matter (known finding F1); for other properties both semantics conform
                ck.violation("rejected proposal is retried inside the step (RejectRetry) instead of being recorded (RejectStay)",
                             {"class": "EnsembleSampler"}, site="EnsembleSampler.advance:retry-until-accept")
            return "retry"
        ck.violation("acceptance decision: the code rejected / kept drawing where the specification moves on",
                     {**ident, "spec_evals": b["evals"], "code_evals": obs["evals"]}, site=site)
        return "violation"
    target = b
    if obs["consumed"] < len(b["draws"]):
        cands = index.get((c["id"], json.dumps(b["draws"][:obs["consumed"]]), b["iter"]), [])
        match = [t for t in cands if t["evals"] == obs["evals"] and t["pos"] == obs["pos"]]
        if not match:
            ck.violation("iteration ended early: no specification behaviour explains the draws consumed",
                         {**ident, "consumed": obs["consumed"], "code_evals": obs["evals"]}, site=site)
            return "violation"
        target = match[0]
    checks = [("evals", "stretch proposal Y = x_j + z(x_i - x_j), partner choice, reflection"),
              ("pos", "walker positions after the iteration (acceptance with z^(n-1) pi(Y)/pi(x_i))"),
              ("wp", "WalkerProbsBelong: walker log-probability belongs to the walker position"),
              ("rows", "stored sample rows = copies of the walker positions after each iteration"),
              ("rowp", "RowsBelong: stored log-probabilities belong to the stored rows"),
              ("props", "attempt counters")]
    for key, clause in checks:
        if obs[key] != target[key]:
            if key == "props":
                if counters and b["nstay"] == 0:
                    ck.violation("attempt counters: total_proposals[w][k] = attempts walker w made in iteration k (max_attempts when it gave up)",
                                 {**ident, "spec": target["props"], "code": obs["props"]}, site="EnsembleSampler.total_proposals")
                    return "violation"
                continue          # diagnostic counters: not part of any listed property (judged by ./check bookkeeping)
            ck.violation(clause, {**ident, "spec": {k: target[k] for k in ("evals", "pos", "wp", "rows", "rowp")},
                                  "code": {k: obs[k] for k in ("evals", "pos", "wp", "rows", "rowp")}}, site=site)
            return "violation"
    if obs["chain_length"] != len(target["rows"]):
        ck.violation("chain_length = iterations * walkers = number of stored rows",
                     {**ident, "chain_length": obs["chain_length"], "rows": len(target["rows"])}, site=site)
        return "violation"
    if not obs["mode_ok"]:
        ck.violation("ModeIsArgmax (ensemble)", ident, site="EnsembleSampler.mode")
        return "violation"
    if counters and b["nstay"] == 0:
        if obs["fails"] != target["fails"] or obs["n_iterations"] != target["iter"] or obs["props_shape"] != [target["iter"]] * c["w"]:
            ck.violation("failed_updates[k] = walkers that gave up in iteration k; n_iterations = iterations made; one attempt counter per walker and iteration",
                         {**ident, "spec_failed": target["fails"], "code_failed": obs["fails"], "n_iterations": obs["n_iterations"],
                          "counters_per_walker": obs["props_shape"]}, site="EnsembleSampler.failed_updates")
            return "violation"
    if not obs["start_unchanged"]:
        ck.violation("caller's starting_positions array is left unchanged", ident, site="EnsembleSampler.__init__:ownership")
        return "violation"
    return "ok"


def run_part(ck, tier, counters=False):
    cfgs = configs()
    runs = [("exhaustive", dict(zset=[[1, 2], [3, 7]], ua=[0, 63], maxiter=1)),
            ("simulate", dict(zset=[[0, 1], [1, 2], [3, 4], [1, 7], [3, 7]], ua=[0, 1, 2, 3, 4, 31, 32, 63], maxiter=2,
                              simulate="num=%d" % (120 if tier == "quick" else 1200), depth=24, seed_=seed() + 11))]
    if tier == "thorough":
        runs.insert(1, ("exhaustive2", dict(zset=[[0, 1], [1, 2]], ua=[0, 3, 63], maxiter=1)))
    for label, kw in runs:
        use = cfgs
        if label == "exhaustive2":
            use = cfgs[:2]
        elif label == "exhaustive" and tier == "quick":
            use = [cfgs[1], cfgs[2], cfgs[5], cfgs[6]]
        r = explore(use, **kw)
        if r.violated:
            ck.violation("spec: Ensemble invariants", {"violated": r.violated}, site="spec")
        must_pass(r, "Ensemble " + label)
        ck.tlc(r, "ensemble_" + label)
        index = {}
        for b in r.printed:
            index.setdefault((b["cf"], json.dumps(b["draws"]), b["iter"]), []).append(b)
        seen = set()
        verdicts = {"ok": 0, "retry": 0, "violation": 0}
        for b in r.printed:
            key = (b["cf"], json.dumps(b["draws"]), b["iter"], b["nstay"], b["nretry"])
            if key in seen:
                continue
            seen.add(key)
            c = next(x for x in cfgs if x["id"] == b["cf"])
            obs = replay(c, b)
            v = judge(ck, c, b, obs, index, counters=counters)
            verdicts[v] += 1
            ck.case(("ens", label) + key)
            if len(ck.samples) < 6 and b["nretry"] + b["nstay"] > 0 and label == "simulate":
                ck.sample({"part": "ensemble", "config": {k: c[k] for k in ("n", "w", "mode", "start")},
                           "draws[jraw,uz,ui]": b["draws"], "spec_positions/4096": b["pos"], "verdict": v})
        ck.count("ensemble_" + label, "behaviours_replayed", len(seen))
        for k, v in verdicts.items():
            ck.count("ensemble_" + label, k, v)
        ck.traces += len(seen)
