"""C11 -- GP model-selection scores and their gradients are what they claim to be.

MC   : GpExact.tla -- log marginal likelihood -1/2 r'K^-1 r - 1/2 ln det K, leave-one-out predictions and score DEFINED BY ACTUALLY
       DELETING each point (TLC checks that this equals the inverse-diagonal shortcut), gradients 1/2 tr((aa' - K^-1) dK), a'dm and the
       Rasmussen-Williams LOO gradient, all as exact SymLin values; Select.tla: the multi-start selection state machine.
S->C : marginal_likelihood, marginal_likelihood_gradient, loo_likelihood, loo_likelihood_gradient, loo_predictions of the real
       regressor on every enumerated problem.
C->S : automatic hyper-parameter selection on seeded random data sets, both optimisers and both criteria: recorded facts (inside the
       advertised bounds; score at least that of the centre of the box for the multi-start optimiser) validated by SelectTrace.tla.
"""
import json
import os
import warnings
import numpy as np

from harness.core import Check, run_tlc, seed, scratch, MachineryError
from harness import gpexact as GE
from harness import gpkit as G
from harness import symlin as SL


def sval(x):
    return SL.value(x)


def scores_part(ck, tier):
    probs = GE.explore(ck)
    big_done = [0]
    for c in probs:
        pb = c["pb"]
        idn = GE.ident(pb)
        ck.case(str(idn))
        try:
            gp, hp, _ = GE.regressor(pb)
            with np.errstate(all="ignore"):
                lml = float(gp.marginal_likelihood(hp))
                lml2, g_lml = gp.marginal_likelihood_gradient(hp)
                loo = float(gp.loo_likelihood(hp))
                loo2, g_loo = gp.loo_likelihood_gradient(hp)
                mu_l, sd_l = gp.loo_predictions()
                # other hyper-parameters set and read in between, then the original ones again: nothing may be carried over
                gp.set_hyperparameters(hp + 0.37)
                mu_o, sd_o = gp.loo_predictions()
                fresh, _, _ = GE.regressor(pb)                  # the same state reached without any earlier read-out
                fresh.set_hyperparameters(hp + 0.37)
                mu_of, sd_of = fresh.loo_predictions()
                path_ok = bool(np.allclose(mu_o, mu_of, rtol=1e-10, atol=1e-12) and np.allclose(sd_o, sd_of, rtol=1e-10, atol=1e-12))
                gp.set_hyperparameters(hp)
                mu_l2, sd_l2 = gp.loo_predictions()
                lml_again, loo_again = float(gp.marginal_likelihood(hp)), float(gp.loo_likelihood(hp))
        except Exception as ex:
            ck.violation("model-selection call raised", {**idn, "error": repr(ex)[:300]}, site="GpRegressor.scores")
            continue
        # whole-number hyper-parameters given as an INTEGER array: the scores and gradients of the equal float vector
        if True:
            try:
                with np.errstate(all="ignore"):
                    hr = np.round(np.asarray(hp, dtype=float))          # (the nearest whole-number vector; its float form is the reference)
                    r_lml2, r_g_lml = gp.marginal_likelihood_gradient(hr.copy())
                    r_loo2, r_g_loo = gp.loo_likelihood_gradient(hr.copy())
                    lml_r, loo_r = float(gp.marginal_likelihood(hr.copy())), float(gp.loo_likelihood(hr.copy()))
                    for form, hpi in (("int64 array", hr.astype(np.int64)), ("int32 array", hr.astype(np.int32))):      # (lists are not an accepted form for every kernel)
                        vi, gi = gp.marginal_likelihood_gradient(hpi)
                        vo, go = gp.loo_likelihood_gradient(hpi)
                        ok_i = (np.allclose(np.asarray(gi, dtype=float), np.asarray(r_g_lml, dtype=float), rtol=1e-12, atol=1e-12, equal_nan=True)
                                and np.allclose(np.asarray(go, dtype=float), np.asarray(r_g_loo, dtype=float), rtol=1e-12, atol=1e-12, equal_nan=True)
                                and np.allclose([float(vi), float(vo), float(gp.marginal_likelihood(hpi)), float(gp.loo_likelihood(hpi))],
                                                [float(r_lml2), float(r_loo2), lml_r, loo_r], rtol=1e-12, atol=1e-12, equal_nan=True))
                        if not ok_i:
                            ck.violation("integer-typed hyper-parameters give the scores and gradients of the equal float hyper-parameters",
                                         {**idn, "given_as": form, "gradient_float": np.asarray(r_g_lml, dtype=float), "gradient_integer": np.asarray(gi)},
                                         site="GpRegressor.marginal_likelihood_gradient:dtype")
                            break
            except Exception as ex:
                ck.violation("model-selection call raised (integer-typed hyper-parameters)", {**idn, "error": repr(ex)[:300]}, site="GpRegressor.scores")
        nm = len(pb["mean"]["th"])
        want_lml = sval(c["lml"])
        mag = SL.magnitude(c["lml"])
        if not (SL.close(lml, want_lml, mag) and SL.close(float(lml2), want_lml, mag)):
            ck.violation("marginal likelihood = log N(y; m, K + S) up to -n/2 ln 2pi (value and value-and-gradient variants)",
                         {**idn, "want": want_lml, "marginal_likelihood": lml, "from_gradient_variant": float(lml2)}, site="GpRegressor.marginal_likelihood")
        want_loo = sum(sval(t) for t in c["loo"])
        mag2 = sum(SL.magnitude(t) for t in c["loo"])
        if not (SL.close(loo, want_loo, mag2) and SL.close(float(loo2), want_loo, mag2)):
            ck.violation("leave-one-out score = sum of log predictive densities obtained by actually removing each point",
                         {**idn, "want": want_loo, "loo_likelihood": loo, "from_gradient_variant": float(loo2)}, site="GpRegressor.loo_likelihood")
        # a large data set: Rep copies 1e5 apart (squared-exponential prior, constant mean, independent errors), also in other units
        sig_ = G.rmat(pb["sig"])
        if pb["kern"]["k"] == "se" and len(pb["mean"]["th"]) == 1 and sig_.any() and np.allclose(sig_, np.diag(np.diag(sig_))) and big_done[0] < 6:
            big_done[0] += 1
            from inference.gp import GpRegressor
            R, sc2 = int(c["rep"]), 2.0 ** int(c["scale_log2"])
            X = np.array(pb["X"], dtype=float)
            n_, d_ = X.shape
            XR = np.concatenate([X + np.array([1e5 * b] + [0.0] * (d_ - 1)) for b in range(R)])
            yR, eR = np.tile(np.array(pb["y"], dtype=float), R), np.tile(np.sqrt(np.diag(sig_)), R)
            hpS = hp.copy()
            hpS[0] *= sc2
            hpS[1] += np.log(sc2)
            import warnings
            try:
                with warnings.catch_warnings(), np.errstate(all="ignore"):
                    warnings.simplefilter("ignore")
                    mk = lambda y__, e__, h__: GpRegressor(x=XR if d_ > 1 else XR[:, 0], y=y__, y_err=e__, hyperpars=h__,
                                                           kernel=G.build_kernel(pb["kern"], d_, n_ * R)[0], mean=G.build_mean(pb["mean"])[0])
                    gR, gS = mk(yR, eR, hp), mk(yR * sc2, eR * sc2, hpS)
                    got = {"lml": float(gR.marginal_likelihood(hp)), "lml_g": float(gR.marginal_likelihood_gradient(hp)[0]),
                           "loo": float(gR.loo_likelihood(hp)), "loo_g": float(gR.loo_likelihood_gradient(hp)[0]),
                           "lml_units": float(gS.marginal_likelihood(hpS)), "lml_g_units": float(gS.marginal_likelihood_gradient(hpS)[0]),
                           "loo_units": float(gS.loo_likelihood(hpS)), "loo_g_units": float(gS.loo_likelihood_gradient(hpS)[0])}
            except Exception as ex:
                ck.violation("model-selection call raised (large data set)", {**idn, "copies": R, "error": repr(ex)[:300]}, site="GpRegressor.scores")
            else:
                ck.case(str(idn) + "rep")
                wl, wo, sh = sval(c["lml_rep"]), R * want_loo, sval(c["unit_shift"])
                wants = {"lml": wl, "lml_g": wl, "loo": wo, "loo_g": wo, "lml_units": wl + sh, "lml_g_units": wl + sh, "loo_units": wo + sh,
                         "loo_g_units": wo + sh}
                badk = [k for k in wants if not SL.close(got[k], wants[k], abs(wants[k]) + R * (mag + mag2))]
                if badk:
                    ck.violation("marginal likelihood / leave-one-out score of a large data set (copies of the small one, far apart; also in "
                                 "units 2^-12 times smaller)", {**idn, "copies_1e5_apart": R, "data_points": n_ * R, "differs": badk,
                                                                "want": {k: wants[k] for k in badk}, "got": {k: got[k] for k in badk}},
                                 site="GpRegressor.marginal_likelihood:large" if any(k.startswith("lml") for k in badk) else "GpRegressor.loo_likelihood:large")
        # two regressors built from the SAME kernel / mean objects (sums and change-points included): the scores of the first are its own
        try:
            from inference.gp import GpRegressor as _GR
            import warnings as _w
            kinst, cth_ = G.build_kernel(pb["kern"], len(pb["X"][0]), len(pb["X"]))
            minst, mth_ = G.build_mean(pb["mean"])
            hp_ = np.array(list(mth_) + list(cth_), dtype=float)
            Xf = np.array(pb["X"], dtype=float)
            sg = G.rmat(pb["sig"])
            kw_ = {"y_cov": sg} if sg.any() else {}
            with _w.catch_warnings(), np.errstate(all="ignore"):
                _w.simplefilter("ignore")
                x1 = Xf if Xf.shape[1] > 1 else Xf[:, 0]
                x2 = (Xf * 1.5 + 0.25) if Xf.shape[1] > 1 else (Xf * 1.5 + 0.25)[:, 0]
                gA = _GR(x=x1, y=np.array(pb["y"], dtype=float), hyperpars=hp_.copy(), kernel=kinst, mean=minst, **kw_)
                gB = _GR(x=x2, y=np.array(pb["y"], dtype=float) + 1.0, hyperpars=hp_.copy(), kernel=kinst, mean=minst, **kw_)
                lA, lA2, oA = float(gA.marginal_likelihood(hp_)), float(gA.marginal_likelihood_gradient(hp_)[0]), float(gA.loo_likelihood(hp_))
            ck.case(str(idn) + "shared")
            if not (SL.close(lA, want_lml, mag) and SL.close(lA2, want_lml, mag) and SL.close(oA, want_loo, mag2)):
                ck.violation("the scores of a regressor are unaffected by another regressor built from the same kernel and mean objects",
                             {**idn, "want_lml": want_lml, "lml": lA, "from_gradient_variant": lA2, "want_loo": want_loo, "loo": oA},
                             site="GpRegressor.__init__:shared-kernel")
        except Exception as ex:
            ck.violation("regressors sharing a kernel object raised", {**idn, "error": repr(ex)[:300]}, site="GpRegressor.__init__:shared-kernel")
        want_mv = np.array([[G.fr(m[0]), G.fr(m[1])] for m in c["loomv"]])
        if not (GE.close(mu_l, want_mv[:, 0], float(np.max(np.abs(pb["y"])) + 1)) and GE.close(np.asarray(sd_l) ** 2, want_mv[:, 1])):
            ck.violation("leave-one-out predictions = prediction of each observation from the rest",
                         {**idn, "want_mean": want_mv[:, 0], "want_var": want_mv[:, 1], "mean": mu_l, "var": np.asarray(sd_l) ** 2},
                         site="GpRegressor.loo_predictions")
        if not (GE.close(mu_l2, want_mv[:, 0], float(np.max(np.abs(pb["y"])) + 1)) and GE.close(np.asarray(sd_l2) ** 2, want_mv[:, 1])
                and lml_again == lml and loo_again == loo and path_ok):
            ck.violation("leave-one-out predictions / scores after other hyper-parameters were set and the original ones restored",
                         {**idn, "want_mean": want_mv[:, 0], "mean_first": mu_l, "mean_after_restoring": mu_l2}, site="GpRegressor.loo_predictions:stale-state")
        g_lml, g_loo = np.asarray(g_lml, dtype=float), np.asarray(g_loo, dtype=float)
        # gradients: [mean parameters..., covariance parameters...]
        wm = np.array([G.fr(v) for v in c["lmlgm"]])
        if not GE.close(g_lml[:nm], wm, float(np.max(np.abs(wm), initial=1.0))):
            ck.violation("d LML / d mean-parameter = alpha' dm", {**idn, "want": wm, "got": g_lml[:nm]}, site="GpRegressor.marginal_likelihood_gradient")
        if c["lmlgc"]:
            wc = np.array([sval(v) for v in c["lmlgc"]])
            mc = max([SL.magnitude(v) for v in c["lmlgc"]] + [1.0])
            if not GE.close(g_lml[nm:], wc, mc):
                ck.violation("d LML / d covariance-parameter = 1/2 tr((alpha alpha' - K^-1) dK)", {**idn, "want": wc, "got": g_lml[nm:]},
                             site="GpRegressor.marginal_likelihood_gradient")
        if c["loogm"]:
            wm2 = np.array([G.fr(v) for v in c["loogm"]])
            if not GE.close(g_loo[:nm], wm2, float(np.max(np.abs(wm2), initial=1.0))):
                ck.violation("d LOO / d mean-parameter", {**idn, "want": wm2, "got": g_loo[:nm]}, site="GpRegressor.loo_likelihood_gradient")
        if c["loogc"]:
            wc2 = np.array([sval(v) for v in c["loogc"]])
            mc2 = max([SL.magnitude(v) for v in c["loogc"]] + [1.0])
            if not GE.close(g_loo[nm:], wc2, mc2):
                ck.violation("d LOO / d covariance-parameter (Rasmussen & Williams 5.13)", {**idn, "want": wc2, "got": g_loo[nm:]},
                             site="GpRegressor.loo_likelihood_gradient")
        if len(ck.samples) < 3 and c["loogc"]:
            ck.sample({**idn, "spec_lml": want_lml, "spec_loo": want_loo, "spec_lml_gradient": list(wm) + [sval(v) for v in c["lmlgc"]]})
    ck.traces += len(probs)


def selection_part(ck, tier):
    from inference.gp import GpRegressor, SquaredExponential, RationalQuadratic
    from inference.gp.mean import ConstantMean, LinearMean
    rng = np.random.default_rng(seed() + 10)
    events, idents = [], []
    ncase = 6 if tier == "quick" else 40
    for case in range(ncase):
        n = int(rng.integers(5, 12))
        d = 1 + case % 2
        x = rng.uniform(-2, 2, size=(n, d))
        y = np.sin(x[:, 0]) * rng.uniform(0.5, 3) + 0.1 * rng.normal(size=n) + (x[:, -1] if d > 1 else 0)
        yerr = np.full(n, 0.1)
        # "bfgs1": the multi-start optimiser restricted to ONE start, which by its definition is the centre of the bounds box
        for opt in ("bfgs", "bfgs1", "diffev") if case % 3 == 0 else ("bfgs", "bfgs1"):
            for cv in (False, True):
                kern = SquaredExponential if case % 2 == 0 else RationalQuadratic
                mean = ConstantMean if case % 4 < 2 else LinearMean
                # bounds given by the user for the covariance function only, for the mean function only, or for neither
                user = (None, "kernel", "mean")[case % 3]
                nk = (1 + d) if kern is SquaredExponential else (2 + d)
                nm = 1 if mean is ConstantMean else 1 + d
                ub_k = [(-1.0, 2.0)] + ([(-0.5, 1.5)] if kern is RationalQuadratic else []) + [(-2.0, 1.0)] * d
                ub_m = [(-4.0, 4.0)] * nm
                kern_arg = kern(hyperpar_bounds=ub_k) if user == "kernel" else kern
                mean_arg = mean(hyperpar_bounds=ub_m) if user == "mean" else mean
                np.random.seed(int(rng.integers(0, 2 ** 31)))
                try:
                    with warnings.catch_warnings(), np.errstate(all="ignore"):
                        warnings.simplefilter("ignore")
                        gp = GpRegressor(x=x if d > 1 else x[:, 0], y=y, y_err=yerr * (0.1 if opt == "bfgs1" else 1.0), kernel=kern_arg, mean=mean_arg,
                                         cross_val=cv, optimizer="bfgs" if opt == "bfgs1" else opt, **({"n_starts": 1} if opt == "bfgs1" else {}))
                        hp = np.asarray(gp.hyperpars, dtype=float)
                        b = np.array(gp.hp_bounds, dtype=float)
                        centre = 0.5 * (b[:, 0] + b[:, 1])
                        s_res, s_cen = float(gp.model_selector(hp)), float(gp.model_selector(centre))
                        # the criterion the optimiser is given: its value-and-gradient form returns the chosen criterion's value and gradient
                        want_fn = gp.loo_likelihood if cv else gp.marginal_likelihood
                        probe = centre + 0.1 * width_ if (width_ := b[:, 1] - b[:, 0]) is not None else centre
                        v_sel, g_sel = gp.model_selector_gradient(probe)
                        v_own = float(want_fn(probe))
                        g_own = np.asarray((gp.loo_likelihood_gradient if cv else gp.marginal_likelihood_gradient)(probe)[1], dtype=float)
                        wired = bool(abs(float(v_sel) - v_own) <= 1e-9 * max(1.0, abs(v_own)) and float(gp.model_selector(probe)) == v_own
                                     and np.array_equal(np.asarray(g_sel, dtype=float), g_own))
                except Exception as ex:
                    ck.violation("automatic hyper-parameter selection raised", {"case": case, "optimizer": opt, "cross_val": cv, "error": repr(ex)[:300]},
                                 site="GpRegressor.select")
                    continue
                width = b[:, 1] - b[:, 0]
                inb = bool(np.all(hp >= b[:, 0] - 1e-9 * width) and np.all(hp <= b[:, 1] + 1e-9 * width))
                # bounds the user gave are the advertised ones (mean parameters come first)
                if user == "kernel":
                    inb = inb and b.shape[0] == nm + nk and bool(np.allclose(b[nm:], np.array(ub_k)))
                elif user == "mean":
                    inb = inb and b.shape[0] == nm + nk and bool(np.allclose(b[:nm], np.array(ub_m)))
                better = bool(s_res >= s_cen - 1e-9 * max(1.0, abs(s_cen)))
                if not wired:
                    ck.violation("the selection criterion handed to the optimiser (value, and value-and-gradient form) is the requested one: "
                                 + ("leave-one-out score" if cv else "marginal likelihood"),
                                 {"case": case, "cross_val": cv, "optimizer": opt, "criterion_value": v_own, "value_from_gradient_form": float(v_sel),
                                  "gradient_from_gradient_form": np.asarray(g_sel, dtype=float), "gradient_of_the_criterion": g_own},
                                 site="GpRegressor.model_selector")
                events.append({"opt": "bfgs" if opt == "bfgs1" else opt, "cv": cv, "inbounds": inb, "better": better})
                idents.append({"case": case, "n": n, "d": d, "optimizer": opt, "cross_val": cv, "kernel": kern.__name__, "mean": mean.__name__, "bounds_given_by_user_for": user,
                               "hyperpars": hp.tolist(), "bounds": b.tolist(), "score": s_res, "score_at_centre": s_cen})
                ck.case(("select", case, opt, cv))
    # noise-free data (no errors given): the optimiser often stops at the good optimum with a warning flag; the selection still scores at least
    # as well as the centre of the box, which is one of the starting points
    xn = np.linspace(0, 10, 25)
    for sd_ in range(8 if tier == "quick" else 24):
        for cv in (False, True):
            np.random.seed(sd_)
            try:
                with warnings.catch_warnings(), np.errstate(all="ignore"):
                    warnings.simplefilter("ignore")
                    gp = GpRegressor(xn, np.sin(xn), cross_val=cv, optimizer="bfgs", n_starts=6)
                    hp = np.asarray(gp.hyperpars, dtype=float)
                    b = np.array(gp.hp_bounds, dtype=float)
                    s_res, s_cen = float(gp.model_selector(hp)), float(gp.model_selector(0.5 * (b[:, 0] + b[:, 1])))
            except Exception as ex:
                ck.violation("automatic hyper-parameter selection raised", {"data": "sin(x) without errors", "seed": sd_, "cross_val": cv, "error": repr(ex)[:300]},
                             site="GpRegressor.select")
                continue
            width = b[:, 1] - b[:, 0]
            events.append({"opt": "bfgs", "cv": cv, "inbounds": bool(np.all(hp >= b[:, 0] - 1e-9 * width) and np.all(hp <= b[:, 1] + 1e-9 * width)),
                           "better": bool(s_res >= s_cen - 1e-9 * max(1.0, abs(s_cen)))})
            idents.append({"case": "noise-free sin(x), 25 points", "numpy_seed": sd_, "optimizer": "bfgs", "cross_val": cv, "hyperpars": hp.tolist(), "bounds": b.tolist(),
                           "score": s_res, "score_at_centre": s_cen})
            ck.case(("select-noise-free", sd_, cv))
    # the multi-start optimiser on several processes: the centre of the bounds box is among the starting points handed to the workers
    import inference.gp.regression as _reg

    class _SerialPool:
        seen = []

        def __init__(self, n):
            self.n = n

        def map(self, fn, items):
            items = list(items)
            _SerialPool.seen.append([np.array(v, dtype=float) for v in items])
            return [fn(v) for v in items]

        def imap(self, fn, items, chunksize=1):
            return iter(self.map(fn, items))

        imap_unordered = imap

        def starmap(self, fn, items):
            items = [tuple(v) for v in items]
            _SerialPool.seen.append([np.array(v[0], dtype=float) for v in items])
            return [fn(*v) for v in items]

        def close(self):
            pass

        def join(self):
            pass

        def terminate(self):
            pass

        def __enter__(self):
            return self

        def __exit__(self, *a):
            return False
    real_pool = _reg.Pool
    try:
        _reg.Pool = _SerialPool
        for n_starts, n_proc in ((3, 2), (5, 2), (4, 3)):
            _SerialPool.seen.clear()
            ck.case(("select-pool", n_starts, n_proc))
            x = np.linspace(-2, 2, 7)
            y = np.sin(x) + 0.05 * np.cos(5 * x)
            np.random.seed(77 + n_starts)
            with warnings.catch_warnings(), np.errstate(all="ignore"):
                warnings.simplefilter("ignore")
                gp = GpRegressor(x=x, y=y, y_err=np.full(7, 0.05), kernel=SquaredExponential, mean=ConstantMean, optimizer="bfgs", n_starts=n_starts,
                                 n_processes=n_proc)
            b = np.array(gp.hp_bounds, dtype=float)
            centre = 0.5 * (b[:, 0] + b[:, 1])
            starts = _SerialPool.seen[-1] if _SerialPool.seen else []
            if len(starts) != n_starts or not any(np.allclose(v, centre, rtol=0, atol=1e-12) for v in starts):
                ck.violation("multi-start optimiser on several processes: every requested start is run and the centre of the bounds box is one of them",
                             {"n_starts": n_starts, "n_processes": n_proc, "starts_handed_to_the_workers": len(starts),
                              "centre_among_them": bool(any(np.allclose(v, centre, rtol=0, atol=1e-12) for v in starts))}, site="GpRegressor.multistart_bfgs")
    except Exception as ex:
        ck.violation("automatic hyper-parameter selection raised (several processes)", {"error": repr(ex)[:300]}, site="GpRegressor.select")
    finally:
        _reg.Pool = real_pool
    d_ = scratch("c11_")
    path = os.path.join(d_, "trace.ndjson")
    with open(path, "w") as fh:
        for e in events:
            fh.write(json.dumps(e) + "\n")
    rt = run_tlc("SelectTrace", workers=1, env={"TRACE_FILE": path}, timeout=300)
    if rt.error or rt.violated or any("REJECTED" in x for x in rt.raw_printed):
        raise MachineryError("SelectTrace: %s %s" % (rt.error, rt.violated))
    ck.tlc(rt, "selection_traces")
    import re
    bad = sorted({int(m.group(1)) - 1 for x in rt.raw_printed for m in [re.match(r'<<"BAD", (\d+)>>', x)] if m})
    for i in bad:
        ck.violation("Select: chosen hyper-parameters lie within the advertised bounds and (multi-start optimiser) score at least as well as the centre",
                     idents[i], site="GpRegressor.select")
    ck.traces += len(events)
    rs = run_tlc("MC_Select", timeout=300)
    if rs.violated:
        ck.violation("spec: Select", {"violated": rs.violated}, site="spec")
    if rs.error:
        raise MachineryError("MC_Select: " + rs.error)
    ck.tlc(rs, "selection_model")


def run(tier):
    ck = Check("C11", tier)
    ck.rule = "one case per TLC-enumerated GP problem (scores, predictions, gradients) and per (random data set, optimiser, criterion) selection run"
    ck.assumptions = ["exact gradient tables only where they fit 32-bit rationals (covariance gradients for <= 2 data points; LOO covariance gradient for unit-spaced pairs)",
                      "global optimality of the selected hyper-parameters is not claimed by the property"]
    GE.install_atoms()
    scores_part(ck, tier)
    selection_part(ck, tier)
    return ck.finish()
