SPECIFICATION Spec
CONSTANTS Points <- MCPoints
  Score <- MCScore
  NStarts = 3
INVARIANT InBounds
INVARIANT AtLeastCentre
CHECK_DEADLOCK FALSE
