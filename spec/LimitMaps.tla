---------------------------- MODULE LimitMaps ----------------------------
(***************************************************************************)
(* C04 -- parameter limits.                                                *)
(*                                                                         *)
(* Positions are integers in lattice units (the harness scales them by a   *)
(* power of two and an offset, so "any magnitude" is sampled while every   *)
(* float operation stays exact).                                           *)
(*                                                                         *)
(* Part 1: the pure maps (Reflect / momentum parity / Fold) and the laws   *)
(*         C04 demands of them.                                            *)
(* Part 2: the per-parameter limit state machine of the Gibbs-type chains  *)
(*         (set_boundaries / remove / set_non_negative in any order) as    *)
(*         DESIRED behaviour: the limits in force are the intersection of  *)
(*         every limit that was set and not removed.                       *)
(***************************************************************************)
EXTENDS Integers, Sequences, FiniteSets, TLC

\* ------------------------------------------------------------------ part 1: maps
Reflect(lo, hi, t) ==                       \* modular reflection into [lo, hi]
    LET w == hi - lo  d == t - lo  q == d \div w  r == d % w
    IN IF q % 2 = 0 THEN lo + r ELSE hi - r
Flips(lo, hi, t) == LET w == hi - lo IN ((t - lo) \div w) % 2     \* parity of the number of folds
ReflectSign(lo, hi, t) == IF Flips(lo, hi, t) = 0 THEN 1 ELSE -1
Fold(t) == IF t < 0 THEN -t ELSE t           \* non-negative switch

\* number of wall crossings of the straight path from an inside point to t (unfolded picture)
Crossings(lo, hi, t) == LET w == hi - lo  d == t - lo IN IF d >= 0 THEN d \div w ELSE (-(d \div w))

MapLaws(lo, hi, R) ==
    \A t \in (lo - R)..(hi + R) :
       /\ Reflect(lo, hi, t) \in lo..hi                               \* never outside
       /\ (t \in lo..hi => Reflect(lo, hi, t) = t)                    \* identity inside
       /\ Reflect(lo, hi, 2*lo - t) = Reflect(lo, hi, t)              \* mirror at lo
       /\ Reflect(lo, hi, 2*hi - t) = Reflect(lo, hi, t)              \* mirror at hi
       /\ Reflect(lo, hi, t + 2*(hi - lo)) = Reflect(lo, hi, t)       \* period 2W
       /\ ((t - lo) % (hi - lo) # 0 =>                                \* off the walls: sign = (-1)^crossings
              ReflectSign(lo, hi, t) = (IF Crossings(lo, hi, t) % 2 = 0 THEN 1 ELSE -1))
       /\ ((t - lo) % (hi - lo) # 0 => ReflectSign(lo, hi, 2*hi - t) = -ReflectSign(lo, hi, t))

\* Laws for an OBSERVED map given as a function tab : lo-R..hi+R -> Int  (section 2f: the property is the oracle).
\* allowedLo/allowedHi: closed allowed region; NoLim stands for an absent end.
NoLim == 1000000
ObservedFoldLaws(tab, aLo, aHi, dom) ==
    \A t \in dom :
       /\ (aLo # NoLim => tab[t] >= aLo) /\ (aHi # NoLim => tab[t] <= aHi)
       /\ (((aLo = NoLim \/ t >= aLo) /\ (aHi = NoLim \/ t <= aHi)) => tab[t] = t)
       /\ (aLo # NoLim /\ (2*aLo - t) \in dom => tab[2*aLo - t] = tab[t])
       /\ (aHi # NoLim /\ (2*aHi - t) \in dom => tab[2*aHi - t] = tab[t])
=============================================================================
