------------------------------ MODULE Leapfrog ------------------------------
(* C07 -- run_leapfrog as a state machine over the exact operators of LeapfrogOps.tla.                    *)
EXTENDS LeapfrogOps
\* ---------------------------------------------------------------- the integrator as a state machine
\* One action per sub-step of run_leapfrog, applied to a bundle of phase points (the base orbit and, for the
\* 1-D unbounded configurations, two neighbours offset by one unit in t and in r: their differences are the
\* columns of the Jacobian).  A behaviour integrates ns steps forward (pass 1), flips the momentum, integrates
\* ns steps again (pass 2): reversibility is the statement that it ends where it started.
CONSTANTS LConfigs, LZSet, LNSet
VARIABLES lc, orb, pc, k, pass, t0, r0, z0, ns, pts, ok
lfvars == <<lc, orb, pc, k, pass, t0, r0, z0, ns, pts, ok>>
Diagonal(c) == \A i, j \in 1..c.n : i # j => c.minv[i][j] = 0
Bundle(c, t, r) == IF c.n = 1 /\ ~c.box THEN << [t |-> t, r |-> r], [t |-> <<t[1] + D>>, r |-> r], [t |-> t, r |-> <<r[1] + D>>] >>
                   ELSE << [t |-> t, r |-> r] >>
LFInit == /\ lc \in LConfigs /\ ns \in LNSet
          /\ z0 \in (IF lc.n = 1 THEN {<<a>> : a \in LZSet} ELSE LZSet \X LZSet)
          /\ \E s \in lc.starts : t0 = [i \in 1..lc.n |-> s[i] * D]
          /\ r0 = Momentum(lc, z0).r /\ ok = Momentum(lc, z0).ok
          /\ orb = Bundle(lc, t0, r0) /\ pc = "half1" /\ k = ns /\ pass = 1 /\ pts = <<t0>>
Map(f(_)) == [i \in 1..Len(orb) |-> f(orb[i])]
StepHalf == /\ pc \in {"half1", "half2"} /\ ok
            /\ orb' = Map(LAMBDA o : [t |-> o.t, r |-> HalfKick(lc, o.t, o.r).r])
            /\ ok' = \A i \in 1..Len(orb) : HalfKick(lc, orb[i].t, orb[i].r).ok      \* exactness of every orbit of the bundle
            /\ pc' = (IF pc = "half1" THEN "drift" ELSE IF pass = 1 THEN "flip" ELSE "end")
            /\ UNCHANGED <<lc, k, pass, t0, r0, z0, ns, pts>>
StepDrift == /\ pc = "drift" /\ ok
             /\ orb' = Map(LAMBDA o : LET d == Drift(lc, o.t, o.r) IN [t |-> d.t, r |-> [i \in 1..lc.n |-> o.r[i] * d.sg[i]]])
             /\ ok' = \A i \in 1..Len(orb) : Drift(lc, orb[i].t, orb[i].r).ok
             /\ pts' = (IF pass = 1 THEN Append(pts, orb'[1].t) ELSE pts)
             /\ k' = k - 1 /\ pc' = (IF k = 1 THEN "half2" ELSE "kick")
             /\ UNCHANGED <<lc, pass, t0, r0, z0, ns>>
StepKick == /\ pc = "kick" /\ ok
            /\ orb' = Map(LAMBDA o : [t |-> o.t, r |-> Kick(lc, o.t, o.r).r])
            /\ ok' = \A i \in 1..Len(orb) : Kick(lc, orb[i].t, orb[i].r).ok
            /\ pc' = "drift" /\ UNCHANGED <<lc, k, pass, t0, r0, z0, ns, pts>>
StepFlip == /\ pc = "flip" /\ ok
            /\ orb' = Map(LAMBDA o : [t |-> o.t, r |-> Neg(o.r)])
            /\ pc' = "half1" /\ pass' = 2 /\ k' = ns /\ UNCHANGED <<lc, t0, r0, z0, ns, pts, ok>>
LFNext == StepHalf \/ StepDrift \/ StepKick \/ StepFlip
LFSpec == LFInit /\ [][LFNext]_lfvars

\* reversibility (the class box + non-diagonal inverse mass is excluded here: see RevMatrixBox)
RevSM == (pc = "end" /\ ok /\ ~OnWall(lc, t0) /\ ~(lc.box /\ ~Diagonal(lc))) => (orb[1].t = t0 /\ Neg(orb[1].r) = r0)
\* as built, a wall flips the momentum COMPONENT; with a non-diagonal inverse mass this does not reverse the velocity
\* component and the map is not time-reversible -- TLC exhibits the counterexample (known finding F24)
RevMatrixBox == (pc = "end" /\ ok /\ ~OnWall(lc, t0) /\ lc.box /\ ~Diagonal(lc)) => (orb[1].t = t0 /\ Neg(orb[1].r) = r0)
\* volume preservation (1-D, unbounded): Jacobian determinant of the n-step map is 1
VolSM == (pc = "flip" /\ ok /\ Len(orb) = 3) =>
            (orb[2].t[1] - orb[1].t[1]) * (orb[3].r[1] - orb[1].r[1]) - (orb[3].t[1] - orb[1].t[1]) * (orb[2].r[1] - orb[1].r[1]) = D * D
\* exact shadow-energy conservation = second-order energy accuracy (1-D, unbounded, b = 0)
ShadowSM == (pc = "flip" /\ ok /\ lc.n = 1 /\ ~lc.box /\ lc.b[1] = 0) => ShadowNum(lc, orb[1].t, orb[1].r) = ShadowNum(lc, t0, r0)
\* every point handed to the gradient is inside the box (C04)
InsideSM == lc.box => \A j \in 1..Len(pts) : \A i \in 1..lc.n : pts[j][i] >= lc.blo * D /\ pts[j][i] <= lc.bhi * D
\* momenta law = kinetic-energy law
MassSM == lc.mc => MassConsistent(lc)
AtForwardEnd == pc = "flip" /\ ok
=============================================================================
