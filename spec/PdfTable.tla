---- MODULE PdfTable ----
(* C19 (both estimators), code -> spec.

   The observable state of a fitted density estimator is its density p and cumulative function F on a grid.  The harness
   tabulates the REAL estimator on N+1 equally spaced points x_0 .. x_N of its own integration range [lwr_limit, upr_limit]
   (one call of __call__ and one call of cdf on the points in shuffled order), asks it for intervals and moments, and records
   integers in units of U = 2^20 of probability:

     P[i]   = p(x_i) * dx * U          (the mass of a cell of width dx at density p(x_i))
     F[i]   = cdf(x_i) * U
     Fs[j]  = <<i, cdf(x_i) * U>> from calls with one point at a time (every 16th grid point)
     out    = probability of the estimated density outside the range (independent adaptive quadrature of __call__), * U
     pm     = p(mode) * dx * U
     iv[j]  = [f*U, cdf(a)*U, cdf(b)*U, p(a)*dx*U, p(b)*dx*U]     for (a, b) = interval(f)
     mo     = reported moments and the same moments integrated from __call__ itself, each in units of 2^-12 of the
              sample's own scale (mean as an offset from the sample mean), over the range (r) and over the whole line (w)

   This module says what such a table must satisfy, clause by clause, and names the failing clause. *)
EXTENDS Integers, Sequences, TLC, TLCExt, Json, IOUtils
U == 1048576
Log == ndJsonDeserialize(IOEnv.TRACE_FILE)
VARIABLES l
Ev == Log[l]
Abs(x) == IF x < 0 THEN -x ELSE x
Max2(a, b) == IF a > b THEN a ELSE b
N == Len(Ev.P) - 1
\* ---- the discrete definitions ------------------------------------------------------------------------------------------
Trap(i) == (Ev.P[i] + Ev.P[i + 1]) \div 2                       \* mass of cell i..i+1 by the trapezium rule
RECURSIVE CumTrap(_)
CumTrap(i) == IF i = 1 THEN 0 ELSE CumTrap(i - 1) + Trap(i - 1)  \* integral of the tabulated density from x_0 to x_(i-1)
RECURSIVE MaxP(_)
MaxP(i) == IF i = 0 THEN 0 ELSE Max2(Ev.P[i], MaxP(i - 1))
\* ---- the clauses of the property ---------------------------------------------------------------------------------------
NonNegative == \A i \in 1..(N + 1) : Ev.P[i] >= 0
CdfMonotone == \A i \in 1..N : Ev.F[i + 1] >= Ev.F[i] - 1
CdfRange == Ev.F[1] >= -1 /\ Ev.F[1] <= U \div 1000 /\ Ev.F[N + 1] <= U + U \div 500
\* the cumulative function is the integral of the density: cell by cell (2 % of the cell + 16 units: trapezium error of a smooth or
\* cusped unimodal curve on 256 cells) and cumulatively (1.5e-3 of the total)
\* (cell by cell only for densities that are smooth on the scale of a cell: Ev.smooth)
CdfIsIntegralCell == Ev.smooth => \A i \in 1..N : Abs((Ev.F[i + 1] - Ev.F[i]) - Trap(i)) <= 16 + Trap(i) \div 50
Stride == IF N <= 256 THEN 8 ELSE N \div 32             \* (33 check points: the running integral is recomputed for each)
CdfIsIntegralCum == \A i \in {j \in 1..(N + 1) : j % Stride = 1} : Abs((Ev.F[i] - Ev.F[1]) - CumTrap(i)) <= (3 * U) \div 2000
\* the cumulative function is a function of the point: evaluated one point at a time (Fs = pairs <<index, value>>) it gives what the
\* array call gave
CdfPointwise == \A j \in 1..Len(Ev.Fs) : Abs(Ev.Fs[j][2] - Ev.F[Ev.Fs[j][1]]) <= 2 + U \div 100000
\* the density integrates to one: inside the range (its own table) plus what lies outside
Normalised == Abs(CumTrap(N + 1) + Ev.out - U) <= U \div 500
\* the mode is a point of maximal density (table resolution: 1e-3 of the peak + 2 units)
\* (Ev.mtol, parts per million of the peak: 1000 for the kernel estimator, whose mode is searched numerically; 4 for the unimodal model,
\* whose mode is a parameter of the fitted curve)
\* Ev.Pl: the densities one standard deviation either side of the mode in 512 steps, relative to the density at the mode (2^26 = equal)
ModeMaximal == /\ Ev.pm + 2 + (Ev.pm * Ev.mtol) \div 1000000 >= MaxP(N + 1)
               /\ \A i \in 1..Len(Ev.Pl) : Ev.Pl[i] <= 67108864 + 67 * Ev.mtol + 2
\* interval(f): probability f under the estimator's own cumulative function, equal density at both ends
IntervalMass(j) == Abs((Ev.iv[j][3] - Ev.iv[j][2]) - Ev.iv[j][1]) <= U \div 500
IntervalEnds(j) == Abs(Ev.iv[j][4] - Ev.iv[j][5]) <= Ev.pm \div 100 + 2
IntervalOrdered(j) == Ev.iv[j][2] <= Ev.iv[j][3]
\* the reported moments are those of the estimated density itself -- judged only when the density carries negligible probability
\* outside the estimator's own range (the property's proviso: 2e-4), and against the integral over the range AND over the whole
\* line (the reported value may be either: the property does not say which)
Proviso == Ev.out <= U \div 5000
Near(rep, a, b, tol) == Abs(rep - a) <= tol \/ Abs(rep - b) <= tol \/ (a <= rep /\ rep <= b) \/ (b <= rep /\ rep <= a)
MomentsOfDensity == Proviso =>
                    /\ Near(Ev.mo.mean, Ev.mo.mean_r, Ev.mo.mean_w, 20)        \* 5e-3 of the scale (units of 2^-12)
                    /\ Near(Ev.mo.var, Ev.mo.var_r, Ev.mo.var_w, 41 + Ev.mo.var_w \div 100)   \* 1e-2 relative
                    /\ Near(Ev.mo.skew, Ev.mo.skew_r, Ev.mo.skew_w, 82)        \* 2e-2
                    /\ Near(Ev.mo.kurt, Ev.mo.kurt_r, Ev.mo.kurt_w, 205)       \* 5e-2
Clauses == << <<"non-negative density", NonNegative>>, <<"cdf non-decreasing", CdfMonotone>>, <<"cdf rises from 0 to 1", CdfRange>>,
              <<"cdf is the integral of the density (cell)", CdfIsIntegralCell>>,
              <<"cdf is the integral of the density (cumulative)", CdfIsIntegralCum>>,
              <<"cdf of a single point equals the array call", CdfPointwise>>,
              <<"integer-typed evaluation points give the values of the equal floats", Ev.int_ok>>,
              <<"density integrates to one", Normalised>>, <<"mode is a point of maximal density", ModeMaximal>>,
              <<"interval(f) contains probability f", \A j \in 1..Len(Ev.iv) : IntervalMass(j) /\ IntervalOrdered(j)>>,
              <<"interval(f) has equal density at its two ends", \A j \in 1..Len(Ev.iv) : IntervalEnds(j)>>,
              <<"moments are those of the estimated density", MomentsOfDensity>> >>
Failing == {c \in 1..Len(Clauses) : ~Clauses[c][2]}
Judge == IF Failing = {} THEN TRUE ELSE PrintT(ToJson([bad |-> l, clauses |-> {Clauses[c][1] : c \in Failing}]))
TraceInit == TLCSet(1, 1) /\ l = 1
TraceNext == l <= Len(Log) /\ l' = l + 1 /\ Judge
TraceSpec == TraceInit /\ [][TraceNext]_l
Progress == TLCSet(1, IF l > TLCGet(1) THEN l ELSE TLCGet(1))
TraceAccepted == IF TLCGet(1) = Len(Log) + 1 THEN TRUE ELSE PrintT(<<"REJECTED at line", TLCGet(1)>>) /\ FALSE
====
