"""C17 -- GP linear inversion returns the exact linear-Gaussian posterior.

MC   : InvertExact.tla -- Sigma = K - K A'(A K A' + S)^-1 A K, mu = m + K A'(A K A' + S)^-1 (y - A m), evidence and its gradient, in exact
       rationals on the KernelExact families, for under-, exactly- (incl. rank-deficient) and over-determined integer model matrices;
       TLC checks symmetry and, for two parameters, exact positive semi-definiteness of Sigma and of K - Sigma.
S->C : calculate_posterior, calculate_posterior_mean, marginal_likelihood, marginal_likelihood_gradient of the real GpLinearInverter.
"""
import numpy as np

from harness.core import Check, run_tlc, must_pass, seed
from harness import gpexact as GE
from harness import gpkit as G
from harness import symlin as SL


def square_part(ck):
    """as many parameters as spatial dimensions (a SQUARE, non-symmetric position array): posterior and evidence against the closed form computed
    with numpy from the library's own covariance of those positions"""
    from inference.gp import GpLinearInverter, SquaredExponential, RationalQuadratic
    from inference.gp.mean import ConstantMean
    rng = np.random.default_rng(seed() + 170)
    for p, kcls in ((2, SquaredExponential), (3, SquaredExponential), (2, RationalQuadratic), (4, SquaredExponential)):
        pos = rng.uniform(-2, 2, size=(p, p)) * np.array([1.0, 3.0, 0.5, 2.0][:p])          # unequal scales between dimensions
        A = rng.normal(size=(p + 1, p))
        y = rng.normal(size=p + 1)
        yerr = rng.uniform(0.2, 0.5, size=p + 1)
        ck.case(("square", p, kcls.__name__))
        try:
            inv = GpLinearInverter(y=y, y_err=yerr, model_matrix=A, parameter_spatial_positions=pos.copy(), prior_covariance_function=kcls,
                                   prior_mean_function=ConstantMean)
            ref = kcls()
            ref.pass_spatial_data(pos.copy())
            nk = ref.n_params
            cth = np.concatenate([[0.3], [-0.2] * (nk - 1 - p), np.log(np.array([0.8, 2.1, 0.6, 1.7][:p]))]) if nk >= 1 + p else np.full(nk, 0.1)
            th = np.concatenate([[0.4], cth])
            K = np.asarray(ref.build_covariance(cth), dtype=float)
            m = np.full(p, 0.4)
            S = np.diag(yerr ** 2)
            J = A @ K @ A.T + S
            want_mu = m + K @ A.T @ np.linalg.solve(J, y - A @ m)
            want_S = K - K @ A.T @ np.linalg.solve(J, A @ K)
            mu, Sig = inv.calculate_posterior(th)
            mu2 = inv.calculate_posterior_mean(th)
        except Exception as ex:
            ck.violation("GpLinearInverter raised on a valid problem", {"positions": pos, "error": repr(ex)[:300]}, site="GpLinearInverter")
            continue
        if not (np.allclose(mu, want_mu, rtol=1e-8, atol=1e-8) and np.allclose(mu2, want_mu, rtol=1e-8, atol=1e-8) and np.allclose(Sig, want_S, rtol=1e-8, atol=1e-8)):
            ck.violation("posterior = closed-form linear-Gaussian posterior (as many parameters as spatial dimensions, positions not symmetric)",
                         {"positions": pos, "kernel": kcls.__name__, "want_mean": want_mu, "got_mean": np.asarray(mu), "mean_only": np.asarray(mu2)},
                         site="GpLinearInverter.calculate_posterior:square-positions")


def run(tier):
    from inference.gp import GpLinearInverter
    ck = Check("C17", tier)
    ck.rule = "one case per TLC-enumerated inversion problem (positions, model matrix, errors, kernel, mean)"
    ck.assumptions = ["rational kernel families; integer model matrices; dyadic data errors; tolerance 1e-9 of the prior scale"]
    GE.install_atoms()
    r = run_tlc("MC_InvertExact", cfg_text="INIT Init\nNEXT Next\nCONSTANT Deep = %s\nINVARIANT Symmetric\nINVARIANT PsdSmall\nCHECK_DEADLOCK FALSE\n" % ("TRUE" if tier == "thorough" else "FALSE"), timeout=1800)
    if r.violated:
        ck.violation("spec: InvertExact " + ",".join(r.violated), {"violated": r.violated}, site="spec")
    must_pass(r, "MC_InvertExact")
    ck.tlc(r, "inversion_reference")
    big_done = 0
    prev_default = None
    for c in r.printed:
        pb = c["pb"]
        pos = np.array(pb["pos"], dtype=float)
        p, d = pos.shape
        A = np.array(pb["A"], dtype=float)
        y = np.array(pb["y"], dtype=float)
        yerr = np.sqrt(np.array([G.fr(v) for v in pb["s2"]]))
        idn = {"positions": pb["pos"], "A": pb["A"], "y": pb["y"], "y_err": yerr.tolist(), "kernel": pb["kern"], "mean": pb["mean"]}
        ck.case(str(idn))
        try:
            cov, cth = G.build_kernel(pb["kern"], d, p)
            mean, mth = G.build_mean(pb["mean"])
            inv = GpLinearInverter(y=y, y_err=yerr, model_matrix=A, parameter_spatial_positions=pos, prior_covariance_function=cov,
                                   prior_mean_function=mean)
            th = np.array(list(mth) + list(cth), dtype=float)
            mu, Sig = inv.calculate_posterior(th)
            mu2 = inv.calculate_posterior_mean(th)
            ev = float(inv.marginal_likelihood(th))
            ev2, g = inv.marginal_likelihood_gradient(th)
            # the same calls again, in another order: results must not depend on what was called before (no state carried over)
            mu2b = inv.calculate_posterior_mean(th)
            mu2c = inv.calculate_posterior_mean(th)
            mu_b, Sig_b = inv.calculate_posterior(th)
            ev_b = float(inv.marginal_likelihood(th))
            ev2_b, g_b = inv.marginal_likelihood_gradient(th)
            repeat_ok = (np.array_equal(mu2b, mu2) and np.array_equal(mu2c, mu2) and np.array_equal(mu_b, mu) and np.array_equal(Sig_b, Sig)
                         and ev_b == ev and float(ev2_b) == float(ev2) and np.array_equal(g_b, g))
        except Exception as ex:
            ck.violation("GpLinearInverter raised on a valid problem", {**idn, "error": repr(ex)[:300]}, site="GpLinearInverter")
            continue
        try:
            if np.all(pos == np.round(pos)):
                inv_i = GpLinearInverter(y=y.astype(int), y_err=yerr.copy(), model_matrix=A.astype(int), parameter_spatial_positions=pos.astype(int),
                                         prior_covariance_function=G.build_kernel(pb["kern"], d, p)[0], prior_mean_function=G.build_mean(pb["mean"])[0])
                mu_i, Sig_i = inv_i.calculate_posterior(th)
                ev_i = float(inv_i.marginal_likelihood(th))
                ck.case(str(idn) + "int")
                if not (np.allclose(mu_i, mu, rtol=1e-12, atol=1e-12) and np.allclose(Sig_i, Sig, rtol=1e-12, atol=1e-12) and abs(ev_i - ev) <= 1e-10 * max(1.0, abs(ev))):
                    ck.violation("integer-typed data / model matrix / positions give the same posterior and evidence as the equal float arrays",
                                 {**idn, "mean_float_inputs": mu, "mean_integer_inputs": mu_i}, site="GpLinearInverter:input-form")
        except Exception as ex:
            ck.violation("GpLinearInverter raised on integer-typed inputs", {**idn, "error": repr(ex)[:300]}, site="GpLinearInverter:input-form")
        try:
            # whole-number hyper-parameters as an integer array give what the equal float array gives; a float array modified in place
            # between calls gives the value at its current content
            ti = np.array(([0, -1, 0, 1, -1] * 3)[:len(th)], dtype=int)
            g_i = np.asarray(inv.marginal_likelihood_gradient(ti)[1], dtype=float)
            g_f = np.asarray(inv.marginal_likelihood_gradient(ti.astype(float))[1], dtype=float)
            mu_i, S_i = inv.calculate_posterior(ti)
            mu_f, S_f = inv.calculate_posterior(ti.astype(float))
            tm = th.copy()
            m_a = np.array(inv.calculate_posterior_mean(tm))
            tm += 0.25
            m_b, (m_b2, S_b2) = np.array(inv.calculate_posterior_mean(tm)), inv.calculate_posterior(tm)
            inv_new = GpLinearInverter(y=y, y_err=yerr, model_matrix=A, parameter_spatial_positions=pos,
                                       prior_covariance_function=G.build_kernel(pb["kern"], d, p)[0], prior_mean_function=G.build_mean(pb["mean"])[0])
            m_fresh, (m_fresh2, S_fresh2) = np.array(inv_new.calculate_posterior_mean(tm.copy())), inv_new.calculate_posterior(tm.copy())   # an inverter without history
            tm -= 0.25
            m_c = np.array(inv.calculate_posterior_mean(tm))
            # the full posterior at one hyper-parameter vector, then the mean-only path at a vector with the SAME covariance parameters and
            # other mean parameters: what an inverter without history returns
            t2 = th.copy()
            t2[:len(mth)] += 0.5
            inv.calculate_posterior(th.copy())
            m_mix = np.array(inv.calculate_posterior_mean(t2.copy()))
            inv_new2 = GpLinearInverter(y=y, y_err=yerr, model_matrix=A, parameter_spatial_positions=pos,
                                        prior_covariance_function=G.build_kernel(pb["kern"], d, p)[0], prior_mean_function=G.build_mean(pb["mean"])[0])
            m_mix_fresh = np.array(inv_new2.calculate_posterior_mean(t2.copy()))
            if len(mth) >= 2:
                for z in range(len(mth)):
                    tz = th.copy()
                    tz[z] = 0.0                                # one mean hyper-parameter exactly zero, the others not
                    mz_only = np.array(inv.calculate_posterior_mean(tz.copy()))
                    mz_full = np.array(inv.calculate_posterior(tz.copy())[0])
                    if not np.allclose(mz_only, mz_full, rtol=1e-10, atol=1e-10):
                        ck.violation("mean-only path = mean of the full path (a mean hyper-parameter exactly zero)",
                                     {**idn, "theta": tz, "mean_only": mz_only, "full": mz_full}, site="GpLinearInverter.calculate_posterior_mean:zero-parameter")
                        break
            if len(mth) and not np.allclose(m_mix, m_mix_fresh, rtol=1e-12, atol=1e-12):
                ck.violation("mean-only path after a full posterior at other mean hyper-parameters = the mean-only path of an inverter without history",
                             {**idn, "theta_first": th, "theta_second": t2, "got": m_mix, "fresh": m_mix_fresh}, site="GpLinearInverter:stale-state")
            ck.case(str(idn) + "forms")
            if not (np.array_equal(g_i, g_f) and np.array_equal(np.asarray(mu_i, dtype=float), np.asarray(mu_f, dtype=float)) and np.array_equal(S_i, S_f)):
                ck.violation("integer-typed hyper-parameters give the results of the equal float hyper-parameters",
                             {**idn, "gradient_float": g_f, "gradient_integer": g_i}, site="GpLinearInverter.marginal_likelihood_gradient:dtype")
            if not (np.array_equal(m_b, m_fresh) and np.array_equal(np.asarray(m_b2), np.asarray(m_fresh2)) and np.array_equal(S_b2, S_fresh2)
                    and np.allclose(m_c, m_a, rtol=1e-12, atol=1e-12)):
                ck.violation("results at the current content of a hyper-parameter array modified in place between calls",
                             {**idn, "after_change": m_b, "fresh_array": m_fresh, "first": m_a, "after_changing_back": m_c}, site="GpLinearInverter:stale-state")
        except Exception as ex:
            ck.violation("GpLinearInverter raised (integer-typed / re-used hyper-parameter array)", {**idn, "error": repr(ex)[:300]}, site="GpLinearInverter:input-form")
        if not repeat_ok:
            ck.violation("results do not depend on which methods were called before (repeated calls return the same values)",
                         {**idn, "first_mean_only": mu2, "second_mean_only": mu2b, "third_mean_only": mu2c}, site="GpLinearInverter:repeat")
        want_mu, want_S, prior = G.rvec(c["mean"]), G.rmat(c["cov"]), G.rmat(c["prior"])
        ys = float(np.max(np.abs(y)) + 2)
        if not (GE.close(mu, want_mu, ys) and GE.close(mu2, want_mu, ys)):
            ck.violation("posterior mean = m + K A'(A K A' + S)^-1 (y - A m); mean-only path agrees with the full path",
                         {**idn, "want": want_mu, "full": mu, "mean_only": mu2}, site="GpLinearInverter.calculate_posterior:mean")
        Sig = np.asarray(Sig, dtype=float)
        if not GE.close(Sig, want_S, float(np.max(np.abs(prior)))):
            ck.violation("posterior covariance = K - K A'(A K A' + S)^-1 A K", {**idn, "want": want_S, "got": Sig},
                         site="GpLinearInverter.calculate_posterior:covariance")
        else:
            sc = float(np.max(np.abs(prior)))
            sym = 0.5 * (Sig + Sig.T)
            if not np.allclose(Sig, Sig.T, atol=1e-9 * sc) or np.min(np.linalg.eigvalsh(sym)) < -1e-9 * sc \
                    or np.min(np.linalg.eigvalsh(prior - sym)) < -1e-9 * sc:
                ck.violation("posterior covariance symmetric positive-semidefinite and no larger than the prior", {**idn, "got": Sig},
                             site="GpLinearInverter.calculate_posterior:covariance")
        want_ev = SL.value(c["evidence"])
        mag = SL.magnitude(c["evidence"])
        if not (SL.close(ev, want_ev, mag) and SL.close(float(ev2), want_ev, mag)):
            ck.violation("evidence = log N(y; A m, A K A' + S) up to the fixed constant", {**idn, "want": want_ev, "marginal_likelihood": ev,
                                                                                             "from_gradient_variant": float(ev2)},
                         site="GpLinearInverter.marginal_likelihood")
        # a large problem: Rep copies of this one, 1e5 apart (squared-exponential prior, constant mean: the copies are independent),
        # so hundreds of data points and parameters; the evidence is Rep times that of one copy
        if pb["kern"]["k"] == "se" and len(pb["mean"]["th"]) <= 1 and big_done < (6 if tier == "quick" else 40):
            big_done += 1
            R = int(c["rep"])
            try:
                posR = np.concatenate([pos + np.array([1e5 * b] + [0.0] * (d - 1)) for b in range(R)])
                AR = np.kron(np.eye(R), A)
                covR, _ = G.build_kernel(pb["kern"], d, p * R)
                meanR, _ = G.build_mean(pb["mean"])
                invR = GpLinearInverter(y=np.tile(y, R), y_err=np.tile(yerr, R), model_matrix=AR, parameter_spatial_positions=posR,
                                        prior_covariance_function=covR, prior_mean_function=meanR)
                sc2 = 2.0 ** int(c["scale_log2"])
                thS = th.copy()
                thS[:len(mth)] *= sc2                                      # prior mean (constant)
                thS[len(mth)] += np.log(sc2)                               # log-amplitude of the squared exponential
                invS = GpLinearInverter(y=np.tile(y, R) * sc2, y_err=np.tile(yerr, R) * sc2, model_matrix=AR, parameter_spatial_positions=posR,
                                        prior_covariance_function=G.build_kernel(pb["kern"], d, p * R)[0],
                                        prior_mean_function=G.build_mean(pb["mean"])[0])
                with np.errstate(all="ignore"):
                    evR = float(invR.marginal_likelihood(th))
                    evR2 = float(invR.marginal_likelihood_gradient(th)[0])
                    evS = float(invS.marginal_likelihood(thS))
                    evS2 = float(invS.marginal_likelihood_gradient(thS)[0])
            except Exception as ex:
                ck.violation("GpLinearInverter raised on a valid (large, block-diagonal) problem", {**idn, "copies": R, "error": repr(ex)[:300]},
                             site="GpLinearInverter")
            else:
                wantR = SL.value(c["evidence_rep"])
                magR = SL.magnitude(c["evidence_rep"])
                ck.case(str(idn) + "rep")
                if not (SL.close(evR, wantR, magR) and SL.close(evR2, wantR, magR)):
                    ck.violation("evidence = log N(y; A m, A K A' + S) up to the fixed constant",
                                 {**idn, "copies_1e5_apart": R, "data_points": int(len(y) * R), "want": wantR, "marginal_likelihood": evR,
                                  "from_gradient_variant": evR2}, site="GpLinearInverter.marginal_likelihood:large")
                wantS = SL.value(c["evidence_rep_scaled"])
                if not (SL.close(evS, wantS, abs(wantS) + magR) and SL.close(evS2, wantS, abs(wantS) + magR)):
                    ck.violation("evidence = log N(y; A m, A K A' + S) up to the fixed constant",
                                 {**idn, "copies_1e5_apart": R, "data_points": int(len(y) * R), "all_data_and_prior_scaled_by": sc2, "want": wantS,
                                  "marginal_likelihood": evS, "from_gradient_variant": evS2}, site="GpLinearInverter.marginal_likelihood:large")
        # inverters are independent objects: one built with the DEFAULT prior covariance (squared exponential) keeps returning the
        # same, correct posterior after another default inverter has been built on other positions
        if pb["kern"]["k"] == "se":
            try:
                # (every other time the two inverters are given ONE covariance-function object instead of the default)
                shared_k = {} if len(idn["A"]) % 2 else {"prior_covariance_function": (prev_default[5] if prev_default is not None and prev_default[5] is not None
                                                                                        else G.build_kernel(pb["kern"], d, p)[0])}
                inv_d = GpLinearInverter(y=y, y_err=yerr, model_matrix=A, parameter_spatial_positions=pos, prior_mean_function=G.build_mean(pb["mean"])[0], **shared_k)
                mu_d, Sig_d = inv_d.calculate_posterior(th)
                if prev_default is not None:
                    pinv, pth, pmu, pSig, pidn, _ = prev_default
                    mu_p, Sig_p = pinv.calculate_posterior(pth)
                    ck.case(str(pidn) + "independent")
                    if not (np.array_equal(mu_p, pmu) and np.array_equal(Sig_p, pSig)):
                        ck.violation("posterior of an inverter does not change when another inverter is constructed (default prior covariance)",
                                     {**pidn, "then_constructed": idn, "mean_before": pmu, "mean_after": mu_p}, site="GpLinearInverter:independence")
                if not (GE.close(mu_d, want_mu, ys) and GE.close(np.asarray(Sig_d, dtype=float), want_S, float(np.max(np.abs(prior))))):
                    ck.violation("posterior with the default prior covariance function (squared exponential) = closed form",
                                 {**idn, "want": want_mu, "got": mu_d}, site="GpLinearInverter.calculate_posterior:default-kernel")
                prev_default = (inv_d, th, mu_d, Sig_d, idn, shared_k.get("prior_covariance_function"))
            except Exception as ex:
                ck.violation("GpLinearInverter raised on a valid problem", {**idn, "error": repr(ex)[:300]}, site="GpLinearInverter")
        nm = len(pb["mean"]["th"])
        g = np.asarray(g, dtype=float)
        wm = np.array([G.fr(v) for v in c["gmean"]])
        wc = np.array([SL.value(v) for v in c["gcov"]])
        mc = max([SL.magnitude(v) for v in c["gcov"]] + [1.0, float(np.max(np.abs(wm), initial=0.0))])
        if not (GE.close(g[:nm], wm, mc) and GE.close(g[nm:], wc, mc)):
            ck.violation("evidence gradient is the true gradient", {**idn, "want": list(wm) + list(wc), "got": g},
                         site="GpLinearInverter.marginal_likelihood_gradient")
        if len(ck.samples) < 3 and len(pb["A"]) == 3:
            ck.sample({**idn, "spec_mean": want_mu.tolist(), "spec_cov": want_S.tolist(), "spec_evidence": want_ev})
    # inverters given ONE composite covariance object (a sum: its components hold the spatial data): the first is unaffected by the second
    from inference.gp.covariance import SquaredExponential, WhiteNoise
    ck.case(("shared-composite",))
    try:
        comp = SquaredExponential() + WhiteNoise()
        A1, y1, e1 = np.array([[1.0, 2.0, 0.0], [0.0, 1.0, 1.0]]), np.array([1.0, -2.0]), np.array([0.5, 0.5])
        p1, p2 = np.array([[0.0], [1.0], [2.0]]), np.array([[0.0], [0.3], [5.0]])
        th_ = np.array([2.0, 0.0, 0.0, -1.0])
        i1 = GpLinearInverter(y=y1, y_err=e1, model_matrix=A1, parameter_spatial_positions=p1, prior_covariance_function=comp)
        m_before, S_before = i1.calculate_posterior(th_)
        ev_before = float(i1.marginal_likelihood(th_))
        i2 = GpLinearInverter(y=y1 + 1, y_err=e1, model_matrix=A1, parameter_spatial_positions=p2, prior_covariance_function=comp)
        i2.calculate_posterior(th_)
        m_after, S_after = i1.calculate_posterior(th_)
        ev_after = float(i1.marginal_likelihood(th_))
        if not (np.array_equal(m_before, m_after) and np.array_equal(S_before, S_after) and ev_before == ev_after):
            ck.violation("posterior of an inverter does not change when another inverter is constructed from the same (composite) covariance object",
                         {"mean_before": m_before, "mean_after": m_after, "evidence_before": ev_before, "evidence_after": ev_after},
                         site="GpLinearInverter:independence")
    except Exception as ex:
        ck.violation("GpLinearInverter raised (shared composite covariance object)", {"error": repr(ex)[:300]}, site="GpLinearInverter:independence")
    ck.traces += len(r.printed)
    square_part(ck)
    return ck.finish()
