"""Generates /verif/MANIFEST.json from the table below (python -m harness.manifest)."""
import json
import os

VERIF = os.path.dirname(os.path.dirname(os.path.abspath(__file__)))

BASELINE_OFF = ("cd /repo && env -u INFERENCE_TOOLS_VERIF /venv/bin/python -m pytest -ra -q -p no:cacheprovider "
                "--timeout=900 --continue-on-collection-errors")

# pid -> (technique, level text, level note, design ref)
CLAIMED = {
    "C04": {
        "technique": "TLA+ limit state machine + map laws model-checked by TLC; every TLC history/box replayed into the real "
                     "samplers; observed proposal maps checked by TLC (ObservedFoldLaws); bounded-sampler traces validated by LimitsTrace.tla",
        "text": "Exhaustive over every call order of set_boundaries/remove/set_non_negative up to length 3 (quick) / 5 (thorough) "
                "and every box/overshoot of the reflection maps on a lattice at many dyadic scales; every enumerated case is executed "
                "on the real code and compared with the TLC state. Bounded PCA/HMC/ensemble runs with overshooting proposals are "
                "trace-validated (every posterior/gradient evaluation and every sample inside the limits up to 4 ulp).",
        "note": "Trusted: TLC, numpy exactness on dyadic lattices, the ulp projection. Histories longer than 5 calls and non-lattice "
                "Gibbs boundaries are covered only through the random-bounds traces.",
        "ref": "DESIGN.md section 3 C04",
    },
}

NOT_YET = {}

ALL = [f"C{i:02d}" for i in range(1, 21)]


def build():
    checks = []
    for pid in ALL:
        if pid not in CLAIMED:
            continue
        c = CLAIMED[pid]
        checks.append({
            "property_id": pid,
            "quick_cmd": f"./check {pid} --tier quick",
            "thorough_cmd": f"./check {pid} --tier thorough",
            "evidence_file": f"/verif/evidence/{pid}.json",
            "replay_cmd_template": f"./check {pid} --replay {{path}}",
            "engine": "tlc+conformance",
            "level_claimed": {"category": c.get("category", "model_checking"), "text": c["text"],
                              "design_ref": c["ref"]},
            "level_note": c["note"],
            "technique": c["technique"],
        })
    na = [{"property_id": pid, "reason": NOT_YET.get(pid, "check not built yet (build in progress; see DESIGN.md section 4)")}
          for pid in ALL if pid not in CLAIMED]
    m = {
        "version": 1,
        "setup_cmd": "cd /verif && ./setup.sh",
        "hooks": {
            "guard": "INFERENCE_TOOLS_VERIF",
            "enable": "checks import inference from /repo's working tree (PYTHONPATH=/repo) with INFERENCE_TOOLS_VERIF=1; "
                      "all instrumentation is external (scripted RNGs, traced pipes, fake clock); no source hooks",
            "baseline_off_cmd": BASELINE_OFF,
            "source_commits": [],
            "add_only": True,
        },
        "engines": [{
            "name": "tlc+conformance",
            "path": "/verif/check",
            "serves_properties": [p for p in ALL if p in CLAIMED],
            "kind_free_text": "TLA+ specifications in /verif/spec model-checked by TLC; TLC-exported transitions/cases "
                              "replayed into the real code (spec->code) and traces recorded from the real code validated "
                              "by TLC trace specifications (code->spec)",
        }],
        "checks": checks,
        "notes": "See DESIGN.md. Exit 2 from a check means machinery failure, never a property verdict.",
        "not_applicable": na,
    }
    return m


if __name__ == "__main__":
    with open(os.path.join(VERIF, "MANIFEST.json"), "w") as fh:
        json.dump(build(), fh, indent=1)
    print("MANIFEST.json written:", len(build()["checks"]), "checks")
