"""HmcStep.tla behaviours replayed into HamiltonianChain.take_step (used by C01, C03)."""
import json
import numpy as np

from harness.core import must_pass, seed
from harness import leapfrog as L
from harness.mcmc_kit import Script, ScriptedGen, inject

U_LO, U_HI = 2.0 ** -60, 1.0 - 2.0 ** -30


def replay(c, b):
    plog, glog = [], []
    ch, q = L.build_chain(c, b["start"], plog, glog)
    ns = [d[1] for d in b["draws"]]
    attempts = [{"k": d[0], "u": [0.5, U_LO if d[2] == "lo" else U_HI]} for d in b["draws"]]
    script = Script(attempts, n_normals=c["n"])
    inject(ch, lambda path: ScriptedGen(script, path))
    ch.max_attempts = len(attempts) + 3      # tuning attribute: fail fast once the script is exhausted
    steps = len(b["theta"]) - 1
    err = None
    # the number of leapfrog steps per attempt is a tuning quantity (jittered around chain.steps): bind it per attempt
    # through the public attribute, with the jitter draw at its centre
    orig_take = ch.take_step
    glog.clear()
    plog.clear()
    try:
        for _ in range(steps):
            # set steps for the next attempt(s): attempts inside one step share chain.steps, so behaviours are generated with
            # one n per step (see explore: NSet singleton per behaviour)
            ch.steps = ns[min(max(script.t + 1, 0), len(ns) - 1)]
            ch.take_step()
    except Exception as ex:
        err = repr(ex)
    D = L.D
    obs = {"error": err, "consumed": min(script.t + 1, len(attempts)), "overrun": script.overrun,
           "gpts": [L.vec(p) for p in glog],
           "theta": [L.vec(t) for t in ch.get_sample(burn=0)],
           "probs": [float(p) for p in ch.get_probabilities(burn=0)],
           "chain_length": int(ch.chain_length)}
    try:
        obs["mode"] = L.vec(ch.mode())
    except Exception as ex:
        obs["mode"] = repr(ex)
    return obs


def judge(ck, c, b, obs, index):
    site = "HamiltonianChain.take_step"
    D = L.D
    ident = {"config": {k: c[k] for k in ("n", "A", "b", "T", "en", "ed", "minv", "md", "box", "mass")},
             "start": L.scaled(b["start"]), "draws[z,n,u]": b["draws"]}
    if obs["error"] and not obs["overrun"]:
        ck.violation("step raised", {**ident, "error": obs["error"]}, site=site)
        return "violation"
    if obs["overrun"]:
        if b["nstay"] > 0:
            if ck.pid == "C01":      # a C01 matter (known finding F1); for other properties both semantics conform
                ck.violation("rejected proposal is retried inside the step (RejectRetry) instead of being recorded (RejectStay)",
                             {"class": "HamiltonianChain"}, site="HamiltonianChain.take_step:retry-until-accept")
            return "retry"
        ck.violation("acceptance decision: the code rejected / kept drawing where the specification commits",
                     {**ident, "code_theta": obs["theta"]}, site=site)
        return "violation"
    target = b
    if obs["consumed"] < len(b["draws"]):
        cands = index.get((c["id"], tuple(b["start"]), json.dumps(b["draws"][:obs["consumed"]]), len(b["theta"])), [])
        match = [t for t in cands if [L.scaled(x) for x in t["theta"]] == obs["theta"]]
        if not match:
            ck.violation("step committed early: no specification behaviour explains the draws consumed",
                         {**ident, "consumed": obs["consumed"], "code_theta": obs["theta"]}, site=site)
            return "violation"
        target = match[0]
    want_g = [L.scaled(p) for p in target["gpts"]]
    want_t = [L.scaled(t) for t in target["theta"]]
    want_p = [-pn / (2.0 * c["T"] * D * D) for pn in target["pnum"]]
    if obs["gpts"] != want_g:
        ck.violation("gradient-evaluation points (fresh momentum per attempt, trajectory from the current point, inside the bounds)",
                     {**ident, "want": want_g[:12], "got": obs["gpts"][:12]}, site=site)
        return "violation"
    if obs["theta"] != want_t:
        ck.violation("recorded samples (accept iff dH <= 0 or u <= exp(-dH), H = kinetic(r) - logp/T)",
                     {**ident, "want": want_t, "got": obs["theta"]}, site=site)
        return "violation"
    if obs["probs"] != want_p:
        ck.violation("ProbsBelong: recorded log-probability = logp(sample)/T", {**ident, "want": want_p, "got": obs["probs"]}, site=site)
        return "violation"
    if obs["chain_length"] != len(want_t):
        ck.violation("LenAgree: chain_length = number of stored samples", {**ident, "chain_length": obs["chain_length"]}, site=site)
        return "violation"
    best = max(want_p)
    if not any(obs["mode"] == t and p == best for t, p in zip(want_t, want_p)):
        ck.violation("ModeIsArgmax", {**ident, "mode": obs["mode"]}, site="HamiltonianChain.mode")
        return "violation"
    return "ok"


def run_part(ck, tier):
    cfgs = [c for c in L.configs() if c["mass"] != "skipmom"]
    runs = []
    for n in ((2,) if tier == "quick" else (1, 2, 3)):
        runs.append(("exhaustive_n%d" % n, dict(zset=[-2, 0, 1] if tier == "quick" else [-2, -1, 0, 1, 2], nset=[n], maxatt=2, maxsteps=1)))
    runs.append(("simulate", dict(zset=[-2, -1, 0, 1, 2], nset=[2], maxatt=3, maxsteps=4,
                                  simulate="num=%d" % (40 if tier == "quick" else 400), depth=10, seed_=seed() + 13)))
    for label, kw in runs:
        r = L.explore_hmcstep(cfgs, **kw)
        if r.violated:
            ck.violation("spec: HmcStep invariants", {"violated": r.violated}, site="spec")
        must_pass(r, "HmcStep " + label)
        ck.tlc(r, "hmc_" + label)
        byid = {c["id"]: c for c in cfgs}
        index = {}
        for b in r.printed:
            index.setdefault((b["cf"], tuple(b["start"]), json.dumps(b["draws"]), len(b["theta"])), []).append(b)
        seen = set()
        verd = {"ok": 0, "retry": 0, "violation": 0}
        for b in r.printed:
            key = (b["cf"], tuple(b["start"]), json.dumps(b["draws"]), b["nstay"], b["nretry"])
            if key in seen:
                continue
            seen.add(key)
            c = byid[b["cf"]]
            v = judge(ck, c, b, replay(c, b), index)
            verd[v] += 1
            ck.case(("hmc", label) + key)
            if len(ck.samples) < 8 and b["nretry"] > 0 and c["n"] == 2:
                ck.sample({"part": "hmc_step", "start": L.scaled(b["start"]), "draws[z,n,u]": b["draws"],
                           "spec_theta": [L.scaled(t) for t in b["theta"]], "verdict": v})
        ck.count("hmc_" + label, "behaviours_replayed", len(seen))
        for k, v in verd.items():
            ck.count("hmc_" + label, k, v)
        ck.traces += len(seen)
